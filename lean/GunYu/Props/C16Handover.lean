/-
  C16, last clause — "a follower that already holds more than the leader is offered
  leadership rather than being overwritten" — from the offer to the new leader.

  Props/C16.lean ends where the follower's `Run` returns the take-over error
  (`ahead_gets_handover`) and `SyncerCmd.Sync` stops the leader's syncer
  (`handover_leader_steps_down`). Here: what cmd/syncer.go `runCluster` does next on every
  instance (model: Model/Handover.lean, tied to the source by the facts `c16_cmd`,
  `c16_runcluster` and by the harness C16ho which runs the real `runCluster` of both sides).

  Quantifiers: any number `n` of instances, any event list (every interleaving of campaigns,
  renewals, offers, stops, resigns — each succeeding or failing —, follower sessions, crashes,
  restarts and the passing of time), any lease TTL.

  Timing facts are hypotheses, not theorems, and each has its `decide`d counter-witness:
   * `timely` (the guard of `tick`): a sender's lease does not run out while it is still
     sending — the leader renews in time (C15) and `sy.Stop()` completes before the lease
     ends. Without it: `two_senders_if_stop_outlives_lease`.
   * `c.ttl ≤ c.pauseHandover` (the configured lease is not longer than the fixed 10 s pause):
     needed only when Resign FAILS. Without it the old leader re-acquires its own unexpired
     key after the pause, leads again and offers again: `old_leader_back_if_lease_longer_than_pause`.
     For the same statement over whole traces (`old_leader_silent_under_old_lease`) also: the
     old leader's process is not restarted during the pause (`old_leader_back_if_restarted`),
     and — built into the model — a Renew that was in flight when the syncer was stopped
     reaches the store before the Resign is answered, or not at all.
  What is proved with no timing hypothesis at all: Resign only after the stop, silence until a
  campaign is won, the outcome of every campaign, the cache of a disk follower.
-/
import GunYu.Model.Handover
import GunYu.Proofs.Handover

namespace GunYu.Props.C16
open GunYu.Handover

/-! ### (3) no interval has two senders -/

/-- **no_two_senders**: in every reachable state, whoever is sending (leader syncer running,
    or told to stop but not yet stopped) holds the unexpired lease — for every interleaving
    and every failure of campaign / renew / resign, crashes and restarts included; hence at
    no time two instances send. (States change only at events, so this covers intervals.) -/
theorem no_two_senders (c : Cfg) (httl : 0 < c.ttl) (evs : List Ev) (s : State)
    (hb : Bounded c s) (hw : ∀ ev ∈ evs, ev.within c) (hs : Safe s) :
    (∀ i, sending ((run c true s evs).loc i) = true → holdsUntil (run c true s evs) i (run c true s evs).now = true) ∧
      ∀ i j, sending ((run c true s evs).loc i) = true → sending ((run c true s evs).loc j) = true → i = j := by
  have h := (run_safe c httl evs s hb hw hs).1
  exact ⟨h, fun i j hi hj => h.unique hi hj⟩

/-! ### (1) the old leader stops sending before it resigns -/

/-- **resign_after_stop**: `elect.Resign` is only ever issued by an instance whose leader
    syncer has been stopped (`sy.Stop()` and `WgWait` returned): a `resigned` event changes
    nothing unless the instance is in phase `resign`, which is not a sending phase, and that
    phase is entered only by `stopped`. -/
theorem resign_after_stop (c : Cfg) (g : Bool) (s : State) (i : Nat) (ok : Bool) :
    ((∀ w, (s.loc i).phase ≠ .resign w) → step c g s (.resigned i ok) = s) ∧
      (∀ w, (s.loc i).phase = .resign w → sending (s.loc i) = false) := by
  constructor
  · intro h
    cases hp : (s.loc i).phase with
    | resign w => exact absurd hp (h w)
    | _ => simp [step, hp]
  · intro w hp
    simp [sending, hp]

/-- … and once stopped it stays silent until it WINS a campaign again: every event other
    than a successful `campaign i` leaves a non-sending instance non-sending. -/
theorem silent_until_campaign_won (c : Cfg) (g : Bool) (s : State) (ev : Ev) (i : Nat)
    (hns : sending (s.loc i) = false) (hev : ev ≠ .campaign i true) :
    sending ((step c g s ev).loc i) = false := by
  have hset : ∀ (k : Nat) (p : Phase), (k = i → sending ⟨p, (s.loc i).cache, (s.loc i).disk⟩ = false) →
      sending ((s.set k p).loc i) = false := by
    intro k p hp
    by_cases hik : i = k
    · subst hik; simpa [State.set, sending] using hp rfl
    · rw [set_other s _ hik]; exact hns
  have hend : ∀ (k : Nat) (p : Phase), (k = i → sending ⟨p, none, false⟩ = false) →
      sending (upd s.loc k (endSyncer (s.loc k) p) i) = false := by
    intro k p hp
    by_cases hik : i = k
    · subst hik; simpa [endSyncer, sending] using hp rfl
    · rw [upd_other _ _ hik]; exact hns
  cases ev with
  | tick d => simp only [step]; split <;> exact hns
  | campaign k ok =>
    simp only [step]
    split
    · split
      · exact hns
      · split
        · exact hset _ _ (fun _ => rfl)
        · split
          · exact hset _ _ (fun _ => rfl)
          · next hok _ =>
            by_cases hik : i = k
            · subst hik
              have : ok = true := by simpa using hok
              subst this
              exact absurd rfl hev
            · simp only; rw [set_other s _ hik]; exact hns
    · exact hns
  | renew k ok =>
    simp only [step]
    split
    · next hp =>
      split
      · exact hns
      · by_cases hik : i = k
        · subst hik; simp [sending, hp] at hns
        · rw [set_other s _ hik]; exact hns
    · split <;> exact hns
    · split <;> exact hns
    · exact hns
  | tcampaign k ok =>
    simp only [step]
    split
    · split
      · exact hset _ _ (fun _ => rfl)
      · split
        · exact hns
        · simp only; exact hset _ _ (fun _ => rfl)
    · exact hns
  | offer k j =>
    simp only [step]
    split
    · next hc =>
      simp only [Bool.and_eq_true, bne_iff_ne, ne_eq, beq_iff_eq] at hc
      by_cases hij : i = j
      · subst hij; simp [sending]
      · rw [set_other _ _ hij]
        by_cases hik : i = k
        · subst hik; simp [sending, hc.1.1.2] at hns
        · rw [set_other s _ hik]; exact hns
    · exact hns
  | stopped k =>
    simp only [step]
    split
    · exact hend _ _ (fun _ => rfl)
    · exact hend _ _ (fun _ => rfl)
    · split
      · exact hns
      · exact hend _ _ (fun _ => rfl)
    · exact hns
  | resigned k ok =>
    simp only [step]
    split
    · split <;> exact hset _ _ (fun _ => rfl)
    · exact hns
  | fsync k v =>
    simp only [step]
    split
    · next hp =>
      by_cases hik : i = k
      · subst hik; simp [sending, hp]
      · simp only; rw [upd_other _ _ hik]; exact hns
    · exact hns
  | fail k brk =>
    simp only [step]
    split
    · next hp =>
      by_cases hik : i = k
      · subst hik; simp [sending, hp] at hns
      · rw [set_other s _ hik]; exact hns
    · exact hset _ _ (fun _ => rfl)
    · exact hns
  | landed k => simp only [step]; split <;> exact hns
  | crash k => exact hend _ _ (fun _ => rfl)
  | restart k =>
    simp only [step]
    split
    · exact hset _ _ (fun _ => rfl)
    · exact hns

/-- **old_leader_waits_out_its_lease**: Resign FAILED (the key stays in the store). If the
    lease is not longer than the hand-over pause, the old leader's next campaign comes only
    after its old key has expired: it never sends again under the old lease, and competes
    without any priority. -/
theorem old_leader_waits_out_its_lease (c : Cfg) (g : Bool) (s : State) (i : Nat)
    (hf : LeaseFresh c s) (hp : (s.loc i).phase = .resign .handover) (hbound : c.ttl ≤ c.pauseHandover) :
    ∃ wake, ((step c g s (.resigned i false)).loc i).phase = .cand wake ∧
      (step c g s (.resigned i false)).lease = s.lease ∧
      ∀ h e, s.lease = some (h, e) → e ≤ wake := by
  refine ⟨s.now + c.pauseHandover, ?_, ?_, ?_⟩
  · simp [step, hp, pauseResign]
  · simp [step, hp]
  · intro h e he
    have := hf h e he
    omega

/-- **old_leader_silent_under_old_lease**: from the answer to its Resign (successful or not) on,
    for EVERY continuation — campaigns, ticker calls and calls landing late, of anybody, in any
    order, succeeding or failing, crashes of anybody, restarts of the others —: whenever the old
    leader sends again, the key it held when it stopped has expired (or was deleted and has
    expired as a date): it never sends again under the old lease. Hypotheses: the lease is not
    longer than the hand-over pause, and the old leader's process is not restarted before (a
    restarted process campaigns at once and re-acquires its own key:
    `old_leader_back_if_restarted`). -/
theorem old_leader_silent_under_old_lease (c : Cfg) (g : Bool) (s : State) (i : Nat) (ok : Bool)
    (evs : List Ev) (hf : LeaseFresh c s) (hp : (s.loc i).phase = .resign .handover)
    (hbound : c.ttl ≤ c.pauseHandover) (hev : ∀ ev ∈ evs, ev ≠ .restart i) :
    sending ((run c g (step c g s (.resigned i ok)) evs).loc i) = true →
      ∀ h e, s.lease = some (h, e) → e ≤ (run c g (step c g s (.resigned i ok)) evs).now := by
  intro hsend h e hl
  have hq : Quiet e i (step c g s (.resigned i ok)) := by
    right; left
    refine ⟨s.now + c.pauseHandover, ?_, ?_⟩
    · simp only [step, hp, pauseResign]
      split <;> simp
    · have := hf h e hl
      omega
  exact (run_quiet c g evs _ e i hq hev).not_sending_before hsend

/-! ### (2) the offered follower becomes leader unless another instance wins -/

/-- a successful Resign of the stopped leader frees the key -/
theorem resign_frees (c : Cfg) (g : Bool) (s : State) (i e : Nat) (w : Why)
    (hp : (s.loc i).phase = .resign w) (hl : s.lease = some (i, e)) :
    (step c g s (.resigned i true)).lease = none := by
  simp [step, hp, hl, ownsLease]

/-- **campaign_outcome**: a candidate whose pause is over and whose Campaign call succeeds
    becomes leader exactly when the key is free, expired or its own; otherwise follower. -/
theorem campaign_outcome (c : Cfg) (g : Bool) (s : State) (j w : Nat)
    (hp : (s.loc j).phase = .cand w) (hw : w ≤ s.now) :
    (heldByOther s j = false →
        ((step c g s (.campaign j true)).loc j).phase = .lead ∧
        (step c g s (.campaign j true)).lease = some (j, s.now + c.ttl)) ∧
      (heldByOther s j = true → ((step c g s (.campaign j true)).loc j).phase = .foll ∧
        (step c g s (.campaign j true)).lease = s.lease) := by
  have hnot : ¬ s.now < w := by omega
  constructor
  · intro h
    simp [step, hp, hnot, h]
  · intro h
    simp [step, hp, hnot, h]

/-- **offered_becomes_leader**: the follower `j` was offered leadership, the old leader has
    stopped and resigned successfully (the key is free), `j`'s 1 s pause is over. Its campaign
    makes it leader with a fresh lease — unless another instance's campaign got there first,
    in which case that instance holds the key and `j` follows it; either way at most one
    instance leads (`no_two_senders`), and while the winner's lease lasts every other
    campaign loses. -/
theorem offered_becomes_leader (c : Cfg) (g : Bool) (httl : 0 < c.ttl) (s : State) (j w : Nat)
    (hp : (s.loc j).phase = .cand w) (hw : w ≤ s.now) (hfree : s.lease = none) :
    ((step c g s (.campaign j true)).loc j).phase = .lead ∧
      ∀ k, k ≠ j → heldByOther (step c g s (.campaign j true)) k = true := by
  have hnot : ¬ s.now < w := by omega
  have hh : heldByOther s j = false := by simp [heldByOther, hfree]
  constructor
  · exact ((campaign_outcome c g s j w hp hw).1 hh).1
  · intro k hk
    have hl := ((campaign_outcome c g s j w hp hw).1 hh).2
    have hn : (step c g s (.campaign j true)).now = s.now := by simp [step, hp, hnot, hh]
    simp only [heldByOther, hl, hn]
    simp [Ne.symm hk]; omega

/-- **handover_completes**: from ANY safe state in which `i` leads and the follower `j` (disk
    backend) holds more: the offer, the old leader's stop and successful Resign, `Run`'s pause,
    the end of the follower's syncer, the loop's pause and its campaign are all enabled in this
    order under the guarded clock (nobody sends after the stop, so time may pass), and at the
    end `j` leads on a fresh lease with exactly the cache it held when it was offered
    leadership, while `i` is a candidate that will not campaign before its 10 s are over. -/
theorem handover_completes (c : Cfg) (s : State) (i j : Nat) (hs : Safe s)
    (hij : i ≠ j) (hpi : (s.loc i).phase = .lead) (hpj : (s.loc j).phase = .foll)
    (hah : ahead (s.loc j).cache (s.loc i).cache = true) (hd : (s.loc j).disk = true) :
    ((run c true s [.offer i j, .stopped i, .resigned i true, .tick c.takeoverDelay, .stopped j,
        .tick c.pauseOther, .campaign j true]).loc j).phase = .lead ∧
      ((run c true s [.offer i j, .stopped i, .resigned i true, .tick c.takeoverDelay, .stopped j,
        .tick c.pauseOther, .campaign j true]).loc j).cache = (s.loc j).cache ∧
      (run c true s [.offer i j, .stopped i, .resigned i true, .tick c.takeoverDelay, .stopped j,
        .tick c.pauseOther, .campaign j true]).lease = some (j, s.now + c.takeoverDelay + c.pauseOther + c.ttl) ∧
      ((run c true s [.offer i j, .stopped i, .resigned i true, .tick c.takeoverDelay, .stopped j,
        .tick c.pauseOther, .campaign j true]).loc i).phase = .cand (s.now + c.pauseHandover) := by
  have hsi : sending (s.loc i) = true := by simp [sending, hpi]
  obtain ⟨e, hl, _⟩ := (holdsUntil_iff s i s.now).mp (hs i hsi)
  have hothers : ∀ k, k ≠ i → sending (s.loc k) = false := by
    intro k hk
    cases hsk : sending (s.loc k) with
    | false => rfl
    | true => exact absurd (hs.unique hsk hsi) hk
  -- offer
  let s1 := (s.set i (.stopL .handover)).set j (.follOffered (s.now + c.takeoverDelay))
  have h1 : step c true s (.offer i j) = s1 := by
    simp [step, hij, hpi, hpj, hah, s1]
  have hji : j ≠ i := Ne.symm hij
  -- the old leader's syncer stops
  let s2 : State := { s1 with loc := upd s1.loc i (endSyncer (s1.loc i) (.resign .handover)) }
  have hp1i : (s1.loc i).phase = .stopL .handover := by
    simp [s1, State.set, upd, hij]
  have h2 : step c true s1 (.stopped i) = s2 := by
    simp only [step, hp1i, s2]
  -- it resigns
  let s3 : State := { s2.set i (.cand (s2.now + c.pauseHandover)) with lease := none }
  have hp2i : (s2.loc i).phase = .resign .handover := by simp [s2, endSyncer]
  have h3 : step c true s2 (.resigned i true) = s3 := by
    have hl2 : s2.lease = some (i, e) := hl
    have hown : ownsLease s2 i = true := by simp [ownsLease, hl2]
    simp only [step, hp2i, hown, pauseResign, Bool.true_and, if_true, s3]
  have hs3 : ∀ k, sending (s3.loc k) = false := by
    intro k
    by_cases hki : k = i
    · subst hki; simp [s3, State.set, sending]
    · by_cases hkj : k = j
      · subst hkj; simp [s3, s2, s1, State.set, upd, hki, sending]
      · have := hothers k hki
        simpa [s3, s2, s1, State.set, upd, hki, hkj] using this
  -- Run's 2 s
  let s4 : State := { s3 with now := s.now + c.takeoverDelay }
  have h4 : step c true s3 (.tick c.takeoverDelay) = s4 := by
    have ht := timely_of_silent c s3 c.takeoverDelay hs3
    simp only [step, ht, Bool.true_and, Bool.not_true, Bool.false_eq_true, if_false]
    rfl
  have hp4j : (s4.loc j).phase = .follOffered (s.now + c.takeoverDelay) := by
    simp [s4, s3, s2, s1, State.set, upd, hji]
  let s5 : State := { s4 with loc := upd s4.loc j (endSyncer (s4.loc j) (.cand (s.now + c.takeoverDelay + c.pauseOther))) }
  have h5 : step c true s4 (.stopped j) = s5 := by
    have : ¬ s4.now < s.now + c.takeoverDelay := by simp [s4]
    simp only [step, hp4j, this, if_false, s5]
  have hs5 : ∀ k, sending (s5.loc k) = false := by
    intro k
    by_cases hkj : k = j
    · subst hkj; simp [s5, endSyncer, sending]
    · have := hs3 k
      simpa [s5, s4, upd, hkj] using this
  let s6 : State := { s5 with now := s.now + c.takeoverDelay + c.pauseOther }
  have h6 : step c true s5 (.tick c.pauseOther) = s6 := by
    have ht := timely_of_silent c s5 c.pauseOther hs5
    simp only [step, ht, Bool.true_and, Bool.not_true, Bool.false_eq_true, if_false]
    rfl
  have hp6j : (s6.loc j).phase = .cand (s.now + c.takeoverDelay + c.pauseOther) := by
    simp [s6, s5, endSyncer]
  have hfree6 : heldByOther s6 j = false := by simp [heldByOther, s6, s5, s4, s3]
  have h7 := (campaign_outcome c true s6 j _ hp6j (by simp [s6])).1 hfree6
  have hrun : run c true s [.offer i j, .stopped i, .resigned i true, .tick c.takeoverDelay, .stopped j,
        .tick c.pauseOther, .campaign j true] = step c true s6 (.campaign j true) := by
    simp only [run, List.foldl_cons, List.foldl_nil, h1, h2, h3, h4, h5, h6]
  rw [hrun]
  refine ⟨h7.1, ?_, ?_, ?_⟩
  · have hc6 : (s6.loc j).cache = (s.loc j).cache := by
      simp [s6, s5, s4, s3, s2, s1, endSyncer, State.set, upd, hji, hd]
    have := (step_cache c true s6 (.campaign j true) j (by simp [s6, s5, s4, s3, s2, s1, endSyncer, State.set, upd, hji, hd]) (by intro v; simp)).1
    rw [this, hc6]
  · rw [h7.2]
  · have hother : i ∉ (Ev.campaign j true).targets := by simp [Ev.targets, hij]
    rw [step_loc_other c true s6 _ i hother]
    simp [s6, s5, s4, s3, State.set, upd, hij]
    rfl

/-- **follower_promoted_by_ticker**: the Resign failed and the old key has run out (or it
    succeeded and the offered follower is still inside `Run`'s 2 s): the follower's ticker
    campaign wins, its syncer is stopped without an error, the loop campaigns at once — on its
    own key — and it leads. Nobody else can win in between (`campaign_outcome`: the key is its). -/
theorem follower_promoted_by_ticker (c : Cfg) (g : Bool) (s : State) (j : Nat)
    (hfo : isFollowing (s.loc j).phase = true) (hfree : heldByOther s j = false) :
    ((run c g s [.tcampaign j true, .stopped j, .campaign j true]).loc j).phase = .lead ∧
      (run c g s [.tcampaign j true, .stopped j, .campaign j true]).lease = some (j, s.now + c.ttl) ∧
      (∀ k, k ≠ j → heldByOther (step c g s (.tcampaign j true)) k = true ∨ c.ttl = 0) := by
  have h1 : step c g s (.tcampaign j true) = { s.set j (.stopF .changed) with lease := some (j, s.now + c.ttl) } := by
    simp [step, hfo, hfree]
  let s1 : State := { s.set j (.stopF .changed) with lease := some (j, s.now + c.ttl) }
  let s2 := step c g s1 (.stopped j)
  have hp2 : (s2.loc j).phase = .cand (s.now + 0) := by simp [s2, step, pauseOf, endSyncer, s1]
  have hl2 : s2.lease = some (j, s.now + c.ttl) := by simp [s2, step, s1]
  have hn2 : s2.now = s.now := by simp [s2, step, s1]
  have hh2 : heldByOther s2 j = false := by simp [heldByOther, hl2]
  have h3 := (campaign_outcome c g s2 j (s.now + 0) hp2 (by omega)).1 hh2
  have hrun : run c g s [.tcampaign j true, .stopped j, .campaign j true] = step c g s2 (.campaign j true) := by
    simp [run, h1, s2, s1]
  rw [hrun]
  refine ⟨h3.1, ?_, ?_⟩
  · rw [h3.2, hn2]
  · intro k hk
    by_cases h0 : c.ttl = 0
    · exact Or.inr h0
    · left
      rw [h1]
      have hlt : s.now < s.now + c.ttl := by omega
      have hjk : j ≠ k := Ne.symm hk
      simp [heldByOther, hlt, hjk]

/-! ### (4) the cache the new leader serves from -/

/-- **promoted_cache_intact** (disk backend): from the moment leadership is offered to the
    moment the follower leads — whatever happens in between: lost campaigns, the old leader's
    failed resign, crashes of others, its own syncer being stopped and re-created — the end of
    its cache does not move unless it runs a follower session against some leader (and what a
    session does to it is `follower_prefix_of_leader`). The hand-over session itself leaves it
    untouched (`ahead_gets_handover`). -/
theorem promoted_cache_intact (c : Cfg) (g : Bool) (evs : List Ev) (s : State) (j : Nat)
    (hd : (s.loc j).disk = true) (hno : ∀ ev ∈ evs, ∀ v, ev ≠ .fsync j v) :
    ((run c g s evs).loc j).cache = (s.loc j).cache :=
  run_cache c g evs s j hd hno

/-! ### non-vacuity and counter-witnesses (`decide`) -/

section examples

def cfgEx : Cfg := { n := 3, ttl := 8000 }

/-- instance 0 leads (cache ends at 100, lease until 8000), 1 follows and holds more (150),
    2 follows and holds less; all on disk -/
def s0 : State where
  now := 0
  lease := some (0, 8000)
  loc := fun i => if i = 0 then ⟨.lead, some 100, true⟩ else if i = 1 then ⟨.foll, some 150, true⟩
    else ⟨.foll, some 90, true⟩

theorem s0_safe : Safe s0 := by
  intro i hi
  by_cases h0 : i = 0
  · subst h0; decide
  · by_cases h1 : i = 1
    · subst h1; simp [s0, sending] at hi
    · simp [s0, sending, h0, h1] at hi

/-- `handover_completes` applies to `s0` -/
example : ((run cfgEx true s0 [.offer 0 1, .stopped 0, .resigned 0 true, .tick cfgEx.takeoverDelay, .stopped 1,
    .tick cfgEx.pauseOther, .campaign 1 true]).loc 1).phase = .lead :=
  (handover_completes cfgEx s0 0 1 s0_safe (by decide) (by decide) (by decide) (by decide) (by decide)).1

/-- a complete hand-over in which the Resign FAILS: offer; the old leader's syncer stops, its
    Resign fails (the key stays until 8000); the offered follower's `Run` returns two seconds
    after the offer, one second later its first campaign loses and it follows again; the key
    expires; its ticker campaign wins; its syncer is re-created and it leads with its cache
    (150) intact; the old leader wakes after its 10 s pause, loses and follows. -/
def handoverFailedResign : List Ev :=
  [.offer 0 1, .stopped 0, .resigned 0 false, .tick 2000, .stopped 1, .tick 1000, .campaign 1 true,
   .tick 5000, .tcampaign 2 false, .tcampaign 1 true, .stopped 1, .campaign 1 true, .tick 2000,
   .campaign 0 true, .stopped 2, .campaign 2 true]

example : ((run cfgEx true s0 handoverFailedResign).loc 1).phase = .lead ∧
    ((run cfgEx true s0 handoverFailedResign).loc 1).cache = some 150 ∧
    ((run cfgEx true s0 handoverFailedResign).loc 0).phase = .foll ∧
    ((run cfgEx true s0 handoverFailedResign).loc 2).phase = .foll ∧
    (run cfgEx true s0 handoverFailedResign).lease = some (1, 16000) ∧
    (run cfgEx true s0 handoverFailedResign).now = 10000 := by decide

/-- after the first two events: the old leader is silent BEFORE its resign is attempted and the
    key is still its own; one second after its `Run` returned the offered follower's first
    campaign loses against the unexpired key -/
example : sending ((run cfgEx true s0 [.offer 0 1, .stopped 0]).loc 0) = false ∧
    ((run cfgEx true s0 [.offer 0 1, .stopped 0]).loc 0).phase = .resign .handover ∧
    ((run cfgEx true s0 [.offer 0 1, .stopped 0, .resigned 0 false, .tick 2000, .stopped 1, .tick 1000, .campaign 1 true]).loc 1).phase = .foll := by
  decide

/-- the ordinary hand-over (Resign succeeds): the offered follower leads three seconds after the
    offer (2 s in `Run`, 1 s in the loop) — or earlier through its ticker, which keeps campaigning
    while `Run` pauses -/
example : ((run cfgEx true s0 [.offer 0 1, .stopped 0, .resigned 0 true, .tick 2000, .stopped 1, .tick 1000, .campaign 1 true]).loc 1).phase = .lead ∧
    (run cfgEx true s0 [.offer 0 1, .stopped 0, .resigned 0 true, .tick 2000, .stopped 1, .tick 1000, .campaign 1 true]).lease = some (1, 11000) ∧
    ((run cfgEx true s0 [.offer 0 1, .stopped 0, .resigned 0 true, .tick 900, .tcampaign 1 true, .stopped 1, .campaign 1 true]).loc 1).phase = .lead := by
  decide

/-- … unless another instance wins the campaign: then exactly that one leads -/
example : ((run cfgEx true s0 [.offer 0 1, .stopped 0, .resigned 0 true, .tcampaign 2 true, .stopped 2,
      .campaign 2 true, .tick 2000, .stopped 1, .tick 1000, .campaign 1 true]).loc 2).phase = .lead ∧
    ((run cfgEx true s0 [.offer 0 1, .stopped 0, .resigned 0 true, .tcampaign 2 true, .stopped 2,
      .campaign 2 true, .tick 2000, .stopped 1, .tick 1000, .campaign 1 true]).loc 1).phase = .foll := by
  decide

/-- the guard at work: while the old leader is still stopping, time cannot pass beyond its lease -/
example : (run cfgEx true s0 [.offer 0 1, .tick 9000]).now = 0 := by decide

/-- **counter-witness to (3) without `timely`**: `sy.Stop()` takes longer than what is left of
    the lease (no renewals any more): the key expires, the offered follower wins the campaign
    and sends while the old leader's output is still open. -/
theorem two_senders_if_stop_outlives_lease :
    sending ((run cfgEx false s0 [.offer 0 1, .tick 9000, .stopped 1, .campaign 1 true]).loc 0) = true ∧
      sending ((run cfgEx false s0 [.offer 0 1, .tick 9000, .stopped 1, .campaign 1 true]).loc 1) = true := by
  decide

/-- **counter-witness to the bound `ttl ≤ pauseHandover`**: lease 30 s, Resign fails. After its
    10 s pause the old leader finds its own unexpired key, leads again (under the old lease,
    extended) and the offered follower is a follower again — the offer is repeated instead of
    honoured, for as long as Resign keeps failing. -/
theorem old_leader_back_if_lease_longer_than_pause :
    let c : Cfg := { n := 3, ttl := 30000 }
    let s : State := { s0 with lease := some (0, 30000) }
    let evs : List Ev := [.offer 0 1, .stopped 0, .resigned 0 false, .tick 2000, .stopped 1, .tick 1000, .campaign 1 true,
      .tick 7000, .campaign 0 true]
    ((run c true s evs).loc 0).phase = .lead ∧ ((run c true s evs).loc 1).phase = .foll ∧
      (run c true s evs).lease = some (0, 40000) := by
  decide

/-- **counter-witness to "no restart of the old leader"**: its process is restarted during the
    10 s pause after a failed Resign: it campaigns at once, finds its own unexpired key and leads
    under the old lease (the election key carries the instance's address, not the process). -/
theorem old_leader_back_if_restarted :
    let evs : List Ev := [.offer 0 1, .stopped 0, .resigned 0 false, .crash 0, .tick 500, .restart 0, .campaign 0 true]
    ((run cfgEx true s0 evs).loc 0).phase = .lead ∧ (run cfgEx true s0 evs).now = 500 ∧
      (run cfgEx true s0 evs).lease = some (0, 8500) := by
  decide

/-- **counter-witness to (4) for the memory backend**: the follower's syncer ends (`syncer.run`
    closes its channel), the new leader syncer gets a new, empty memory channel: what the
    follower held more than the leader is gone at its promotion. -/
theorem memory_cache_lost_at_promotion :
    let s : State := { s0 with loc := fun i => if i = 1 then ⟨.foll, some 150, false⟩ else s0.loc i }
    ((run cfgEx true s [.offer 0 1, .stopped 0, .resigned 0 true, .tick 2000, .stopped 1, .tick 1000, .campaign 1 true]).loc 1).phase = .lead ∧
      ((run cfgEx true s [.offer 0 1, .stopped 0, .resigned 0 true, .tick 2000, .stopped 1, .tick 1000, .campaign 1 true]).loc 1).cache = none := by
  decide

end examples

end GunYu.Props.C16
