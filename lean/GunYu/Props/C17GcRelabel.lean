/-
  C17 — the stale-checkpoint gc BESIDE a failover relabel.

  `gcStaleCheckpoint` polls the sources for their ids first and reads the checkpoint hash afterwards: a relabel that
  lands in between (`SetRunId` → `UpdateCheckpoint` → `SetCheckpoint`) leaves a hash entry of an id that is NOT in the
  gc's live set. What protects that record is its `_mtime`:
    `update_stamps_now`         every checkpoint HSET of `UpdateCheckpoint` is `cpEntries c now`: it carries
                                `<id1>_mtime = now`, the time of the WRITE (source fact c17_setcheckpoint_mtime pins
                                `time.Now().UnixNano()` in SetCheckpoint; harness C17gr executes the interleaving),
    `delStale_only_old`         `DelStaleCheckpoint` deletes only records whose mtime is ≤ `before` (= gc time − stale duration),
    `delStale_fresh_not_all`    a record with mtime > `before` makes `total ≠ deleted`,
    `gcLoop_head_fresh`         hence for an id outside the live set with such a record the pass issues only those
                                HDELs of OLD records and does NOT delete the id's hash entry.
-/
import GunYu.Props.C17Reach

namespace GunYu.Props.C17
open GunYu GunYu.Checkpoint GunYu.BookSys

theorem cpEntries_mtime (c : CpInfo) (now : Int) : (⟨c.runId, .mtime, intToDec now⟩ : Entry) ∈ cpEntries c now := by
  simp [cpEntries]

/-- **the relabel / rename stores the time of the write**: every HSET of a checkpoint key that `UpdateCheckpoint` issues
    is `SetCheckpoint` of a record labelled with the first id, stamped `now` -/
theorem update_stamps_now (ver : Bytes) (t : Checkpoint.Target) (loc : Bytes) (ids : List Bytes) (o1 o2 : List Nat) (now : Int)
    (db : Nat) (n : Bytes) (es : List Entry) (hq : Req.hsetCp db n es ∈ updateReqs ver t loc ids o1 o2 now) :
    ∃ id1 c, ids.head? = some id1 ∧ c.runId = id1 ∧ es = cpEntries c now ∧ (⟨id1, .mtime, intToDec now⟩ : Entry) ∈ es := by
  unfold updateReqs at hq
  cases ids with
  | nil => simp at hq
  | cons id1 rest =>
    simp only at hq
    split at hq
    · simp at hq
    · split at hq
      · split at hq
        · simp at hq
        · rename_i cpKv dbid _
          simp only [List.cons_append, List.nil_append, List.mem_cons] at hq
          rcases hq with hq | hq | hq
          · injection hq with h1 h2 h3
            refine ⟨id1, _, rfl, rfl, h3, ?_⟩
            rw [h3]
            exact cpEntries_mtime { cpKv with runId := id1, offset := if dbid < 0 then -1 else cpKv.offset } now
          · cases hq
          · exfalso
            split at hq
            · simp only [List.mem_append, List.mem_map] at hq
              rcases hq with ⟨d, _, hd⟩ | hq
              · cases hd
              · split at hq
                · simp at hq
                · simp at hq
            · simp at hq
      · simp at hq

/-- `DelStaleCheckpoint` deletes only records whose mtime is not younger than the threshold -/
theorem delStale_only_old (t : Checkpoint.Target) (name rid : Bytes) (before : Int) (ex : Bool) (order : List Nat)
    (s : StaleScan) (hs : staleScan t name rid order = some s) :
    ∀ q ∈ (delStale t name rid before ex order).2.2,
      ∃ p ∈ s.found, p.2.mtime ≤ before ∧ q = Req.hdelCp p.1 name (staleKeys p.2.runId ex) := by
  intro q hq
  simp only [delStale, hs, List.mem_map] at hq
  obtain ⟨p, hp, rfl⟩ := hq
  simp only [staleVictims, List.mem_filter, decide_eq_true_eq] at hp
  refine ⟨p, hp.1, ?_, rfl⟩
  have := hp.2
  by_cases h : p.2.mtime > before
  · exact absurd (Or.inr h) this
  · omega

/-- a record younger than the threshold makes `total ≠ deleted`: `gcStaleCp` keeps the hash entry -/
theorem delStale_fresh_not_all (t : Checkpoint.Target) (name rid : Bytes) (before : Int) (ex : Bool) (order : List Nat)
    (s : StaleScan) (hs : staleScan t name rid order = some s) (p : Nat × CpInfo) (hp : p ∈ s.found)
    (hf : p.2.mtime > before) :
    (delStale t name rid before ex order).1 ≠ (delStale t name rid before ex order).2.1 := by
  simp only [delStale, hs, staleVictims]
  have : (s.found.filter (fun p => decide ¬ ((p.1 = s.newestDb ∧ ex = true) ∨ p.2.mtime > before))).length < s.found.length := by
    apply List.length_filter_lt_length_iff_exists.2
    exact ⟨p, hp, by simp [hf]⟩
  omega

/-- **a gc pass whose live-id snapshot predates a relabel spares the relabelled record**: for a hash pair whose id is NOT
    in the live set but which holds a record stamped after `before` (the relabel happened less than the stale duration
    before the pass), the pass issues for that pair only HDELs of records with mtime ≤ `before`, and no HDEL of the
    id's hash entry -/
theorem gcLoop_head_fresh (live : List Bytes) (before : Int) (t : Checkpoint.Target) (rid cpn : Bytes)
    (rest : List (Bytes × Bytes)) (orders : List (List Nat)) (s : StaleScan)
    (hs : staleScan t cpn rid (orders.headD []) = some s) (p : Nat × CpInfo) (hp : p ∈ s.found) (hf : p.2.mtime > before) :
    ∃ rs, gcLoop live before t ((rid, cpn) :: rest) orders = rs ++ gcLoop live before (applyAll t rs) rest orders.tail ∧
      Req.hdelHash rid ∉ rs ∧
      ∀ q ∈ rs, ∃ p' ∈ s.found, p'.2.mtime ≤ before ∧ q = Req.hdelCp p'.1 cpn (staleKeys p'.2.runId (live.contains rid)) := by
  have hne := delStale_fresh_not_all t cpn rid before (live.contains rid) (orders.headD []) s hs p hp hf
  have hold := delStale_only_old t cpn rid before (live.contains rid) (orders.headD []) s hs
  refine ⟨(delStale t cpn rid before (live.contains rid) (orders.headD [])).2.2, ?_, ?_, hold⟩
  · simp only [gcLoop]
    rw [if_neg (fun h => hne h.2)]
    simp
  · intro h
    obtain ⟨p', _, _, e⟩ := hold _ h
    cases e

/-! non-vacuity: position 50@5 labelled "a" (`rxT1`), the source fails over to "b", the relabel completes at time 9
    (`updateReqs … 9`); a gc pass with the live set polled BEFORE the failover ([a, 0]):
    threshold 8 (< 9: the relabel is younger than the stale duration) → the pass issues nothing and the start reads 50@5;
    threshold 100 (the record looks stale - what a relabel that kept an OLD mtime would look like) → the pass deletes the
    record and the hash entry: the position is gone. -/

def rxT1b : Checkpoint.Target := applyAll rxT1 (updateReqs rxVer rxT1 rxLoc [rxB, rxA] [0, 5] [0, 5] 9)

example : gcReqs rxT1b [rxA, rxZ] 8 [[0, 5]] = [] ∧
    startPoint rxVer [rxB, rxA] [0, 5] (applyAll rxT1b (gcReqs rxT1b [rxA, rxZ] 8 [[0, 5]])) = some (some (50, 5)) := by
  unfold rxT1b rxT1 lifeReqs; rw [rx_trace]; decide +kernel

example : startPoint rxVer [rxB, rxA] [0, 5] (applyAll rxT1b (gcReqs rxT1b [rxA, rxZ] 100 [[0, 5]])) = some none := by
  unfold rxT1b rxT1 lifeReqs; rw [rx_trace]; decide +kernel

example := update_stamps_now rxVer rxT1 rxLoc [rxB, rxA] [0, 5] [0, 5] 9

end GunYu.Props.C17
