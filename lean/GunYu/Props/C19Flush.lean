/-
  C19, session 5 — a flush is acknowledged only when EVERY command put into it sits in a node batch
  (multi-key commands over different nodes, refused by the router at Put, alone in a flush or not).

  Model: Model/ClusterFlush.lean over ClusterSender.put / puts; the guard order of Batch.Exec,
  batch2.Dispatch, batch2.Receive is regenerated from the Go source (Gen/C19Guards.lean).
-/
import GunYu.Model.ClusterFlush

namespace GunYu.Props.C19
open GunYu.ClusterSender GunYu.ClusterFlush

/-! ### ClusterSender.put: the recorded error and the node batches only grow -/

theorem put_err_mono (txn : Bool) (s : PutSt) (e : PutEv) (h : s.err = true) :
    (put txn s e).err = true := by
  cases e with
  | refused => simp [put]
  | routed nd =>
    simp only [put]
    by_cases h1 : nd ∈ s.nodes
    · simp [h1, h]
    · by_cases h2 : txn = true ∧ s.nodes.length = 1
      · simp [h1, h2]
      · simp [h1, h2, h]

theorem puts_err_mono (txn : Bool) (es : List PutEv) : ∀ s : PutSt, s.err = true → (puts txn s es).err = true := by
  induction es with
  | nil => intro s h; simpa [puts] using h
  | cons e es ih => intro s h; simp only [puts]; exact ih _ (put_err_mono txn s e h)

/-- a Put the router refuses is REMEMBERED by the batcher, whatever is put before or after it -/
theorem puts_err_of_refused (txn : Bool) (es : List PutEv) :
    ∀ s : PutSt, PutEv.refused ∈ es → (puts txn s es).err = true := by
  induction es with
  | nil => intro s h; cases h
  | cons e es ih =>
    intro s h
    simp only [puts]
    rcases List.mem_cons.mp h with h | h
    · subst h
      exact puts_err_mono txn es _ (by simp [put])
    · exact ih _ h

theorem put_nodes_sub (txn : Bool) (s : PutSt) (e : PutEv) (nd : Nat) (h : nd ∈ s.nodes) :
    nd ∈ (put txn s e).nodes := by
  cases e with
  | refused => simpa [put] using h
  | routed n =>
    simp only [put]
    by_cases h1 : n ∈ s.nodes
    · simp [h1, h]
    · by_cases h2 : txn = true ∧ s.nodes.length = 1
      · simp [h1, h2, h]
      · simp [h1, h2, h]

theorem puts_nodes_sub (txn : Bool) (es : List PutEv) (nd : Nat) :
    ∀ s : PutSt, nd ∈ s.nodes → nd ∈ (puts txn s es).nodes := by
  induction es with
  | nil => intro s h; simpa [puts] using h
  | cons e es ih => intro s h; simp only [puts]; exact ih _ (put_nodes_sub txn s e nd h)

theorem put_routed_mem (txn : Bool) (s : PutSt) (nd : Nat) (h : (put txn s (.routed nd)).err = false) :
    nd ∈ (put txn s (.routed nd)).nodes := by
  simp only [put] at h ⊢
  by_cases h1 : nd ∈ s.nodes
  · simp [h1]
  · by_cases h2 : txn = true ∧ s.nodes.length = 1
    · simp [h1, h2] at h
    · simp [h1, h2]

/-- when no error was recorded every routed command sits in a node batch of its node -/
theorem puts_routed_mem (txn : Bool) (es : List PutEv) (nd : Nat) :
    ∀ s : PutSt, (puts txn s es).err = false → PutEv.routed nd ∈ es → nd ∈ (puts txn s es).nodes := by
  induction es with
  | nil => intro s _ h; cases h
  | cons e es ih =>
    intro s herr h
    simp only [puts] at herr ⊢
    rcases List.mem_cons.mp h with h | h
    · subst h
      have h1 : (put txn s (.routed nd)).err = false := by
        cases hh : (put txn s (.routed nd)).err with
        | false => rfl
        | true => rw [puts_err_mono txn es _ hh] at herr; cases herr
      exact puts_nodes_sub txn es nd _ (put_routed_mem txn s nd h1)
    · exact ih _ herr h

/-! ### the verdict of a flush -/

/-- with the recorded error tested first, nil from the batcher means that no error was recorded -/
theorem ack_good_no_err (pipe : Bool) (s : PutSt) (h : ack goodGuards pipe s = true) : s.err = false := by
  cases he : s.err with
  | false => rfl
  | true =>
    cases pipe <;> simp [ack, goodGuards, entry, he] at h

/-- ACKNOWLEDGED ⇒ EVERYTHING ROUTED. With the guard `bat.err != nil` first in Exec, Dispatch and Receive, a
    flush that the batcher acknowledges (blocking or pipelined, plain or sender-transactional) has every
    command of the queue in a node batch of the node the router chose for it: no command refused at Put -
    a multi-key command over different nodes, alone in its flush or not - is acknowledged unexecuted. -/
theorem flush_ack_all_routed (txn pipe : Bool) (evs : List PutEv)
    (h : flushAck goodGuards txn pipe evs = true) :
    ∀ e ∈ evs, ∃ nd, e = .routed nd ∧ nd ∈ (puts txn {} evs).nodes := by
  have herr := ack_good_no_err pipe _ h
  intro e he
  cases e with
  | refused => rw [puts_err_of_refused txn evs {} he] at herr; cases herr
  | routed nd => exact ⟨nd, rfl, puts_routed_mem txn evs nd {} herr he⟩

/-- the guard order read off the Go source on this run IS the good one -/
theorem code_guards_good : codeGuards = goodGuards := by decide

/-- `flush_ack_all_routed` for the code's guard order (regenerated) -/
theorem flush_ack_all_routed_code (txn pipe : Bool) (evs : List PutEv)
    (h : flushAck codeGuards txn pipe evs = true) :
    ∀ e ∈ evs, ∃ nd, e = .routed nd ∧ nd ∈ (puts txn {} evs).nodes := by
  rw [code_guards_good] at h
  exact flush_ack_all_routed txn pipe evs h

/-- a flush with a refused command is reported -/
theorem flush_refused_reported (txn pipe : Bool) (evs : List PutEv) (h : PutEv.refused ∈ evs) :
    flushAck codeGuards txn pipe evs = false := by
  cases hh : flushAck codeGuards txn pipe evs with
  | false => rfl
  | true =>
    obtain ⟨nd, hnd, _⟩ := flush_ack_all_routed_code txn pipe evs hh _ h
    cases hnd

/-- every flush of a replay before the first reported one had everything routed -/
theorem verdicts_acked_all_routed (txn pipe : Bool) :
    ∀ (fs : List (List PutEv)) (i : Nat) (f : List PutEv),
      fs[i]? = some f → (verdicts codeGuards txn pipe fs)[i]? = some true →
      ∀ e ∈ f, ∃ nd, e = .routed nd ∧ nd ∈ (puts txn {} f).nodes := by
  intro fs
  induction fs with
  | nil => intro i f h; simp at h
  | cons g gs ih =>
    intro i f hf hv
    unfold verdicts at hv
    by_cases hg : flushAck codeGuards txn pipe g = true
    · simp only [hg, if_true] at hv
      cases i with
      | zero =>
        simp at hf
        subst hf
        exact flush_ack_all_routed_code txn pipe _ hg
      | succ j =>
        simp at hf hv
        exact ih j f hf hv
    · simp only [hg] at hv
      cases i with
      | zero => simp at hv
      | succ j => simp at hv

/-- NECESSITY of the order (the round-7 seeded change, and batch2 before the session-5 repair): with the
    "no node batch" guard first, a flush whose only command is refused is acknowledged - blocking … -/
theorem lone_refused_acknowledged_when_empty_first :
    flushAck ⟨false, true, true⟩ false false [.refused] = true
    ∧ flushAck ⟨true, false, false⟩ false true [.refused] = true
    ∧ flushAck ⟨true, false, false⟩ true true [.refused, .refused] = true := by decide

/-- … while a flush with one routable command beside the refused one is reported under either order
    (why ordinary traffic and the existing tests never noticed) -/
theorem mixed_refused_reported_either_order (g : Guards) (txn pipe : Bool) (nd : Nat) (evs : List PutEv)
    (h : PutEv.refused ∈ evs) : flushAck g txn pipe (.routed nd :: evs) = false := by
  have herr : (puts txn {} (.routed nd :: evs)).err = true :=
    puts_err_of_refused txn _ {} (List.mem_cons_of_mem _ h)
  have hn : (puts txn {} (.routed nd :: evs)).nodes ≠ [] := by
    have : nd ∈ (puts txn {} (.routed nd :: evs)).nodes := by
      simp only [puts]
      exact puts_nodes_sub txn evs nd _ (by simp [put])
    intro h0; rw [h0] at this; cases this
  unfold flushAck ack entry
  cases pipe <;> cases g.exec <;> cases g.dispatch <;> cases g.receive <;> simp [herr, hn]

/-! ### sendFuncOnce around the batcher: `if batcher.Len() == 0 { … return nil }` -/

/-- the sender's shortcut (nil, queue kept, in-memory position moved) is taken only for an EMPTY queue of
    routable-or-refused commands once it reports a recorded Put error: a lone refused command is reported -/
theorem once_shortcut_only_empty (g : Guards) (txn pipe : Bool) (evs : List PutEv)
    (h : once true g txn pipe evs = none) : evs = [] := by
  unfold once at h
  simp only at h
  split at h
  · rename_i hn
    split at h
    · cases h
    · rename_i hc
      cases evs with
      | nil => rfl
      | cons e es =>
        exfalso
        cases e with
        | refused =>
          exact hc ⟨trivial, puts_err_of_refused txn _ {} (List.mem_cons_self ..)⟩
        | routed nd =>
          have hm : nd ∈ (puts txn {} (.routed nd :: es)).nodes := by
            simp only [puts]
            exact puts_nodes_sub txn es nd _ (by simp [put])
          rw [hn] at hm; cases hm
  · cases h

/-- sendFuncOnce acknowledges (drops the queue, moves the position) only when everything was routed -/
theorem once_ack_all_routed (chk txn pipe : Bool) (evs : List PutEv)
    (h : once chk codeGuards txn pipe evs = some true) :
    ∀ e ∈ evs, ∃ nd, e = .routed nd ∧ nd ∈ (puts txn {} evs).nodes := by
  unfold once at h
  simp only at h
  split at h
  · split at h <;> cases h
  · exact flush_ack_all_routed_code txn pipe evs (by simpa [flushAck] using h)

/-- before the repair of the shortcut: a lone refused command is "nothing to send" - nil, never reported
    while it stays alone (the finding of this session) -/
theorem once_unchecked_lone_refused_silent (g : Guards) (txn pipe : Bool) :
    once false g txn pipe [.refused] = none := by
  cases txn <;> cases pipe <;> rfl

/-! ### the shape of the code the models rely on, REGENERATED (no body text is pinned) -/

/-- Read off the Go source on this run (harness/extract/c19.go c19ExecShape / c19DispatchShape / c19OnceChecksPutErr):
    Exec and Receive wait for EVERY node batch before they read results, return a node batch's error, and return
    the error of an error reply (ClusterExec `ack`: nil only after a good reply to everything); Dispatch submits the
    node batches in order and stops at the first failing Submit (ClusterSender.dispatch: a prefix); sendFuncOnce's
    empty-batcher shortcut reports a remembered Put error (`once` with chk = true). -/
theorem code_shapes_good :
    Gen.C19Guards.execWaitsAll = true ∧ Gen.C19Guards.execReportsBatchErr = true ∧ Gen.C19Guards.execChecksReplies = true
    ∧ Gen.C19Guards.receiveWaitsAll = true ∧ Gen.C19Guards.receiveReportsBatchErr = true
    ∧ Gen.C19Guards.receiveChecksReplies = true ∧ Gen.C19Guards.dispatchStopsAtFirstSubmitError = true
    ∧ Gen.C19Guards.onceChecksPutErr = true := by decide

/-- `sendFuncOnce` with the shortcut as it is in the code -/
def codeOnce (txn pipe : Bool) (evs : List PutEv) : Option Bool :=
  once Gen.C19Guards.onceChecksPutErr codeGuards txn pipe evs

/-- the code's sendFuncOnce says "nothing to send" (nil, queue kept) only for an empty queue, and acknowledges
    only when every command was routed -/
theorem code_once_sound (txn pipe : Bool) (evs : List PutEv) :
    (codeOnce txn pipe evs = none → evs = []) ∧
    (codeOnce txn pipe evs = some true → ∀ e ∈ evs, ∃ nd, e = .routed nd ∧ nd ∈ (puts txn {} evs).nodes) := by
  unfold codeOnce
  rw [code_shapes_good.2.2.2.2.2.2.2]
  exact ⟨once_shortcut_only_empty _ txn pipe evs, once_ack_all_routed true txn pipe evs⟩

/-! non-vacuity -/
example : flushAck goodGuards false false [.routed 0, .routed 1, .routed 0] = true := by decide
example : flushAck goodGuards true true [.routed 2, .routed 2] = true := by decide
example : flushAck goodGuards false false [.refused] = false := by decide
example : flushAck goodGuards true true [.routed 0, .routed 1] = false := by decide   -- second node in a transactional batch
example : verdicts goodGuards false true [[.routed 0], [.refused], [.routed 1]] = [true, false] := by decide
example : once true goodGuards false false [.refused] = some false := by decide
example : once true goodGuards false false [.routed 1] = some true := by decide
example : once true goodGuards true true [] = none := by decide

end GunYu.Props.C19
