/-
  C04, session 5 — the listpack walks of `StreamParser.ExecCmd` on the REGENERATED `Listpack.Next`
  (lean/GunYu/Gen/FnListpack.lean, generator `gofn_listpack`, registered by checks/p/x_C04_gofn.py).

  `partial` said: "NOT proved: the rounds of StreamParser.ExecCmd that go through types.Listpack.Next
  (entry-num-fields: 2 slots appended per round) — that a round advances by ≥ 1 byte or panics is C03's
  listpack model and the D23 repair, not re-proved here". On the generated definition it is now:

    * a call with the cursor past the end panics (`gen_lpNext_past_end`);
    * `n` consecutive calls that all return have consumed at least `n` bytes (`gen_lp_walk_bounded`): a loop driven by
      ANY count field of the listpack (entry-num-fields, the master entry's field count — D32's `make([][]byte, n)` was
      sized by that count; after 7f30569 the slice grows by append per returned call) returns at most as many elements
      as bytes lie behind the cursor, so what it appends is bounded by the listpack's bytes, whatever the count says;
    * consequently a walk asked for more elements than bytes panics = is an error (`gen_lp_count_over_bytes_fails`).
-/
import GunYu.Props.C04GenS5

namespace GunYu.Props.C04
open GunYu GunYu.Gen

/-- `n` consecutive `lp.Next()` calls (the shape of every count-driven listpack loop of ExecCmd); `none` = a panic -/
def lpWalk : Nat → Fn.Listpack → Option (Fn.Listpack × List Bytes)
  | 0, lp => some (lp, [])
  | n+1, lp =>
    match Fn.lpNext lp with
    | none => none
    | some (lp1, e) =>
      match lpWalk n lp1 with
      | none => none
      | some (lp2, es) => some (lp2, e :: es)

/-- bytes behind the cursor -/
def lpLeft (lp : Fn.Listpack) : Nat := (lp.data.drop lp.p.toNat).length

/-- a cursor past the end: `data[inx]` panics -/
theorem gen_lpNext_past_end (lp : Fn.Listpack) (h : lp.data.length ≤ lp.p.toNat) : Fn.lpNext lp = none := by
  have hidx : GoSem.index lp.data (GoSem.bvToI lp.p) = none := by
    unfold GoSem.index GoSem.bvToI
    have : (0 : Int) ≤ (lp.p.toNat : Int) := Int.natCast_nonneg _
    simp only [this, if_true, Int.toNat_natCast]
    exact List.getElem?_eq_none h
  unfold Fn.lpNext
  simp only [hidx]
  rfl

theorem gen_lp_walk_bounded : ∀ (n : Nat) (lp lp' : Fn.Listpack) (es : List Bytes),
    lp.data.length < 2147483648 → lpWalk n lp = some (lp', es) →
      es.length = n ∧ n + lpLeft lp' ≤ lpLeft lp ∧ lp'.data = lp.data
  | 0, lp, lp', es, _, h => by
    simp only [lpWalk, Option.some.injEq, Prod.mk.injEq] at h
    obtain ⟨rfl, rfl⟩ := h
    exact ⟨rfl, by omega, rfl⟩
  | n+1, lp, lp', es, hlen, h => by
    unfold lpWalk at h
    cases h1 : Fn.lpNext lp with
    | none => rw [h1] at h; cases h
    | some r =>
      obtain ⟨lp1, e⟩ := r
      rw [h1] at h
      simp only at h
      cases h2 : lpWalk n lp1 with
      | none => rw [h2] at h; cases h
      | some r2 =>
        obtain ⟨lp2, es2⟩ := r2
        rw [h2] at h
        simp only [Option.some.injEq, Prod.mk.injEq] at h
        obtain ⟨rfl, rfl⟩ := h
        -- the cursor was inside (else the call panics)
        have hp : lp.p.toNat ≤ lp.data.length := by
          rcases Nat.lt_or_ge lp.p.toNat lp.data.length with hlt | hge
          · omega
          · rw [gen_lpNext_past_end lp hge] at h1; cases h1
        have hfr := Proofs.GenS5.gen_lpNext_frame lp lp1 e hlen hp h1
        have hpr := gen_lpNext_progress lp lp1 e hlen hp h1
        have ih := gen_lp_walk_bounded n lp1 lp2 es2 (by rw [hfr.1]; exact hlen) h2
        refine ⟨by simp [ih.1], ?_, ih.2.2.trans hfr.1⟩
        have : lpLeft lp1 < lpLeft lp := hpr
        have := ih.2.1
        omega

/-- **the count cannot outrun the bytes**: whatever a count field says, a walk of `n` returning calls needs `n` bytes
    behind the cursor — a count larger than that makes the walk panic (`util.Xrecover` / the worker's error), it does not
    allocate or loop for the count -/
theorem gen_lp_count_over_bytes_fails (n : Nat) (lp : Fn.Listpack) (hlen : lp.data.length < 2147483648)
    (hn : lpLeft lp < n) : lpWalk n lp = none := by
  cases h : lpWalk n lp with
  | none => rfl
  | some r =>
    obtain ⟨lp', es⟩ := r
    have := (gen_lp_walk_bounded n lp lp' es hlen h).2.1
    omega

/-- what a count-driven loop has appended when it stops (by success): at most one element per byte of the listpack -/
theorem gen_lp_appended_le_bytes (n : Nat) (lp lp' : Fn.Listpack) (es : List Bytes)
    (hlen : lp.data.length < 2147483648) (h : lpWalk n lp = some (lp', es)) : es.length ≤ lp.data.length := by
  have hb := gen_lp_walk_bounded n lp lp' es hlen h
  have : lpLeft lp ≤ lp.data.length := by simp [lpLeft, List.length_drop]
  omega

/-! non-vacuity: two 7-bit integers then the end marker; a third call panics on 0xFF; a count of 200 over 5 bytes fails -/
example : (lpWalk 2 ⟨[5, 1, 6, 1, 0xFF], 0#32, 0#32, 0⟩).map (fun r => r.2) = some [[53], [54]] := by decide +kernel
example : lpWalk 3 ⟨[5, 1, 6, 1, 0xFF], 0#32, 0#32, 0⟩ = none := by decide +kernel
example : lpWalk 200 ⟨[5, 1, 6, 1, 0xFF], 0#32, 0#32, 0⟩ = none :=
  gen_lp_count_over_bytes_fails 200 _ (by decide) (by decide)

end GunYu.Props.C04
