/-
  C05, several run-id directories — no shadowing: the ids of the current index and of
  the parked directories are pairwise different in every reachable state, so
  `dirLookup` (first match) finds THE directory of an id. (A file system cannot hold two
  directories of one name; the model's `dirs` is a list — this theorem says the list
  never uses that freedom.)
-/
import GunYu.Proofs.StoreDirsDistinct

namespace GunYu.Props.C05
open GunYu GunYu.Store

/-- **diskd_parked_ids_distinct.** After ANY operation list (no protocol hypothesis): the
    ids of the parked directories are pairwise different, none of them is a placeholder
    (`""`, `"?"`) and none is the current id. -/
theorem diskd_parked_ids_distinct (l m : Nat) (ops : List XOp) :
    let x := (DiskD.init l m).run ops
    (x.dirs.map (·.1)).Nodup ∧ ∀ e ∈ x.dirs, e.1 ≠ "" ∧ e.1 ≠ "?" ∧ e.1 ≠ x.cur.runId := by
  intro x
  obtain ⟨hk, hd⟩ := DistinctIds.run ops (KeysInv.init l m) (DistinctIds.init l m)
  exact ⟨hd, hk.keys⟩

/-- **diskd_lookup_unshadowed.** Every parked directory is the one `SetRunId` / `VerifyRunId`
    / `DelRunId` find under its id: no directory is shadowed by another of the same id. -/
theorem diskd_lookup_unshadowed (l m : Nat) (ops : List XOp) :
    let x := (DiskD.init l m).run ops
    ∀ e ∈ x.dirs, dirLookup x.dirs e.1 = some e.2 := by
  intro x e he
  exact dirLookup_of_mem (DistinctIds.run ops (KeysInv.init l m) (DistinctIds.init l m)).2 he

/-- parking the current directory (switch to an existing directory, delete of a foreign
    id, restart) keeps the ids distinct — the step the shadowing question is about -/
theorem diskd_park_keeps_distinct (l m : Nat) (ops : List XOp) :
    let x := (DiskD.init l m).run ops
    (x.parkCur.map (·.1)).Nodup := by
  intro x
  obtain ⟨hk, hd⟩ := DistinctIds.run ops (KeysInv.init l m) (DistinctIds.init l m)
  exact parkCur_nodup hk hd

/-! ### non-vacuity: three ids; "a" is parked by a restart, "b" by a switch to the existing
    "a", "a" again by the delete of the foreign id "b", then "c" is created and the store
    switches back to "a": at every point the parked ids are distinct -/

def exDistinctOps : List XOp :=
  [ .setRunId "a", .base (.newAofWriter 100), .base (.aofAppend [1,2,3]), .base .aofClose, .restart,
    .setRunId "b", .base (.newAofWriter 500), .base (.aofAppend [51,52,53]), .base .aofClose,
    .setRunId "a", .setRunId "b", .restart, .setRunId "c", .base (.newAofWriter 900), .base (.aofAppend [9]),
    .base .aofClose, .setRunId "a" ]

example : (DiskD.init 24 0).wf exDistinctOps := by decide
example : ((DiskD.init 24 0).run (exDistinctOps.take 10)).dirs.map (·.1) = ["b"] ∧
    ((DiskD.init 24 0).run (exDistinctOps.take 12)).dirs.map (·.1) = ["b", "a"] ∧
    ((DiskD.init 24 0).run exDistinctOps).dirs.map (·.1) = ["c", "b"] ∧
    ((DiskD.init 24 0).run exDistinctOps).cur.runId = "a" ∧
    ((DiskD.init 24 0).run exDistinctOps).cur.abs.bytes = [1,2,3] := by decide
/-- what shadowing WOULD look like (not reachable): with a duplicate key the lookup
    returns the first entry only -/
example : dirLookup [("a", Disk.init 1 0), ("a", Disk.init 2 0)] "a" = some (Disk.init 1 0) := rfl

end GunYu.Props.C05
