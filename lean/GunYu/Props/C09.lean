import GunYu.Model.Sender
import GunYu.Model.Target
namespace GunYu.Props.C09
end GunYu.Props.C09
