/-
  C09 — A source transaction reaches the target as one atomic transaction
  (transactional replay mode, standalone target).

  Sender model: GunYu/Model/Sender.lean; target model: GunYu/Model/Target.lean.
-/
import GunYu.Proofs.SenderRun
import GunYu.Proofs.TargetSeq
import GunYu.Proofs.Parser
import GunYu.Props.C01

namespace GunYu.Props.C09
open GunYu GunYu.Sender GunYu.Target

/-- the loop is between a consumed MULTI and its EXEC -/
def InsideTxn (s : SState) : Prop :=
  s.inTxn = true ∧ s.needFlush = false ∧ (s.txn = .begin_ ∨ s.txn = .in_)

/-- **Nothing is sent while inside a source transaction**: no tick of any kind,
    no size or byte limit, no keep-alive and no command other than the closing
    EXEC makes the loop put anything on the wire (hence no checkpoint either),
    and the loop stays inside the transaction. -/
theorem no_flush_inside_txn (c : SCfg) (hc : c.txnMode = true) (s : SState) (hs : InsideTxn s)
    (ev : Ev) (hev : ∀ it, ev = .item it → it.cmd ≠ bExec) :
    (step c s ev).2 = [] ∧ InsideTxn (step c s ev).1 := by
  obtain ⟨hin, hnf, htx⟩ := hs
  cases ev with
  | item it =>
    have hne := hev it rfl
    simp only [step]
    split
    · exact ⟨rfl, hin, hnf, htx⟩
    · have hst : txnStatus it.cmd s.txn = (Txn.in_, false) := by
        have hcl : cmdClass it.cmd ≠ some Txn.commit := by
          unfold cmdClass
          by_cases h1 : it.cmd = bSelect
          · simp [h1]
          · by_cases h2 : it.cmd = bMulti
            · have : bMulti ≠ bSelect := by decide
              simp [h2, this]
            · simp [h1, h2, hne]
        rcases htx with h | h <;> simp [txnStatus, h, hcl]
      unfold stepItem
      simp only [hc, ↓reduceIte, hst]
      unfold stepItemTxn preFlush absorb
      simp only [Bool.false_eq_true, ↓reduceIte, ne_eq, reduceCtorEq, not_false_eq_true, and_self]
      rw [tail_quiet _ _ _ _ _ (by simpa [enqueue] using hin) (by simp [enqueue])]
      exact ⟨rfl, by simpa [enqueue] using hin, by simp [enqueue], Or.inr (by simp [enqueue])⟩
  | batchTick =>
    simp only [step, hin, hnf, Bool.not_true, Bool.and_false, Bool.false_and, Bool.false_eq_true, ↓reduceIte]
    rw [tail_quiet _ _ _ _ _ hin hnf]; exact ⟨rfl, hin, hnf, htx⟩
  | keepaliveTick =>
    simp only [step, hin, Bool.not_true, Bool.false_and, Bool.false_eq_true, ↓reduceIte]
    rw [tail_quiet _ _ _ _ _ hin hnf]; exact ⟨rfl, hin, hnf, htx⟩
  | cpTick =>
    simp only [step, hin, Bool.not_true, Bool.false_and, Bool.false_eq_true, ↓reduceIte]
    rw [tail_quiet _ _ _ _ _ hin hnf]; exact ⟨rfl, hin, hnf, htx⟩
  | done =>
    simp only [step, hin, Bool.not_true, Bool.false_and, Bool.false_eq_true, ↓reduceIte]
    rw [tail_quiet _ _ _ _ _ hin hnf]; exact ⟨rfl, hin, hnf, htx⟩

/-- the same over any stretch of events without EXEC -/
theorem no_flush_inside_txn_run (c : SCfg) (hc : c.txnMode = true) (s : SState) (hs : InsideTxn s)
    (evs : List Ev) (hev : ∀ ev ∈ evs, ∀ it, ev = .item it → it.cmd ≠ bExec) :
    (run c s evs).2 = [] ∧ InsideTxn (run c s evs).1 := by
  induction evs generalizing s with
  | nil => exact ⟨rfl, hs⟩
  | cons ev rest ih =>
    obtain ⟨h1, h2⟩ := no_flush_inside_txn c hc s hs ev (hev ev (List.mem_cons_self ..))
    simp only [run]
    split
    · exact ⟨h1, h2⟩
    · obtain ⟨h3, h4⟩ := ih _ h2 (fun e he => hev e (List.mem_cons_of_mem _ he))
      exact ⟨by rw [h1, h3]; rfl, h4⟩

theorem stepItem_txn_eq (c : SCfg) (hc : c.txnMode = true) (s : SState) (it : Item) (prev : Int)
    (t : Txn) (nf : Bool) (hst : txnStatus it.cmd s.txn = (t, nf)) :
    stepItem c s it prev = stepItemTxn c { s with txn := t, needFlush := nf } t nf it prev := by
  unfold stepItem
  simp only [hc, ↓reduceIte, hst]

/-- **MULTI opens a transaction with an empty queue**: whatever was pending is
    flushed first — with the position BEFORE the MULTI (`s.lastOffset`), never
    the MULTI's own end offset — and the loop is inside the transaction. -/
theorem multi_opens (c : SCfg) (hc : c.txnMode = true) (s : SState)
    (htx : s.txn = .no ∨ s.txn = .barrier ∨ s.txn = .commit) (it : Item) (hm : it.cmd = bMulti) :
    InsideTxn (step c s (.item it)).1 ∧ (step c s (.item it)).1.queue = [] ∧
    (∀ o ∈ cpOffsets (step c s (.item it)).2, o = s.lastOffset) := by
  have hpm : bMulti ≠ bPing := by decide
  have hst : txnStatus bMulti s.txn = (Txn.begin_, true) := by
    rcases htx with h | h | h <;> simp [txnStatus, h, cmdClass, bMulti, bSelect]
  have hst' : txnStatus it.cmd ({ s with lastOffset := it.offset } : SState).txn = (Txn.begin_, true) := by
    rw [hm]; exact hst
  simp only [step, hm, hpm, ↓reduceIte]
  rw [stepItem_txn_eq c hc _ it s.lastOffset _ _ hst']
  unfold stepItemTxn
  simp only
  generalize hs1 : ({ s with lastOffset := it.offset, txn := Txn.begin_, needFlush := true } : SState) = s1
  obtain ⟨hq, hnf, _, htxn, _⟩ := preFlush_forced c s1 .begin_ s.lastOffset
  generalize hpf : preFlush c s1 .begin_ true s.lastOffset = pf at hq hnf htxn
  have hab : absorb pf.1 .begin_ it = { pf.1 with inTxn := true } := by simp [absorb]
  have htq := tail_quiet c { pf.1 with inTxn := true } c.txnMode (c.resume && c.txnMode) pf.2 rfl hnf
  rw [hab, htq]
  refine ⟨⟨rfl, hnf, Or.inl ?_⟩, hq, ?_⟩
  · show pf.1.txn = .begin_
    rw [htxn, ← hs1]
  · intro o ho
    simp only at ho
    have h := (preFlush_cp c s1 .begin_ true s.lastOffset).2
    rw [hpf] at h
    rcases h with h | ⟨h, _⟩ | ⟨h, _⟩
    · rw [h] at ho; cases ho
    · rw [h] at ho; simpa using ho
    · -- would be the commit case: impossible, the status is `begin_`
      rw [← hpf] at h ho
      unfold preFlush at h ho
      simp only [↓reduceIte, reduceCtorEq] at h ho
      rcases (sendOnce_cp c s1 c.txnMode (c.resume && c.txnMode) s.lastOffset).2 with h0 | ⟨h1, _⟩
      · rw [h0] at ho; cases ho
      · rw [h1] at ho; simpa using ho

/-- the end-of-iteration step on an empty queue sends no data -/
theorem tail_on_empty (c : SCfg) (s : SState) (tb up : Bool) (out : List Batch)
    (hq : s.queue = []) (hin : s.inTxn = false) :
    ∃ extra, (tail c s tb up out).2 = out ++ extra ∧ dataOut extra = [] ∧
      (tail c s tb up out).1.queue = [] ∧ (tail c s tb up out).1.inTxn = false := by
  have hd : ∀ s' : SState, s'.queue = [] → ∀ tb up off,
      dataOut (optToList (sendOnce c s' tb up off).2) = [] := by
    intro s' hs' tb up off
    have h := (sendOnce_data c s' tb up off).1
    have hq0 : qd s' = [] := by simp [qd, hs']
    rw [hq0] at h
    exact (List.append_eq_nil_iff.mp h).1
  unfold tail
  simp only
  split
  · rw [if_pos rfl]
    exact ⟨_, rfl, hd { s with needFlush := true } hq _ _ _, sendOnce_queue_nil _ _ _ _ _, rfl⟩
  · split
    · exact ⟨_, rfl, hd s hq _ _ _, sendOnce_queue_nil _ _ _ _ _, rfl⟩
    · exact ⟨[], by simp, rfl, hq, hin⟩

/-- **EXEC sends the whole transaction as ONE MULTI/EXEC block** carrying every
    queued command of it and — when resumable — the checkpoint offset of the
    EXEC itself, all inside the same MULTI/EXEC; whatever else the iteration
    sends carries no data; afterwards the queue is empty and the loop is
    outside the transaction. -/
theorem exec_flushes_one_block (c : SCfg) (hc : c.txnMode = true) (s : SState) (hs : InsideTxn s)
    (it : Item) (he : it.cmd = bExec) (hq : s.queue ≠ []) :
    ∃ s1 extra, s1.queue = s.queue ∧
      (step c s (.item it)).2 =
        ([Req.multi] ++ s.queue.map (fun i => Req.cmd i.cmd i.args i.offset) ++
          cpPart c s1 (c.resume && decide (0 ≤ it.offset)) it.offset ++ [Req.exec]) :: extra ∧
      dataOut extra = [] ∧
      (step c s (.item it)).1.queue = [] ∧ (step c s (.item it)).1.inTxn = false := by
  obtain ⟨hin, hnf, htx⟩ := hs
  have hpe : bExec ≠ bPing := by decide
  have hst : txnStatus bExec s.txn = (Txn.commit, true) := by
    rcases htx with h | h <;> simp [txnStatus, h, cmdClass, bMulti, bSelect, bExec]
  have hst' : txnStatus it.cmd ({ s with lastOffset := it.offset } : SState).txn = (Txn.commit, true) := by
    rw [he]; exact hst
  simp only [step, he, hpe, ↓reduceIte]
  rw [stepItem_txn_eq c hc _ it s.lastOffset _ _ hst']
  unfold stepItemTxn
  simp only [hc, Bool.and_true]
  generalize hs1 : ({ s with lastOffset := it.offset, txn := Txn.commit, needFlush := true } : SState) = s1
  have hq1 : s1.queue = s.queue := by rw [← hs1]
  have hl1 : s1.lastOffset = it.offset := by rw [← hs1]
  have hne1 : s1.queue.isEmpty = false := by
    rw [hq1]; cases hqq : s.queue with
    | nil => exact absurd hqq hq
    | cons _ _ => rfl
  have hne2 : (sendReqs c s1 true (c.resume && decide (0 ≤ it.offset)) it.offset).isEmpty = false := by
    unfold sendReqs; simp
  have hso : sendOnce c s1 true c.resume it.offset =
      ({ s1 with queue := [], qbytes := 0,
                 cpInDbs := cpInAfter c s1 (c.resume && decide (0 ≤ it.offset)),
                 connDb := dbAfter s1.connDb s1.queue },
       some (sendReqs c s1 true (c.resume && decide (0 ≤ it.offset)) it.offset)) := by
    unfold sendOnce
    simp only [hne1, Bool.false_and, Bool.false_eq_true, ↓reduceIte, hne2]
  have hpf : preFlush c s1 .commit true s.lastOffset =
      ({ (sendOnce c s1 true c.resume it.offset).1 with needFlush := false, inTxn := false },
       optToList (sendOnce c s1 true c.resume it.offset).2) := by
    unfold preFlush; simp only [↓reduceIte, hl1, hc, Bool.and_true]
  rw [hpf, hso]
  simp only [optToList]
  have hab : ∀ x : SState, absorb x .commit it = x := by intro x; simp [absorb]
  rw [hab]
  have hbody : sendReqs c s1 true (c.resume && decide (0 ≤ it.offset)) it.offset =
      [Req.multi] ++ s.queue.map (fun i => Req.cmd i.cmd i.args i.offset) ++
        cpPart c s1 (c.resume && decide (0 ≤ it.offset)) it.offset ++ [Req.exec] := by
    unfold sendReqs; simp [hq1]
  obtain ⟨extra, hx1, hx2, hx3, hx4⟩ := tail_on_empty c
    { s1 with queue := [], qbytes := 0,
              cpInDbs := cpInAfter c s1 (c.resume && decide (0 ≤ it.offset)),
              connDb := dbAfter s1.connDb s1.queue, needFlush := false, inTxn := false }
    true c.resume [sendReqs c s1 true (c.resume && decide (0 ≤ it.offset)) it.offset] rfl rfl
  refine ⟨s1, extra, hq1, ?_, hx2, hx3, hx4⟩
  rw [hx1, hbody]
  rfl

/-! ### Target: a MULTI/EXEC block is all-or-nothing at every crash point -/

/-- every strict prefix of a block `MULTI body EXEC` leaves the data, the stored
    checkpoint and the selected DB untouched -/
theorem block_prefix_applies_nothing (body : List Req) (hb : ∀ r ∈ body, Plain r = true)
    (t : TState) (hq : t.queued = none) (k : Nat) (hk : k ≤ body.length) :
    (applyLog t (([Req.multi] ++ body ++ [Req.exec]).take (k + 1))).applied = t.applied ∧
    (applyLog t (([Req.multi] ++ body ++ [Req.exec]).take (k + 1))).cps = t.cps := by
  have htake : ([Req.multi] ++ body ++ [Req.exec]).take (k + 1) = [Req.multi] ++ body.take k := by
    simp only [List.cons_append, List.take_succ_cons, List.nil_append]
    rw [List.take_append_of_le_length hk]
  rw [htake]
  unfold applyLog
  rw [List.foldl_append]
  have h1 : [Req.multi].foldl applyReq t = { t with queued := some [] } := by simp [applyReq, hq]
  rw [h1]
  have h2 := applyLog_queue (body.take k) (fun r hr => hb r (List.mem_of_mem_take hr))
    { t with queued := some [] } [] rfl
  unfold applyLog at h2
  rw [h2]
  exact ⟨rfl, rfl⟩

/-- the complete block applies its whole body, in order -/
theorem block_complete_applies_all (body : List Req) (hb : ∀ r ∈ body, Plain r = true)
    (t : TState) (hq : t.queued = none) :
    applyLog t ([Req.multi] ++ body ++ [Req.exec]) = body.foldl execReq t :=
  applyLog_block body hb t hq

/-! Non-vacuity: a state inside a transaction; EXEC flushes one block -/
def exCfg : SCfg := { txnMode := true, resume := true, batchCount := 1, batchBytes := 1 }
def exS : SState :=
  { queue := [{ cmd := [115,101,116], args := [[97],[49]], offset := 1040, db := 0 },
              { cmd := [100,101,108], args := [[98]], offset := 1060, db := 0 }],
    txn := .in_, inTxn := true, needFlush := false, lastOffset := 1060 }
example : InsideTxn exS := ⟨rfl, rfl, Or.inr rfl⟩
example : (step exCfg exS .batchTick).2 = [] ∧ (step exCfg exS .keepaliveTick).2 = [] := by decide
example : (step exCfg exS (.item { cmd := bExec, args := [], offset := 1074, db := 0 })).2 =
    [[Req.multi, Req.cmd [115,101,116] [[97],[49]] 1040, Req.cmd [100,101,108] [[98]] 1060,
      Req.cpMeta, Req.cpOffset 1074, Req.exec]] := by decide

def NoDone (evs : List Ev) : Prop := ∀ e ∈ evs, e ≠ .done

theorem run_append (c : SCfg) (s : SState) (a b : List Ev) (hnd : NoDone a) :
    run c s (a ++ b) = ((run c (run c s a).1 b).1, (run c s a).2 ++ (run c (run c s a).1 b).2) := by
  induction a generalizing s with
  | nil => simp [run]
  | cons ev rest ih =>
    have hne : ev ≠ .done := hnd ev (List.mem_cons_self ..)
    have hrest : NoDone rest := fun e he => hnd e (List.mem_cons_of_mem _ he)
    simp only [List.cons_append, run, hne, ↓reduceIte]
    rw [ih _ hrest]
    simp [List.append_assoc]

theorem run_single (c : SCfg) (s : SState) (ev : Ev) : run c s [ev] = step c s ev := by
  simp only [run]
  split <;> simp

/-- **A source transaction is one target block, in every stream.** Take ANY
    events `pre` after which the source is outside a transaction, a `MULTI`, ANY
    body without `EXEC` (any number of commands, database switches, keep-alives,
    ticks of every kind in any interleaving), and the `EXEC`. In transactional
    mode, whatever the batch limits:
    * everything forwarded before the transaction is on the wire before it
      starts, nothing of the transaction is sent before its `EXEC`;
    * the `EXEC` sends ONE block `MULTI … EXEC` whose data commands are exactly
      the transaction's forwarded commands, in order, and which carries the
      checkpoint write for the `EXEC`'s offset when resumable;
    * nothing else sent in that iteration carries data. -/
theorem source_txn_is_one_block (c : SCfg) (hc : c.txnMode = true)
    (pre : List Ev) (m : Item) (body : List Ev) (e : Item)
    (hndp : NoDone pre) (hndb : NoDone body)
    (hpre : (run c initS pre).1.txn = .no ∨ (run c initS pre).1.txn = .barrier ∨
            (run c initS pre).1.txn = .commit)
    (hm : m.cmd = bMulti) (he : e.cmd = bExec)
    (hbody : ∀ ev ∈ body, ∀ it, ev = .item it → it.cmd ≠ bExec)
    (hne : fwd .begin_ body ≠ []) :
    ∃ outPre s1 block extra,
      (run c initS (pre ++ [Ev.item m] ++ body ++ [Ev.item e])).2 = outPre ++ block :: extra ∧
      dataOut outPre = fwd .no pre ∧
      block = [Req.multi] ++ s1.queue.map (fun i => Req.cmd i.cmd i.args i.offset) ++
                cpPart c s1 (c.resume && decide (0 ≤ e.offset)) e.offset ++ [Req.exec] ∧
      dataB block = fwd .begin_ body ∧
      dataOut extra = [] := by
  -- split the run
  have hnd1 : NoDone (pre ++ [Ev.item m]) := by
    intro x hx
    rcases List.mem_append.mp hx with h | h
    · exact hndp x h
    · simp at h; subst h; simp
  have hnd2 : NoDone (pre ++ [Ev.item m] ++ body) := by
    intro x hx
    rcases List.mem_append.mp hx with h | h
    · exact hnd1 x h
    · exact hndb x h
  rw [run_append c initS (pre ++ [Ev.item m] ++ body) [Ev.item e] hnd2,
    run_append c initS (pre ++ [Ev.item m]) body hnd1,
    run_append c initS pre [Ev.item m] hndp]
  simp only [run_single]
  generalize hs0 : (run c initS pre).1 = s0 at hpre
  -- MULTI
  obtain ⟨hin1, hq1, _⟩ := multi_opens c hc s0 hpre m hm
  generalize hsm : (step c s0 (Ev.item m)).1 = sm at hin1 hq1
  -- body: nothing sent
  obtain ⟨hout2, hin2⟩ := no_flush_inside_txn_run c hc sm hin1 body hbody
  generalize hsb : (run c sm body).1 = sb at hin2
  -- what is queued after the body: exactly the body's forwarded commands
  have hdata2 := run_data c sm body
  rw [hout2, hsb] at hdata2
  have hqd_sm : qd sm = [] := by simp [qd, hq1]
  have htxm : sm.txn = .begin_ := by
    have := (step_data c s0 (Ev.item m)).2
    rw [hsm] at this
    have hpm : bMulti ≠ bPing := by decide
    simp only [fwd1, hm, hpm, ↓reduceIte] at this
    rw [this]
    rcases hpre with h | h | h <;> simp [txnStatus, h, cmdClass, bMulti, bSelect]
  simp only [dataOut, List.flatMap_nil, List.nil_append, hqd_sm, htxm] at hdata2
  have hqne : sb.queue ≠ [] := by
    intro h
    have : qd sb = [] := by simp [qd, h]
    rw [this] at hdata2
    exact hne hdata2.symm
  -- EXEC
  obtain ⟨s1, extra, hs1q, hblk, hx, _, _⟩ := exec_flushes_one_block c hc sb hin2 e he hqne
  refine ⟨(run c initS pre).2 ++ (step c s0 (Ev.item m)).2, s1,
    [Req.multi] ++ s1.queue.map (fun i => Req.cmd i.cmd i.args i.offset) ++
      cpPart c s1 (c.resume && decide (0 ≤ e.offset)) e.offset ++ [Req.exec], extra, ?_, ?_, rfl, ?_, hx⟩
  · rw [hout2, hblk, hs1q]; simp [List.append_assoc]
  · -- everything before the transaction is on the wire
    have h1 := run_data c initS pre
    have h2 := (step_data c s0 (Ev.item m)).1
    rw [hs0] at h1
    rw [hsm, hqd_sm, List.append_nil] at h2
    have hpm : bMulti ≠ bPing := by decide
    have hfm : (fwd1 s0.txn (Ev.item m)).1 = [] := by
      simp only [fwd1, hm, hpm, ↓reduceIte]
      rcases hpre with h | h | h <;> simp [txnStatus, h, cmdClass, bMulti, bSelect, forwards]
    rw [hfm, List.append_nil] at h2
    have hi : qd initS = [] := by simp [qd, initS]
    have hit : initS.txn = .no := rfl
    rw [hi, List.nil_append, hit] at h1
    rw [dataOut_append, ← h1, h2]
  · rw [hs1q]
    have hmq : dataB [Req.multi] = [] := rfl
    have heq : dataB [Req.exec] = [] := rfl
    rw [dataB_append, dataB_append, dataB_append, dataB_cpPart, hmq, heq, dataB_cmds sb.queue,
      List.nil_append, List.append_nil, List.append_nil]
    exact hdata2

/-- the sender's transaction status follows the brackets of a non-nested schedule -/
theorem noNested_run (c : SCfg) (s : SState) (pre rest : List Ev) (hnd : NoDone pre)
    (h : C01.NoNested (inT s.txn) (pre ++ rest)) :
    C01.NoNested (inT (run c s pre).1.txn) rest := by
  induction pre generalizing s with
  | nil => simpa [run] using h
  | cons ev pre' ih =>
    have hne : ev ≠ .done := hnd ev (List.mem_cons_self ..)
    have hrest : NoDone pre' := fun e he => hnd e (List.mem_cons_of_mem _ he)
    simp only [run, hne, ↓reduceIte]
    apply ih _ hrest
    rw [(step_data c s ev).2]
    cases ev with
    | item it =>
      simp only [List.cons_append, C01.NoNested] at h
      simp only [fwd1]
      by_cases hp : it.cmd = bPing
      · have hpm : bPing ≠ bMulti := by decide
        have hpe : bPing ≠ bExec := by decide
        simp only [hp, ↓reduceIte, hpm, hpe] at h ⊢
        exact h
      · simp only [hp, ↓reduceIte]
        rw [inT_txnStatus]
        by_cases hm : it.cmd = bMulti
        · simp only [hm, ↓reduceIte] at h ⊢; exact h.2
        · simp only [hm, ↓reduceIte] at h ⊢
          by_cases he : it.cmd = bExec
          · simp only [he, ↓reduceIte] at h ⊢; exact h
          · simp only [he, ↓reduceIte] at h ⊢; exact h
    | batchTick => simpa [C01.NoNested, fwd1] using h
    | keepaliveTick => simpa [C01.NoNested, fwd1] using h
    | cpTick => simpa [C01.NoNested, fwd1] using h
    | done => exact absurd rfl hne

/-- **The same with a hypothesis on the schedule only**: if the brackets of the
    whole schedule are not nested (Redis never propagates a nested MULTI; for the
    parser's output this follows from the source stream: `C01.noNested_of_items`,
    `parseAll_noNested`), every source transaction that forwards a command is one
    target block. -/
theorem source_txn_is_one_block_src (c : SCfg) (hc : c.txnMode = true)
    (pre : List Ev) (m : Item) (body : List Ev) (e : Item)
    (hndp : NoDone pre) (hndb : NoDone body)
    (hnn : C01.NoNested false (pre ++ ([Ev.item m] ++ body ++ [Ev.item e])))
    (hm : m.cmd = bMulti) (he : e.cmd = bExec)
    (hbody : ∀ ev ∈ body, ∀ it, ev = .item it → it.cmd ≠ bExec)
    (hne : fwd .begin_ body ≠ []) :
    ∃ outPre s1 block extra,
      (run c initS (pre ++ [Ev.item m] ++ body ++ [Ev.item e])).2 = outPre ++ block :: extra ∧
      dataOut outPre = fwd .no pre ∧
      block = [Req.multi] ++ s1.queue.map (fun i => Req.cmd i.cmd i.args i.offset) ++
                cpPart c s1 (c.resume && decide (0 ≤ e.offset)) e.offset ++ [Req.exec] ∧
      dataB block = fwd .begin_ body ∧
      dataOut extra = [] := by
  have h1 := noNested_run c initS pre ([Ev.item m] ++ body ++ [Ev.item e]) hndp (by simpa [initS, inT] using hnn)
  simp only [List.singleton_append, List.cons_append, C01.NoNested, hm, ↓reduceIte] at h1
  have hout : inT (run c initS pre).1.txn = false := h1.1
  have hpre : (run c initS pre).1.txn = .no ∨ (run c initS pre).1.txn = .barrier ∨
      (run c initS pre).1.txn = .commit := by
    cases hx : (run c initS pre).1.txn <;> simp [hx, inT] at hout ⊢
  exact source_txn_is_one_block c hc pre m body e hndp hndb hpre hm he hbody hne

/-! Non-vacuity of `source_txn_is_one_block`: batch count 2 (smaller than the
    transaction), a batch tick and a keep-alive tick inside the transaction. -/
def wCfg : SCfg := { txnMode := true, resume := true, batchCount := 2, batchBytes := 1000 }
def wSet (k : UInt8) (off : Int) : Ev :=
  .item { cmd := [115,101,116], args := [[k],[118]], offset := off, db := 0 }
def wPre : List Ev := [wSet 97 30, .batchTick]
def wM : Item := { cmd := bMulti, args := [], offset := 45, db := 0 }
def wBody : List Ev := [wSet 98 70, .batchTick, wSet 99 95, .keepaliveTick, wSet 100 120]
def wE : Item := { cmd := bExec, args := [], offset := 134, db := 0 }
example : (run wCfg initS wPre).1.txn = .no := by decide +kernel
example : fwd .begin_ wBody = [([115,101,116], [[98],[118]]), ([115,101,116], [[99],[118]]),
    ([115,101,116], [[100],[118]])] := by decide +kernel
example : (run wCfg initS (wPre ++ [Ev.item wM] ++ wBody ++ [Ev.item wE])).2.map (·.length) = [5, 3, 6] := by decide +kernel

end GunYu.Props.C09
