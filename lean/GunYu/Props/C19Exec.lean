/-
  C19 — the composition theorems of Props/C19.lean (`segments_*`) WITHOUT the assumptions on
  the events: Model/ClusterExec.lean is an operational model of the cluster client's batch
  execution and of the sender's retry / restart around it (per-node queues in any interleaving,
  a node part cut at any point, MOVED/ASK followed when the reply is read, the position batch,
  retry of the unacknowledged queue, restart at any moment). Every run of it is a run of the
  segment automaton: what Model/ClusterSegments.lean takes as guards (AppOK, Complete) and what
  Props/C19.lean takes as hypotheses (`Disciplined`, `PrefixRun`) is PROVED here of every run.

  Hypotheses left: on the cluster only — `ClusterExec.QuietRun` (a node that refused a command of
  a key does not execute a later command of that key of the same queue while the refused one is
  unexecuted: no ping-pong of a slot inside one pipeline; shown necessary below). That a node
  processes its queue in order (`Fifo`), that one key sits in one node queue of a batch
  (`RouteOK`, batch.go pinBatchRoute) and that Exec returns nil only after a good reply to every
  command (`ack`) are the guards of the operational model: they are what the tie checks on the
  code by trace membership.

  Quantifier: every stream length, every keying `grp`, every event list = every batch size, every
  slot map per attempt, every interleaving of the node queues, redirects of any command at any
  time, every cut point, any number of retries and restarts.
-/
import GunYu.Props.C19
import GunYu.Proofs.ClusterExec
import GunYu.Model.ClusterSender

namespace GunYu.Props.C19
open GunYu GunYu.ClusterSegments

/-- REFINEMENT: the segment events closed by a run of the operational model are a run of the
    segment automaton (every guard AppOK / Complete holds) ending in the model's own target and
    sender state; every cut event is a per-key prefix cut (`PrefixRun`); with the current sender
    (`split`: position batch only after the data batch was acknowledged, 4140441 / 5c65a57) no cut
    event stores a position (`Disciplined`) -/
theorem exec_refines_segments (n : Nat) (grp : Nat → Nat) (split : Bool) (xevs : List ClusterExec.XEv)
    (s : ClusterExec.XSt) (o : List ClusterSegments.Ev)
    (h : ClusterExec.run n grp split {} xevs = some (s, o))
    (hq : ClusterExec.QuietRun n grp split {} xevs) :
    ClusterSegments.run n grp {} o = some s.base ∧ PrefixRun n grp {} o ∧
    (split = true → Disciplined o) := by
  obtain ⟨a1, _, a3, a4⟩ := ClusterExec.run_refines n grp split xevs {} s o
    (ClusterExec.XInv_init n grp split) hq h
  exact ⟨a1, a3, a4⟩

/-- the blocking discipline is a THEOREM about the current sender, not a hypothesis -/
theorem exec_blocking_disciplined (n : Nat) (grp : Nat → Nat) (xevs : List ClusterExec.XEv)
    (s : ClusterExec.XSt) (o : List ClusterSegments.Ev)
    (h : ClusterExec.run n grp true {} xevs = some (s, o))
    (hq : ClusterExec.QuietRun n grp true {} xevs) : Disciplined o :=
  (exec_refines_segments n grp true xevs s o h hq).2.2 rfl

/-- at every moment of every run, whatever the interleaving and wherever the node parts are cut:
    what the open attempt has executed is, per key, a PREFIX of the key's part of the queue in
    source order, nothing twice (the fault model `PrefixCut`, derived) -/
theorem exec_cut_is_prefix (n : Nat) (grp : Nat → Nat) (split : Bool) (xevs : List ClusterExec.XEv)
    (s : ClusterExec.XSt) (o : List ClusterSegments.Ev)
    (h : ClusterExec.run n grp split {} xevs = some (s, o))
    (hq : ClusterExec.QuietRun n grp split {} xevs) (a : ClusterExec.Att) (ha : s.att = some a) :
    AppOK s.base.cur a.q a.app ∧ PrefixCut grp s.base.cur a.q a.app := by
  obtain ⟨_, a2, _, _⟩ := ClusterExec.run_refines n grp split xevs {} s o
    (ClusterExec.XInv_init n grp split) hq h
  exact ⟨ClusterExec.AInv_appOK n grp split (a2 a ha), ClusterExec.AInv_prefixCut n grp split (a2 a ha)⟩

/-- when Exec has returned nil every command of the queue has executed, per key completely and in
    source order (`Complete`, derived) -/
theorem exec_ack_complete (n : Nat) (grp : Nat → Nat) (split : Bool) (xevs : List ClusterExec.XEv)
    (s : ClusterExec.XSt) (o : List ClusterSegments.Ev)
    (h : ClusterExec.run n grp split {} xevs = some (s, o))
    (hq : ClusterExec.QuietRun n grp split {} xevs) (a : ClusterExec.Att) (ha : s.att = some a)
    (hk : a.acked = true) : Complete grp s.base.cur a.q a.app := by
  obtain ⟨_, a2, _, _⟩ := ClusterExec.run_refines n grp split xevs {} s o
    (ClusterExec.XInv_init n grp split) hq h
  exact ClusterExec.AInv_complete n grp split (a2 a ha)
    (ClusterExec.AInv_acked_allDone n grp split (a2 a ha) hk)

/-- the target's REAL per-key log — every execution of every attempt of every segment, the open
    attempt included — never skips: after a command of a key comes an earlier-or-equal one (a retry /
    restart jumps back) or the key's next command. Hypothesis: the cluster's `QuietRun` only. It does
    NOT bound the final value (the log may end on a replayed lower command): that is
    `exec_effective_prefix`. -/
theorem exec_never_skip (n : Nat) (grp : Nat → Nat) (xevs : List ClusterExec.XEv)
    (s : ClusterExec.XSt) (o : List ClusterSegments.Ev)
    (h : ClusterExec.run n grp true {} xevs = some (s, o))
    (hq : ClusterExec.QuietRun n grp true {} xevs) (g : Nat) :
    Adj (NoSkipRel grp g) (projG grp g s.tlog) := by
  obtain ⟨o2, t, h1, h2, _, h4, h5⟩ := ClusterExec.run_refines_real n grp true xevs s o hq h
  rw [← h2]
  exact segments_never_skip n grp (o ++ o2) t h1 (h5 rfl) h4 g

/-- the SET of executed commands is per key downward closed at every moment -/
theorem exec_downward_closed (n : Nat) (grp : Nat → Nat) (xevs : List ClusterExec.XEv)
    (s : ClusterExec.XSt) (o : List ClusterSegments.Ev)
    (h : ClusterExec.run n grp true {} xevs = some (s, o))
    (hq : ClusterExec.QuietRun n grp true {} xevs) : DownClosed grp s.tlog := by
  obtain ⟨o2, t, h1, h2, _, h4, h5⟩ := ClusterExec.run_refines_real n grp true xevs s o hq h
  rw [← h2]
  exact segments_executed_downward_closed n grp (o ++ o2) t h1 (h5 rfl) h4

/-- the position stored on the target — at every moment, also while its own reply is under way —
    covers executed commands only: a restart never resumes behind an unexecuted command -/
theorem exec_stored_position_covered (n : Nat) (grp : Nat → Nat) (xevs : List ClusterExec.XEv)
    (s : ClusterExec.XSt) (o : List ClusterSegments.Ev)
    (h : ClusterExec.run n grp true {} xevs = some (s, o))
    (hq : ClusterExec.QuietRun n grp true {} xevs) : ∀ i, i < s.tstored → i ∈ s.tlog := by
  obtain ⟨o2, t, h1, h2, h3, _, h5⟩ := ClusterExec.run_refines_real n grp true xevs s o hq h
  rw [← h2, ← h3]
  exact stored_position_covered_blocking n grp (o ++ o2) t (h5 rfl) h1

/-- the FINAL VALUE: the target's effective stream (`keepLast`: for every command its last execution —
    what an overwriting command leaves behind) below the stored position is, per key, exactly the
    specification prefix in source order. `exec_never_skip` alone does not give this (a log may END on
    a replayed lower command: `[0,1,2,0]` never skips); this does: below the stored position — which no
    restart sends again — no older command takes effect after a newer one of its key. Like every
    `keepLast` statement it speaks of the last execution, not of repetitions of APPEND-style commands. -/
theorem exec_effective_prefix (n : Nat) (grp : Nat → Nat) (xevs : List ClusterExec.XEv)
    (s : ClusterExec.XSt) (o : List ClusterSegments.Ev)
    (h : ClusterExec.run n grp true {} xevs = some (s, o))
    (hq : ClusterExec.QuietRun n grp true {} xevs) (g : Nat) :
    effBelow grp s.tlog s.tstored g = specBelow grp s.tstored g := by
  obtain ⟨o2, t, h1, h2, h3, _, h5⟩ := ClusterExec.run_refines_real n grp true xevs s o hq h
  have hi := SInv_run n grp _ _ t (SInv_init n grp) (h5 rfl) h1
  rw [← h2, ← h3]
  exact effBelow_mono grp t.log t.cur t.stored g hi.le1 (hi.eff g)

/-- the same statement for ANY sender (the position may ride with the data batch) -/
def exec_stored_position_covered_stmt : Prop :=
  ∀ (n : Nat) (grp : Nat → Nat) (split : Bool) (xevs : List ClusterExec.XEv) (s : ClusterExec.XSt)
    (o : List ClusterSegments.Ev), ClusterExec.run n grp split {} xevs = some (s, o) →
    ClusterExec.QuietRun n grp split {} xevs → ∀ i, i < s.tstored → i ∈ s.tlog

/-! ### non-vacuity -/

/-- printable form of a segment event -/
def showEv : ClusterSegments.Ev → List Nat
  | .start => [0]
  | .batch q (.ok app st) => 1 :: q :: st.toNat :: app      -- acknowledged [.., q), stores?, executions
  | .batch q (.cut app st) => 2 :: q :: st.toNat :: app     -- cut

open ClusterExec in
/-- two keys (even / odd positions) on two node queues. First attempt: queue 1 refuses its commands
    (slot moved, redirects not followed), queue 0 executes: Exec fails with a redirect error; the
    sender retries the whole queue: command 2 is refused and followed when its reply is read, Exec
    returns nil, the position goes in a batch of its own, the queue is cleared; the run ends. -/
def xevsA : List XEv := [
  .begin 4 (· % 2) false,
  .nodeExec 0, .nodeRedirect 1, .nodeExec 2, .nodeRedirect 3, .fail .redirect,
  .begin 4 (· % 2) false,
  .nodeExec 0, .nodeExec 1, .nodeRedirect 2, .nodeExec 3, .clientOk 0, .chaseExec 2, .clientOk 1,
  .clientOk 3, .ack, .posSend, .posExec, .done,
  .restart]

example : (ClusterExec.run 4 (· % 2) true {} xevsA).map
    (fun r => (r.1.tlog, r.1.tstored, r.2.map showEv)) =
    some ([0, 2, 0, 1, 3, 2], 4, [[2, 4, 0, 0, 2], [1, 4, 1, 0, 1, 3, 2], [0]]) := by
  decide
example : ClusterExec.QuietRun 4 (· % 2) true {} xevsA :=
  ClusterExec.quietRun_of_B _ _ _ _ _ (by decide)

open ClusterExec in
/-- in the middle of the second attempt (crash now): the open attempt's executions count -/
example : (ClusterExec.run 4 (· % 2) true {} (xevsA.take 10)).map (fun r => (r.1.tlog, r.1.tstored)) =
    some ([0, 2, 0, 1], 0) := by decide

/-- instances of the hypotheses of `exec_cut_is_prefix` (an open attempt in the middle of its
    executions) and `exec_ack_complete` (an open, acknowledged attempt) on that run -/
example : (ClusterExec.run 4 (· % 2) true {} (xevsA.take 10)).bind
    (fun r => r.1.att.map (fun a => (a.app, a.redir, a.q, a.acked))) = some ([0, 1], [2], 4, false) := by decide
example : (ClusterExec.run 4 (· % 2) true {} (xevsA.take 16)).bind
    (fun r => r.1.att.map (fun a => (a.app, a.q, a.acked))) = some ([0, 1, 3, 2], 4, true) := by decide
example : ClusterExec.QuietRun 4 (· % 2) true {} (xevsA.take 16) :=
  ClusterExec.quietRun_of_B _ _ _ _ _ (by decide)

open ClusterExec in
/-- the position write is refused by its node (the checkpoint key's slot has moved) and followed -/
def xevsPos : List XEv := [
  .begin 2 (fun _ => 0) false, .nodeExec 0, .nodeExec 1, .clientOk 0, .clientOk 1, .ack,
  .posSend, .posRedirect, .posChaseExec, .done, .restart]

example : (ClusterExec.run 2 (fun _ => 0) true {} xevsPos).map (fun r => (r.1.tlog, r.1.tstored, r.2.map showEv)) =
    some ([0, 1], 2, [[1, 2, 1, 0, 1], [0]]) := by decide

open ClusterExec in
/-- … and the reply of the FOLLOWED position write is lost: an ordinary error (d698491), the run ends;
    the write is applied all the same: the closed event is an acknowledged batch that stores — the next
    run starts behind it and re-sends nothing. -/
def xevsPosLost : List XEv := [
  .begin 2 (fun _ => 0) false, .nodeExec 0, .nodeExec 1, .clientOk 0, .clientOk 1, .ack,
  .posSend, .posRedirect, .fail .other, .posChaseExec, .restart]

example : (ClusterExec.run 2 (fun _ => 0) true {} xevsPosLost).map (fun r => (r.1.tlog, r.1.tstored, r.2.map showEv)) =
    some ([0, 1], 2, [[1, 2, 1, 0, 1], [0]]) := by decide
open ClusterExec in
/-- what the client did before d698491 — report that lost reply as a REDIRECT error, on which the
    plain sender re-sends the queue below the position just stored — is not a run: a redirect error
    means a refused command that was not delivered elsewhere -/
example : (ClusterExec.run 2 (fun _ => 0) true {} [
    .begin 2 (fun _ => 0) false, .nodeExec 0, .nodeExec 1, .clientOk 0, .clientOk 1, .ack,
    .posSend, .posRedirect, .posChaseExec, .fail .redirect]).isNone := by decide
open ClusterExec in
example : (ClusterExec.run 1 (fun _ => 0) true {} [
    .begin 1 (fun _ => 0) false, .nodeRedirect 0, .chaseExec 0, .fail .redirect]).isNone := by decide

open ClusterExec in
/-- a Put refused with CROSSSLOT: Exec returns that error before anything is sent, the plain sender
    tries again (nothing is sent again), then the run ends -/
example : (ClusterExec.run 2 (fun _ => 0) true {} [
    .begin 2 (fun _ => 0) false, .fail .crossslot, .begin 2 (fun _ => 0) false, .fail .crossslot, .restart]).map
    (fun r => (r.1.tlog, r.2.map showEv)) = some ([], [[2, 2, 0], [2, 2, 0], [0]]) := by decide
open ClusterExec in
example : (ClusterExec.run 2 (fun _ => 0) true {} [
    .begin 2 (fun _ => 0) false, .nodeExec 0, .fail .crossslot]).isNone := by decide

open ClusterExec in
/-- the sender BEFORE 4140441 / 5c65a57 (`split = false`: the position rides with the data batch,
    what the pipelined modes still do — C19-F2): the checkpoint node applies the position while
    the data node refuses command 0 — the stored position covers a command that never executed.
    With the current sender `posSend` is not a step before `ack`. -/
def xevsUnsplit : List XEv := [.begin 2 (fun _ => 0) true, .posExec, .nodeRedirect 0, .fail .redirect]

example : (ClusterExec.run 2 (fun _ => 0) false {} xevsUnsplit).map (fun r => (r.1.tlog, r.1.tstored)) =
    some ([], 2) := by decide
open ClusterExec in
example : (ClusterExec.run 2 (fun _ => 0) true {} [.begin 2 (fun _ => 0) false, .posSend]).isNone := by decide
open ClusterExec in
example : (ClusterExec.run 2 (fun _ => 0) true {} xevsUnsplit).isNone := by decide

theorem exec_stored_position_covered_unsplit_false : ¬ exec_stored_position_covered_stmt := by
  intro h
  cases hr : ClusterExec.run 2 (fun _ => 0) false {} xevsUnsplit with
  | none => revert hr; decide
  | some r =>
    obtain ⟨s, o⟩ := r
    have h1 : s.tstored = 2 ∧ s.tlog = [] := by
      have : (ClusterExec.run 2 (fun _ => 0) false {} xevsUnsplit).map (fun r => (r.1.tlog, r.1.tstored)) =
          some ([], 2) := by decide
      rw [hr] at this
      simp only [Option.map_some, Option.some.injEq, Prod.mk.injEq] at this
      exact ⟨this.2, this.1⟩
    have h2 := h 2 (fun _ => 0) false xevsUnsplit s o hr
      (ClusterExec.quietRun_of_B _ _ _ _ _ (by decide)) 0 (by rw [h1.1]; decide)
    rw [h1.2] at h2
    exact absurd h2 List.not_mem_nil

open ClusterExec in
/-- `QuietRun` is needed: node 0 refuses command 0 and then executes command 1 of the same key
    (the slot came back inside the pipeline): the cut is not a prefix cut, the key's log skips -/
def xevsLoud : List XEv := [.begin 2 (fun _ => 0) false, .nodeRedirect 0, .nodeExec 1, .fail .redirect, .restart]

example : (ClusterExec.run 2 (fun _ => 0) true {} xevsLoud).map (fun r => r.2.map showEv) =
    some [[2, 2, 0, 1], [0]] ∧ ¬ PrefixCut (fun _ => 0) 0 2 [1] := by decide
example : ClusterExec.quietRunB 2 (fun _ => 0) true {} xevsLoud = false := by decide

open ClusterExec in
/-- guards of the model that ARE the client's obligations: Exec does not return nil before every
    reply was read; a redirect is followed only when the earlier replies of the queue were read; a
    non-redirect failure is never retried inside the segment -/
example : (ClusterExec.run 2 (fun _ => 0) true {} [.begin 2 (fun _ => 0) false, .nodeExec 0, .clientOk 0, .ack]).isNone := by
  decide
open ClusterExec in
example : (ClusterExec.run 2 (fun _ => 0) true {} [.begin 2 (fun _ => 0) false, .nodeExec 0, .nodeRedirect 1, .chaseExec 1]).isNone := by
  decide
open ClusterExec in
example : (ClusterExec.run 2 (fun _ => 0) true {}
    [.begin 2 (fun _ => 0) false, .fail .other, .begin 2 (fun _ => 0) false]).isNone := by decide

/-! ### transactional + PIPELINED sender and an error returned by Dispatch itself

    `sendFunc ⟨true, true⟩` dispatches the queue again after a non-redirect error of `sendFuncOnce`
    (Props/C19.lean: `sendFunc ⟨true,true⟩ [some .other, none] = (2, ok)`). No command reaches a node
    twice all the same: a transactional batch has at most ONE node batch (Put refuses a second node
    with CROSSSLOT), and a Dispatch that returns an error has queued a strict prefix of the node
    batches — of one node batch: nothing. Model: ClusterSender.put / dispatch / submitted. -/

open GunYu.ClusterSender in
theorem put_txn_one_node (s : PutSt) (h : s.nodes.length ≤ 1) (e : PutEv) :
    (put true s e).nodes.length ≤ 1 := by
  cases e with
  | refused => exact h
  | routed nd =>
    simp only [put]
    split
    · exact h
    · split
      · exact h
      · rename_i h1 h2
        simp only [true_and] at h2
        simp only [List.length_append, List.length_cons, List.length_nil]
        omega

open GunYu.ClusterSender in
/-- the sender's transactional path (Put("multi") first): whatever is put, the batch has at most
    one node batch -/
theorem txn_batch_one_node : ∀ (evs : List PutEv) (s : PutSt), s.nodes.length ≤ 1 →
    (puts true s evs).nodes.length ≤ 1 := by
  intro evs
  induction evs with
  | nil => intro s h; exact h
  | cons e es ih => intro s h; exact ih _ (put_txn_one_node s h e)

open GunYu.ClusterSender in
/-- a Dispatch that fails has queued a strict prefix of the node batches (or there is none: every Put
    was refused); when a Put was refused, nothing -/
theorem dispatch_error_prefix (s : PutSt) (f : Option Nat) (hf : (dispatch s f).2 = false) :
    ((dispatch s f).1.length < s.nodes.length ∨ s.nodes = []) ∧ (dispatch s f).1 <+: s.nodes ∧
    (s.err = true → (dispatch s f).1 = []) := by
  unfold dispatch at hf ⊢
  split
  · refine ⟨?_, List.nil_prefix, fun _ => rfl⟩
    cases hn : s.nodes with
    | nil => exact Or.inr rfl
    | cons a t => exact Or.inl (by simp)
  · rename_i he
    rw [if_neg he] at hf
    split
    · rename_i h; rw [if_pos h] at hf; exact nomatch hf
    · rename_i h
      rw [if_neg h] at hf
      have hpos : 0 < s.nodes.length := by
        cases hn : s.nodes with
        | nil => exact absurd hn h
        | cons a t => simp
      cases f with
      | none => exact nomatch hf
      | some k =>
        simp only at hf ⊢
        split
        · rename_i hk
          refine ⟨Or.inl ?_, List.take_prefix _ _, fun h2 => absurd h2 he⟩
          rw [List.length_take]; omega
        · rename_i hk; rw [if_neg hk] at hf; exact nomatch hf

open GunYu.ClusterSender in
/-- one node batch: a failed Dispatch submitted NOTHING -/
theorem dispatch_error_one_node_submits_nothing (s : PutSt) (h : s.nodes.length ≤ 1) (f : Option Nat)
    (hf : (dispatch s f).2 = false) : (dispatch s f).1 = [] := by
  have hp := dispatch_error_prefix s f hf
  rcases hp.1 with h1 | h1
  · exact List.eq_nil_of_length_eq_zero (by omega)
  · have hl := hp.2.1.length_le
    rw [h1] at hl
    exact List.eq_nil_of_length_eq_zero (by simpa using hl)

open GunYu.ClusterSender in
theorem dispatch_submits_le (s : PutSt) (f : Option Nat) : (dispatch s f).1.length ≤ s.nodes.length := by
  unfold dispatch
  split
  · simp
  · split
    · simp
    · cases f with
      | none => simp
      | some k =>
        simp only
        split
        · rw [List.length_take]; omega
        · simp

open GunYu.ClusterSender in
theorem sendFunc_cons_some (m : SMode) (e : SErr) (outs : List (Option SErr)) (r : Nat) :
    (sendFunc m (some e :: outs) r).1 = 1 ∨
    (sendFunc m (some e :: outs) r).1 = (sendFunc m outs (r + 1)).1 + 1 := by
  cases e <;> simp only [sendFunc] <;> (repeat' split) <;> simp

open GunYu.ClusterSender in
/-- NO DOUBLE EXECUTION through re-dispatch: over all attempts `sendFunc` makes on one queue — any
    mode, any error classes, Dispatch failing wherever — a batch of at most one node batch is handed
    to its node at most once. With `txn_batch_one_node`: every transactional batch. -/
theorem one_node_batch_submitted_once (m : SMode) (s : PutSt) (cs : Bool) (h : s.nodes.length ≤ 1) :
    ∀ (fs : List (Option Nat)) (r : Nat), (submitted m s cs fs r).length ≤ 1 := by
  intro fs
  induction fs with
  | nil => intro r; simp [submitted, sendFunc]
  | cons f rest ih =>
    intro r
    cases hd : (dispatch s f).2 with
    | true =>
      have h2 : (onceP s cs f).2 = none := by simp [onceP, hd]
      simp only [submitted, List.map_cons, h2, sendFunc, List.take_succ_cons, List.take_zero,
        List.flatten_cons]
      have := dispatch_submits_le s f
      simp only [List.map_nil, List.flatten_nil, List.append_nil]
      show (dispatch s f).1.length ≤ 1
      omega
    | false =>
      have h1 : (onceP s cs f).1 = [] := dispatch_error_one_node_submits_nothing s h f hd
      have h2 : ∃ e, (onceP s cs f).2 = some e := by simp [onceP, hd]
      obtain ⟨e, h2⟩ := h2
      have hr := ih (r + 1)
      simp only [submitted] at hr ⊢
      simp only [List.map_cons, h2]
      cases sendFunc_cons_some m e (rest.map (fun f => (onceP s cs f).2)) r with
      | inl h3 =>
        rw [h3]
        simp [h1]
      | inr h3 =>
        rw [h3]
        simp only [List.take_succ_cons, List.map_cons, h1, List.flatten_cons, List.nil_append]
        exact hr

open GunYu.ClusterSender in
/-- the transactional pipelined sender: Dispatch fails twice (node pipeline closed), then goes
    through — three attempts, the node batch is queued once -/
example : sendFunc ⟨true, true⟩ ([some 0, some 0, none].map (fun f => (onceP (puts true {} [.routed 2, .routed 2]) false f).2)) 0 = (3, .ok) ∧
    submitted ⟨true, true⟩ (puts true {} [.routed 2, .routed 2]) false [some 0, some 0, none] 0 = [2] := by decide
open GunYu.ClusterSender in
/-- a second node in a transactional batch: refused, the batch keeps one node batch and Dispatch
    returns the recorded error before submitting anything -/
example : puts true {} [.routed 2, .routed 1, .routed 2] = { nodes := [2], err := true } ∧
    dispatch (puts true {} [.routed 2, .routed 1, .routed 2]) none = ([], false) := by decide
open GunYu.ClusterSender in
/-- NOT so for a plain batch over two nodes: Dispatch fails at the second node batch, the first is
    already queued, the retry queues it again (a repeated part, which plain mode allows) -/
example : submitted ⟨false, true⟩ (puts false {} [.routed 0, .routed 1]) false [some 1, none] 0 = [0, 0, 1] := by decide

end GunYu.Props.C19
