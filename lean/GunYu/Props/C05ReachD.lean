/-
  C05, several run-id directories — the bounded-progress theorems of Props/C05Reach.lean
  for the CURRENT index of a store holding several directories (`DiskD`): the reader of
  the current id reaches its writer's end over any schedule, the other directories are
  not touched by the schedule.
-/
import GunYu.Props.C05Reach
import GunYu.Props.C05Dirs

namespace GunYu.Props.C05
open GunYu GunYu.Store

/-- a quiet operation of the schedule, issued on a store with several directories, is the
    same operation on the current index; no other directory changes -/
theorem diskd_quiet_step_is_cur_step (x : DiskD) (rid : Nat) (o : DOp) (hq : quiet rid o = true) :
    (x.step (.base o)).1 = { x with cur := (x.cur.step o).1 } := by
  cases o <;> first | rfl | (simp [quiet] at hq)

/-- **diskd_reader_lag_bounded.** `disk_reader_lag_bounded` in every state reachable with
    several run-id directories (switches to existing directories, deletes of foreign ids,
    `VerifyRunId`, restarts before): the reader of the current id obeys the counted bound
    over any schedule. -/
theorem diskd_reader_lag_bounded (l m : Nat) (ops : List XOp) (hwf : (DiskD.init l m).wf ops) (rid : Nat)
    (sch : List PMove) :
    let s := ((DiskD.init l m).run ops).cur
    ∀ r, Follows s rid r → s.schedOk rid sch →
      ∃ r', Follows (s.sched rid sch) rid r' ∧ r'.start = r.start ∧ r.pos ≤ r'.pos ∧
        (s.sched rid sch).endOff - r'.pos ≤ lagBound (s.endOff - r.pos) sch ∧
        r'.pos ≤ (s.sched rid sch).endOff ∧
        r'.out = ((s.sched rid sch).hist.drop (r'.start - (s.sched rid sch).hbase)).take (r'.pos - r'.start) := by
  intro s r hF hok
  obtain ⟨r', h1, h2, h3, h4, h5, _, _, h8⟩ := disk_reach_core (diskd_invariant l m ops hwf).cur rid sch r hF hok
  exact ⟨r', h1, h2, h3, h4, h5, h8⟩

/-- **diskd_reader_reaches_end.** … and with no append in the schedule and enough own moves
    it stands at the writer's end of the current id, having delivered everything. -/
theorem diskd_reader_reaches_end (l m : Nat) (ops : List XOp) (hwf : (DiskD.init l m).wf ops) (rid : Nat)
    (sch : List PMove) :
    let s := ((DiskD.init l m).run ops).cur
    ∀ r, Follows s rid r → s.schedOk rid sch → noAppend sch = true → s.endOff - r.pos ≤ ownMoves sch →
      ∃ r', Follows (s.sched rid sch) rid r' ∧ r'.start = r.start ∧
        r'.pos = (s.sched rid sch).endOff ∧
        r'.out = (s.sched rid sch).hist.drop (r'.start - (s.sched rid sch).hbase) := by
  intro s r hF hok hna hk
  exact disk_reach_end_core (diskd_invariant l m ops hwf).cur rid sch r hF hok hna hk

/-! ### non-vacuity: directory "a" parked by a restart, the reader follows the writer of "b" -/

def exReachDOps : List XOp :=
  [ .setRunId "a", .base (.newAofWriter 100), .base (.aofAppend [1,2,3]), .base .aofClose, .restart,
    .setRunId "b", .base (.newAofWriter 500), .base (.aofAppend [51,52,53,54,55,56,57,58,59]),
    .base (.aofAppend [60,61]), .base (.openReader 0 502 true) ]

example : (DiskD.init 24 10).wf exReachDOps := by decide
example : ((DiskD.init 24 10).run exReachDOps).dirs.map (·.1) = ["a"] := by decide
example : ((DiskD.init 24 10).run exReachDOps).cur.schedOk 0 [.other .gc, .followGc 4, .follow 100, .other .gc, .follow 100] := by
  decide
example : (findReader (((DiskD.init 24 10).run exReachDOps).cur.sched 0
      [.other .gc, .followGc 4, .follow 100, .other .gc, .follow 100]).readers 0).map (fun r => (r.pos, r.out)) =
    some (511, [53,54,55,56,57,58,59,60,61]) := by decide

end GunYu.Props.C05
