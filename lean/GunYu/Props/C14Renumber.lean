/-
  C14 — a numbering RESTART inside an execution: one theorem spanning two numberings of replay
  units over the same namespace (Model/FrontierRenumber.lean; where D25 / D26 lived).

  Property theorems only (helper lemmas: Proofs/FrontierScrub.lean, Proofs/FrontierRenumber.lean).

  Quantifiers: all numberings W₁, W₂ with the root of W₂ beyond every unit of W₁ (the snapshot of a
  full resynchronisation is taken after everything replayed before); all step lists of the
  split-queue system under W₁, then ANY list of delete requests applied to what it left (a complete
  purge by ResetStartPoint, one that stopped half-way, none at all — older versions, D25), then all
  step lists under W₂ (crashes inside the purge of the first starts included).
-/
import GunYu.Model.FrontierRenumber
import GunYu.Proofs.FrontierRenumber
import GunYu.Props.C14

namespace GunYu.Props.C14
open GunYu GunYu.Frontier

/-- Whatever a namespace stores — a frontier snapshot, a journal with or without gaps, index members,
    leftovers of a purge that stopped half-way, records nothing can read — if all of it ends before the
    offset of a root checkpoint the source still vouches for, a start returns THAT ROOT with sequence 0:
    bookkeeping of an older numbering is never resumed from. For ALL such namespaces (no invariant
    needed). -/
theorem restart_returns_root (ver : Bytes) (ns : NS) (ids : List Bytes) (root : Bytes × Int × Nat)
    (hroot : ns.root = some root) (hr1 : root.1 ≠ []) (hr2 : matchRun root.1 ids = true)
    (hst : StaleBelow root.2.1 ns) :
    (startFrontier ver ns ids).1 = .point root.2.2 root.1 root.2.1 0 ∧
    (∀ q ∈ (startFrontier ver ns ids).2, isDelete q = true) := by
  rw [stale_start ver ns ids root hroot hr1 hr2 hst]
  refine ⟨rfl, ?_⟩
  intro q hq
  obtain ⟨reqs, he, hform⟩ := restartFromRoot_form ns ids root
  rw [he] at hq
  rcases hform q hq with ⟨k, rfl⟩ | ⟨ks, rfl⟩ | rfl <;> rfl

/-- deletes never make anything newer: what an interrupted purge leaves is still older than the root -/
theorem stale_after_deletes (R : Int) (ns : NS) (dels : List Req) (hd : ∀ q ∈ dels, isDelete q = true)
    (hst : StaleBelow R ns) : StaleBelow R (applyAll ns dels) := by
  obtain ⟨a, b, _, _⟩ := applyAll_deletes dels hd ns
  exact ⟨fun f hf => hst.1 f (b f hf), fun j hj => hst.2 j (a j hj)⟩

/-- the invariant of the restart holds right after it, whatever the execution under the old numbering
    left and whatever part of it was deleted -/
theorem renumber_init_inv (W₁ W₂ : World) (hvis₂ : matchRun W₂.rid W₂.ids = true)
    (s : TSys) (hnew : ∀ i, (i = 0 ∨ i ∈ s.committed) → W₁.e i < W₂.e 0) (h : TInv W₁ s) (hu : UniqueKeys s.ns) (db : Nat)
    (dels : List Req) (hd : ∀ q ∈ dels, isDelete q = true) : RInv W₂ (resync W₂ db dels s) :=
  rinv_resync hvis₂ hnew h hu db dels hd

/-- every single step under the new numbering preserves it -/
theorem renumber_each_step_preserves (W : World) (hm : ∀ i j, i ≤ j → W.e i ≤ W.e j)
    (hvis : matchRun W.rid W.ids = true) (s : TSys) (h : RInv W s) (st : Step) :
    RInv W (tstep W s st) := (rinv_step hm hvis h st).1

/-- ONE THEOREM OVER BOTH NUMBERINGS. An execution under numbering W₁ (any steps), a restart of the
    numbering (the root of W₂ written over whatever W₁ left, minus any deletes), an execution under
    W₂ (any steps, then any more):
    * across the restart the resume offset does not decrease: what a start would resume from before
      lies before the new root, every start after it resumes at or after the new root;
    * within the new numbering neither the sequence number nor the offset a fresh start would resume
      from ever decreases;
    * the sequence number a start resumes after counts units of the NEW numbering only: every unit up
      to it is in `committed`, the ghost list that is EMPTY at the restart (conjunct 3 merely restates
      that part of the DEFINITION of `resync`: it is `rfl`; the content is the last conjunct - whatever
      the old numbering left in the namespace, no start ever counts it) — a snapshot or journal
      record of the old numbering is never combined with records of the new one (D25), a journal
      gap never blocks the start (D26: it resumes at the root). -/
theorem renumber_spans (W₁ W₂ : World)
    (hm₁ : ∀ i j, i ≤ j → W₁.e i ≤ W₁.e j) (hvis₁ : matchRun W₁.rid W₁.ids = true)
    (hm₂ : ∀ i j, i ≤ j → W₂.e i ≤ W₂.e j) (hvis₂ : matchRun W₂.rid W₂.ids = true)
    (s₀ : TSys) (h₀ : TInv W₁ s₀) (hu : UniqueKeys s₀.ns) (steps₁ : List Step)
    (hnew : ∀ i, (i = 0 ∨ i ∈ (trunSteps W₁ s₀ steps₁).committed) → W₁.e i < W₂.e 0)
    (db : Nat) (dels : List Req) (hd : ∀ q ∈ dels, isDelete q = true) (steps₂ more : List Step) :
    startOffOf W₁.ver (trunSteps W₁ s₀ steps₁).ns W₁.ids < W₂.e 0 ∧
    W₂.e 0 ≤ startOffOf W₂.ver (twoNumberings W₁ W₂ db dels s₀ steps₁ steps₂).ns W₂.ids ∧
    (resync W₂ db dels (trunSteps W₁ s₀ steps₁)).committed = [] ∧
    startSeqOf W₂.ver (twoNumberings W₁ W₂ db dels s₀ steps₁ steps₂).ns W₂.ids
      ≤ startSeqOf W₂.ver (twoNumberings W₁ W₂ db dels s₀ steps₁ (steps₂ ++ more)).ns W₂.ids ∧
    startOffOf W₂.ver (twoNumberings W₁ W₂ db dels s₀ steps₁ steps₂).ns W₂.ids
      ≤ startOffOf W₂.ver (twoNumberings W₁ W₂ db dels s₀ steps₁ (steps₂ ++ more)).ns W₂.ids ∧
    (∀ j, 0 < j → j ≤ startSeqOf W₂.ver (twoNumberings W₁ W₂ db dels s₀ steps₁ (steps₂ ++ more)).ns W₂.ids →
      j ∈ (twoNumberings W₁ W₂ db dels s₀ steps₁ (steps₂ ++ more)).committed) := by
  obtain ⟨h1, _⟩ := trunSteps_tinv hm₁ hvis₁ steps₁ h₀
  have hu1 := trunSteps_uniqueKeys W₁ steps₁ hu
  have hr0 := rinv_resync hvis₂ (s := trunSteps W₁ s₀ steps₁) hnew h1 hu1 db dels hd
  obtain ⟨hra, _⟩ := rinv_steps hm₂ hvis₂ steps₂ hr0
  obtain ⟨hrb, hle⟩ := rinv_steps hm₂ hvis₂ more hra
  have eb : twoNumberings W₁ W₂ db dels s₀ steps₁ (steps₂ ++ more) =
      trunSteps W₂ (twoNumberings W₁ W₂ db dels s₀ steps₁ steps₂) more := by
    unfold twoNumberings; rw [trunSteps_append]
  rw [eb]
  obtain ⟨oa, na, _⟩ := rinv_facts hm₂ hra
  obtain ⟨ob, _, cb⟩ := rinv_facts hm₂ hrb
  obtain ⟨root1, hroot1⟩ := h1.root
  refine ⟨?_, ?_, rfl, hle, ?_, cb⟩
  · have e := startOff_eq (ns := (trunSteps W₁ s₀ steps₁).ns) (consistent_of_sysInv hm₁ h1.hi) hroot1
    rw [e]
    apply hnew
    by_cases hz : startSeqOf W₁.ver (trunSteps W₁ s₀ steps₁).ns W₁.ids = 0
    · exact Or.inl hz
    · right
      have hn := startSeqOf_nonneg W₁.ver (trunSteps W₁ s₀ steps₁).ns W₁.ids
      cases hst : startFrontier W₁.ver (trunSteps W₁ s₀ steps₁).ns W₁.ids with
      | mk st reqs =>
        cases st with
        | empty => exact absurd (by simp only [startSeqOf, hst]) hz
        | point db' rid off seq =>
          have hseq : startSeqOf W₁.ver (trunSteps W₁ s₀ steps₁).ns W₁.ids = seq := by simp only [startSeqOf, hst]
          rw [hseq] at hz hn ⊢
          exact (start_sound h1.hi db' rid off seq reqs hst).1.2.2 seq (by omega) (Int.le_refl _)
  · show W₂.e 0 ≤ startOffOf W₂.ver (trunSteps W₂ (resync W₂ db dels (trunSteps W₁ s₀ steps₁)) steps₂).ns W₂.ids
    have : startOffOf W₂.ver (trunSteps W₂ (resync W₂ db dels (trunSteps W₁ s₀ steps₁)) steps₂).ns W₂.ids
        = W₂.e (startSeqOf W₂.ver (trunSteps W₂ (resync W₂ db dels (trunSteps W₁ s₀ steps₁)) steps₂).ns W₂.ids) := oa
    rw [this]; exact hm₂ _ _ na
  · have e1 : startOffOf W₂.ver (twoNumberings W₁ W₂ db dels s₀ steps₁ steps₂).ns W₂.ids
        = W₂.e (startSeqOf W₂.ver (twoNumberings W₁ W₂ db dels s₀ steps₁ steps₂).ns W₂.ids) := oa
    have e2 : startOffOf W₂.ver (trunSteps W₂ (twoNumberings W₁ W₂ db dels s₀ steps₁ steps₂) more).ns W₂.ids
        = W₂.e (startSeqOf W₂.ver (trunSteps W₂ (twoNumberings W₁ W₂ db dels s₀ steps₁ steps₂) more).ns W₂.ids) := ob
    rw [e1, e2]; exact hm₂ _ _ hle

/-- a fresh namespace has unique journal keys (it has none) -/
theorem fresh_unique (W : World) (db : Nat) : UniqueKeys ({ root := some (W.rid, W.e 0, db) } : NS) := by
  intro j hj; exact absurd hj (List.not_mem_nil)

/-! ### non-vacuity -/

/-- the numbering after a full resynchronisation at offset 5000 (the units of `exW` end at 1010, 1020, …) -/
def exW2 : World := { e := fun i => 5000 + 10 * i, rid := [114], ids := [[114], [112]], ver := [49] }

/-- what the run `exTSteps` under the old numbering leaves: snapshot at sequence 3, journal {2, 4, 5} -/
example : ((trunSteps exW exT0 exTSteps).ns.frontier.map (·.seq), (trunSteps exW exT0 exTSteps).ns.journal.map (·.kseq))
    = (some 3, [2, 5, 4]) := by decide

/-- the D25 situation: NOTHING was purged (`dels = []`), the new root 5000 is written over it. The first start
    returns the root with sequence 0 and queues the purge [DEL 2, DEL 4, DEL 5, ZREM, DEL frontier]; the
    process dies after one request; the next start purges the rest; new unit 4 commits (its predecessors are in
    flight) and the process dies: the stale snapshot (sequence 3) is gone, a start still resumes at the root (a
    journal gap: purged again); then units 1, 2 of the new numbering. -/
def exRSteps : List Step :=
  [.start, .apply, .crash, .start, .commit 4 1, .apply, .apply, .apply, .apply, .commit 4 1, .crash, .start,
   .apply, .apply, .apply, .commit 1 2, .commit 2 3, .crash]
example : (twoNumberings exW exW2 0 [] exT0 exTSteps (exRSteps.take 1)).rq
    = [.delRec 2, .delRec 4, .delRec 5, .zrem [2, 4, 5], .delFrontier] := by decide
example : (startFrontier exW2.ver (resync exW2 0 [] (trunSteps exW exT0 exTSteps)).ns exW2.ids).1 = .point 0 [114] 5000 0 :=
  (restart_returns_root exW2.ver (resync exW2 0 [] (trunSteps exW exT0 exTSteps)).ns exW2.ids ([114], 5000, 0) rfl
    (by decide) (by decide) ⟨by decide, by decide⟩).1
/-- the unit committed while the purge was outstanding (step 5) was refused, the one after it accepted -/
example : [5, 10].map (fun k => (twoNumberings exW exW2 0 [] exT0 exTSteps (exRSteps.take k)).committed) = [[], [4]] := by decide
example : [0, 1, 4, 9, 10, 15, 16, 17].map (fun k =>
      (startSeqOf exW2.ver (twoNumberings exW exW2 0 [] exT0 exTSteps (exRSteps.take k)).ns exW2.ids,
       startOffOf exW2.ver (twoNumberings exW exW2 0 [] exT0 exTSteps (exRSteps.take k)).ns exW2.ids))
    = [(0, 5000), (0, 5000), (0, 5000), (0, 5000), (0, 5000), (0, 5000), (1, 5010), (2, 5020)] := by decide
example : startOffOf exW.ver (trunSteps exW exT0 exTSteps).ns exW.ids < exW2.e 0 :=
  (renumber_spans exW exW2 (fun i j h => by simp only [exW]; omega) (by decide)
    (fun i j h => by simp only [exW2]; omega) (by decide)
    exT0 (traffic_init_inv exW 0) (fresh_unique exW 0) exTSteps
    (by intro i hi
        have hc : (trunSteps exW exT0 exTSteps).committed = [4, 5, 3, 1, 2] := by decide
        rw [hc] at hi
        simp only [List.mem_cons, List.not_mem_nil, or_false] at hi
        simp only [exW, exW2]; omega)
    0 [] (by intro q hq; exact absurd hq (List.not_mem_nil))
    exRSteps []).1

/-- the same with a purge that stopped HALF-WAY as `dels` (record 2 and its index member gone, records 4, 5 and
    the snapshot at sequence 3 left): the first start purges the rest, nothing of the old numbering is ever counted -/
def exDels : List Req := [.delRec 2, .zrem [2]]
example : (twoNumberings exW exW2 0 exDels exT0 exTSteps [.start]).rq
    = [.delRec 4, .delRec 5, .zrem [4, 5], .delFrontier] := by decide
example : ∀ j, 0 < j → j ≤ startSeqOf exW2.ver (twoNumberings exW exW2 0 exDels exT0 exTSteps ([.start] ++ exRSteps)).ns exW2.ids →
    j ∈ (twoNumberings exW exW2 0 exDels exT0 exTSteps ([.start] ++ exRSteps)).committed :=
  (renumber_spans exW exW2 (fun i j h => by simp only [exW]; omega) (by decide)
    (fun i j h => by simp only [exW2]; omega) (by decide)
    exT0 (traffic_init_inv exW 0) (fresh_unique exW 0) exTSteps
    (by intro i hi
        have hc : (trunSteps exW exT0 exTSteps).committed = [4, 5, 3, 1, 2] := by decide
        rw [hc] at hi
        simp only [List.mem_cons, List.not_mem_nil, or_false] at hi
        simp only [exW, exW2]; omega)
    0 exDels (by intro q hq; simp only [exDels, List.mem_cons, List.not_mem_nil, or_false] at hq
                 rcases hq with rfl | rfl <;> rfl)
    [.start] exRSteps).2.2.2.2.2

end GunYu.Props.C14
