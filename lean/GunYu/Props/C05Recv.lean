/-
  C05, memory backend — the snapshot offered for replay holds, and its readers
  deliver, exactly the bytes RECEIVED for that snapshot announcement, complete and
  in order (the memory counterpart of C08's `crash_snapshot_true`).

  `mReceived l m ops` (Model/StoreMemRecv.lean) is the ghost: the announcement
  `(left, size)` of the last `NewRdbWriter` of the operation list and the bytes of
  the chunks handed to the snapshot writer that `appendRdb` reported as written —
  computed from the operations' chunks and the count the append returns, never
  from the snapshot's segments. All theorems: ANY operation list, NO hypothesis.
-/
import GunYu.Model.StoreMemRecv
import GunYu.Proofs.StoreMemRecv

namespace GunYu.Props.C05
open GunYu GunYu.Store

/-- the ghost invariant after any operation list -/
theorem mem_recv_invariant (l m : Nat) (ops : List MOp) :
    RecvInv ((Mem.init l m).run ops) (mReceived l m ops) :=
  (RecvInv.init l m).run (MemInv.init l m) ops

/-- … kept by the driver's settling (the states the correspondence harness compares) -/
theorem mem_recv_invariant_settled (s : Mem) (g : Option MRecv) (hi : MemInv s) (h : RecvInv s g) :
    (s.settleG g).1 = s.settle ∧ RecvInv (s.settleG g).1 (s.settleG g).2 :=
  ⟨settleG_fst s g, h.settle hi⟩

/-- **mem_snapshot_holds_received.** After ANY operation list, a snapshot that is
    offered is the LAST announcement made (`left`, `size`) and holds exactly the
    bytes received for it, in order — nothing of an earlier announcement, nothing
    lost, nothing reordered. -/
theorem mem_snapshot_holds_received (l m : Nat) (ops : List MOp) :
    let s := (Mem.init l m).run ops
    ∀ rd, s.rdbOffered = some rd → mReceived l m ops = some ⟨rd.left, rd.size, mflat rd.segs⟩ := by
  intro s rd hro
  obtain ⟨hr, hrep⟩ := rdbOffered_some hro
  exact mem_recv_invariant l m ops rd hr hrep

/-- **mem_offered_snapshot_complete.** … and once its writer is gone it is COMPLETE:
    at least `size` bytes were received (all of them held). -/
theorem mem_offered_snapshot_complete (l m : Nat) (ops : List MOp) :
    let s := (Mem.init l m).run ops
    ∀ rd, s.rdbOffered = some rd → rd.writing = false →
      ∃ rc, mReceived l m ops = some rc ∧ rc.left = rd.left ∧ rc.size = rd.size ∧ rc.size ≤ rc.bytes.length := by
  intro s rd hro hw
  refine ⟨_, mem_snapshot_holds_received l m ops rd hro, rfl, rfl, ?_⟩
  have hfull : FullInv s := (FullInv.init l m).run ops
  obtain ⟨hcl, _, _⟩ := offered_complete_or_live s hfull.1 rd hro
  obtain ⟨_, _, _, hlen⟩ := snapshot_shape hfull rd hro
  rcases hcl with h | h
  · rw [hw] at h; cases h
  · show rd.size ≤ (mflat rd.segs).length
    omega

/-- **mem_snapshot_reader_delivers_received.** After ANY operation list, a copy loop
    replaying the offered snapshot has written to its pipe exactly the first `pos`
    bytes RECEIVED for that announcement, in order. -/
theorem mem_snapshot_reader_delivers_received (l m : Nat) (ops : List MOp) :
    let s := (Mem.init l m).run ops
    ∀ rd, s.rdbOffered = some rd →
      ∀ r ∈ s.readers, r.isAof = false → r.released = false → ∀ g ∈ rd.segs, g.sid = r.seg →
        ∃ rc, mReceived l m ops = some rc ∧ rc.left = rd.left ∧ rc.size = rd.size ∧
          r.pos ≤ rc.bytes.length ∧ r.out = rc.bytes.take r.pos := by
  intro s rd hro r hr ha hrel g hg hs
  have hfull : FullInv s := (FullInv.init l m).run ops
  obtain ⟨_, h2, h3⟩ := snapshot_reader_delivers hfull rd hro r hr ha hrel g hg hs
  refine ⟨_, mem_snapshot_holds_received l m ops rd hro, rfl, rfl, ?_, h3⟩
  -- pos ≤ g.right ≤ the bytes held
  have hflat : (mflat rd.segs).length = rd.written := (snapshot_shape hfull rd hro).2.2.2
  obtain ⟨hr', hrep⟩ := rdbOffered_some hro
  have hsn := hfull.2.snap rd hr' hrep
  have hso := hsn.segOk g hg
  have := hso.hi
  show r.pos ≤ (mflat rd.segs).length
  omega

/-- **the count is the operation's output.** A snapshot append that reports
    `.blocked n` was accepted for exactly its first `n` bytes; the rest waits in the
    writer (`pendR`) — it enters the record only when a retry appends it. -/
theorem mem_received_blocked_prefix (s : Mem) (chunk : Bytes) (n : Nat)
    (h : (s.step (.rdbAppend chunk)).2 = .blocked n) :
    s.rdbAccepted (.rdbAppend chunk) = chunk.take n ∧ (s.step (.rdbAppend chunk)).1.pendR = some (chunk.drop n) :=
  rdbAppend_accepted_blocked s chunk n h

/-- … and an append on a live writer that was not already blocked and does not report
    `.blocked` was accepted as a WHOLE (`.ok` / `.done`: the count is the chunk's length),
    after any operation list. -/
theorem mem_received_whole_chunk (l m : Nat) (ops : List MOp) (chunk : Bytes) :
    let s := (Mem.init l m).run ops
    s.pendR = none → (∃ r, s.rdb = some r ∧ r.writing = true) → (∀ n, (s.step (.rdbAppend chunk)).2 ≠ .blocked n) →
      s.rdbAccepted (.rdbAppend chunk) = chunk :=
  fun hp hl hnb => rdbAppend_accepted_whole _ chunk (run_inv _ ops (MemInv.init l m)) hp hl hnb

/-- only snapshot appends and retries are ever accepted bytes of -/
theorem mem_received_only_from_appends (s : Mem) (op : MOp) (h : s.rdbAccepted op ≠ []) :
    (∃ chunk, op = .rdbAppend chunk) ∨ op = .retryAppend := by
  cases op <;> first | exact Or.inl ⟨_, rfl⟩ | exact Or.inr rfl | exact absurd rfl h

/-! ### non-vacuity -/

/-- a snapshot received in two chunks across a rotation, replayed by a reader -/
def exRecvOps : List MOp :=
  [ .setRunId "id1", .newRdbWriter 500 6, .rdbAppend [7,8,9], .openReader 0 400, .startReader 0, .copyStep 0,
    .rdbAppend [10,11,12], .copyStep 0, .copyStep 0, .copyStep 0 ]

example : mReceived 4 0 exRecvOps = some ⟨500, 6, [7,8,9,10,11,12]⟩ := by decide
example : (((Mem.init 4 0).run (exRecvOps.take 2)).step (.rdbAppend [7,8,9])).2 = Out.ok ∧
    ((Mem.init 4 0).run (exRecvOps.take 2)).rdbAccepted (.rdbAppend [7,8,9]) = [7,8,9] := by decide
example : ((Mem.init 4 0).run exRecvOps).rdbOffered.map (fun rd => (rd.left, rd.size, rd.writing, mflat rd.segs)) =
    some (500, 6, false, [7,8,9,10,11,12]) := by decide
example : ((Mem.init 4 0).run exRecvOps).readers.map (fun r => (r.isAof, r.released, r.pos, r.out)) =
    [(false, false, 6, [7,8,9,10,11,12])] := by decide

/-- a second announcement replaces the first: the record starts again -/
example : mReceived 4 0 (exRecvOps ++ [.newRdbWriter 900 3, .rdbAppend [1, 2]]) = some ⟨900, 3, [1, 2]⟩ := by decide

/-- a snapshot append blocked on capacity (the snapshot's first segment is pinned by a
    reader that never ran): nothing is accepted, the chunk waits in the writer; after
    the reader is closed the retry collects that segment (the snapshot is then no
    longer offered) and appends the chunk, which enters the record only now -/
def exRecvBlocked : List MOp :=
  [ .setRunId "id1", .newRdbWriter 100 8, .rdbAppend [1,2,3,4], .openReader 0 50, .rdbAppend [5,6,7,8] ]

example : (((Mem.init 4 7).run (exRecvBlocked.take 4)).step (.rdbAppend [5,6,7,8])).2 = Out.blocked 0 := by decide
example : mReceived 4 7 exRecvBlocked = some ⟨100, 8, [1,2,3,4]⟩ ∧
    ((Mem.init 4 7).run exRecvBlocked).pendR = some [5,6,7,8] ∧
    ((Mem.init 4 7).run exRecvBlocked).getRdb = (100, 8) := by decide
example : mReceived 4 7 (exRecvBlocked ++ [.closeReader 0, .retryAppend]) = some ⟨100, 8, [1,2,3,4,5,6,7,8]⟩ ∧
    ((Mem.init 4 7).run (exRecvBlocked ++ [.closeReader 0, .retryAppend])).getRdb = (-1, -1) := by decide

end GunYu.Props.C05
