/-
  The REGENERATED definition of the cluster client's reply-length parser
  (pkg/redis/client/cluster/conn.go `parseLen`; lean/GunYu/Gen/FnParseLen.lean,
  translated from /repo's Go source on every run) against the decimal functions of
  Basic/Bytes.lean.

  NOT part of C12's check: the decoder C12 is about (pkg/redis/client/decoder.go
  decodeInt) parses lengths with the standard library's strconv.ParseInt on a line
  read through bufio - there is no repository function to translate there (the model
  `Resp.parseInt64` stays a trusted reading of strconv). `parseLen` is the OTHER
  RESP reader of the repository (replies of cluster nodes). What is proved:
  * a non-empty all-digit text of at most 18 digits parses to its decimal value, no error;
  * "-1" is the null length; any other text with a non-digit is an error (-1, non-nil);
  * (by evaluation) from 19 digits on the accumulation in a 64-bit `int` can wrap
    silently: 99999999999999999999 parses to 7766279631452241919 without an error.
-/
import GunYu.Basic.Bytes
import GunYu.Props.C11Gen
import GunYu.Gen.FnParseLen

namespace GunYu.Props.C12
open GunYu GunYu.Gen
open GunYu.Props.C11 (index_nat lt_len_iff addI_nat)

def decStep (acc : Nat) (b : UInt8) : Nat := acc * 10 + (b.toNat - 48)

theorem isDigit_iff (b : UInt8) : isDigit b = true ↔ ¬ (b < (48 : UInt8) ∨ b > (57 : UInt8)) := by
  unfold isDigit
  simp only [Bool.and_eq_true, decide_eq_true_eq, UInt8.le_iff_toNat_le, UInt8.lt_iff_toNat_lt, gt_iff_lt]
  have h1 : (48 : UInt8).toNat = 48 := rfl
  have h2 : (57 : UInt8).toNat = 57 := rfl
  omega

theorem gen_parseLen_loop_digits (p : Bytes) (hl : p.length ≤ 18) (hd : ∀ b ∈ p, isDigit b = true) :
    ∀ (fuel idx n : Nat), idx ≤ p.length → p.length - idx < fuel → n < 10 ^ idx →
      Fn.parseLen_loop1 p fuel (n : Int) (idx : Int) =
        some (GoSem.Ctl.next ((((p.drop idx).foldl decStep n : Nat)) : Int)) := by
  intro fuel
  induction fuel with
  | zero => intro idx n _ hf; omega
  | succ fuel ih =>
    intro idx n hi hf hn
    unfold Fn.parseLen_loop1
    by_cases hlt : idx < p.length
    · have h1 : ((idx : Int) < GoSem.len p) := (lt_len_iff p idx).2 hlt
      have hdig := hd p[idx] (List.getElem_mem hlt)
      have hnb := (isDigit_iff _).1 hdig
      have hge : 48 ≤ p[idx].toNat ∧ p[idx].toNat ≤ 57 := by
        unfold isDigit at hdig
        simp only [Bool.and_eq_true, decide_eq_true_eq, UInt8.le_iff_toNat_le] at hdig
        exact hdig
      have hpow : 10 ^ idx ≤ 10 ^ 17 := Nat.pow_le_pow_right (by omega) (by omega)
      have hp17 : (10 : Nat) ^ 17 = 100000000000000000 := by decide
      have hmul : GoSem.mulI (n : Int) (10 : Int) = ((n * 10 : Nat) : Int) := by
        unfold GoSem.mulI
        rw [GoSem.wrap64_eq] <;> omega
      have hsub : GoSem.u8toI (p[idx] - (48 : UInt8)) = ((p[idx].toNat - 48 : Nat) : Int) := by
        unfold GoSem.u8toI
        have : (p[idx] - (48 : UInt8)).toNat = p[idx].toNat - 48 := by
          rw [UInt8.toNat_sub_of_le _ _ (by rw [UInt8.le_iff_toNat_le]; exact hge.1)]
          rfl
        rw [this]
      have hadd : GoSem.addI ((n * 10 : Nat) : Int) ((p[idx].toNat - 48 : Nat) : Int) = ((decStep n p[idx] : Nat) : Int) := by
        unfold GoSem.addI decStep
        rw [GoSem.wrap64_eq] <;> omega
      simp only [h1, ↓reduceIte, index_nat p idx hlt, Option.bind_some, bind, hnb, hmul, hsub, hadd]
      rw [addI_nat idx (by omega), ih (idx + 1) _ (by omega) (by omega)
        (by unfold decStep; rw [Nat.pow_succ]; omega)]
      rw [List.drop_eq_getElem_cons hlt, List.foldl_cons]
    · have h1 : ¬ ((idx : Int) < GoSem.len p) := fun h => hlt ((lt_len_iff p idx).1 h)
      have h2 : p.drop idx = [] := List.drop_eq_nil_of_le (by omega)
      rw [if_neg h1, h2]
      rfl

/-- a non-digit anywhere at or after idx: an error, whatever was accumulated -/
theorem gen_parseLen_loop_bad (p : Bytes) (hl : p.length < 9223372036854775807) :
    ∀ (fuel idx : Nat) (n : Int), idx ≤ p.length → p.length - idx < fuel →
      (∃ b ∈ p.drop idx, isDigit b = false) →
      Fn.parseLen_loop1 p fuel n (idx : Int) = some (GoSem.Ctl.ret ((-1 : Int), true)) := by
  intro fuel
  induction fuel with
  | zero => intro idx n _ hf; omega
  | succ fuel ih =>
    intro idx n hi hf hbad
    unfold Fn.parseLen_loop1
    by_cases hlt : idx < p.length
    · have h1 : ((idx : Int) < GoSem.len p) := (lt_len_iff p idx).2 hlt
      simp only [h1, ↓reduceIte, index_nat p idx hlt, Option.bind_some, bind]
      by_cases hdig : isDigit p[idx] = true
      · have hnb := (isDigit_iff _).1 hdig
        rw [if_neg hnb, addI_nat idx (by omega)]
        apply ih (idx + 1) _ (by omega) (by omega)
        obtain ⟨b, hb, hbd⟩ := hbad
        rw [List.drop_eq_getElem_cons hlt] at hb
        rcases List.mem_cons.mp hb with hb | hb
        · subst hb; rw [hdig] at hbd; cases hbd
        · exact ⟨b, hb, hbd⟩
      · have hnb : p[idx] < (48 : UInt8) ∨ p[idx] > (57 : UInt8) := by
          by_cases h : p[idx] < (48 : UInt8) ∨ p[idx] > (57 : UInt8)
          · exact h
          · exact absurd ((isDigit_iff _).2 h) hdig
        rw [if_pos hnb]
        rfl
    · obtain ⟨b, hb, _⟩ := hbad
      rw [List.drop_eq_nil_of_le (by omega)] at hb
      cases hb

/-- decimal texts of up to 18 digits parse to their value (`decToNat?` of Basic/Bytes) -/
theorem gen_parseLen_digits (p : Bytes) (hne : p ≠ []) (hl : p.length ≤ 18) (hd : p.all isDigit = true) :
    ∃ n, decToNat? p = some n ∧ Fn.parseLen p = some ((n : Int), false) := by
  have hd' : ∀ b ∈ p, isDigit b = true := by simpa using hd
  refine ⟨p.foldl decStep 0, ?_, ?_⟩
  · unfold decToNat?
    have : p.isEmpty = false := by simpa using hne
    simp only [this, Bool.false_eq_true, ↓reduceIte, hd]
    rfl
  · unfold Fn.parseLen
    have hlen : ¬ (GoSem.len p = (0 : Int)) := by
      unfold GoSem.len
      have : p.length ≠ 0 := by simpa using hne
      omega
    rw [if_neg hlen]
    obtain ⟨b0, rest, rfl⟩ := List.exists_cons_of_ne_nil hne
    have h0 : GoSem.index (b0 :: rest) (0 : Int) = some b0 := by
      have := index_nat (b0 :: rest) 0 (by simp)
      simpa using this
    have hb0 : ¬ (b0 = (45 : UInt8)) := by
      intro h
      have := hd' b0 (by simp)
      rw [h] at this
      revert this; decide
    simp only [h0, Option.bind_some, bind, hb0, false_and, ↓reduceIte, pure]
    have hloop := gen_parseLen_loop_digits (b0 :: rest) hl hd' ((GoSem.len (b0 :: rest)).toNat + 1) 0 0
      (by omega) (by unfold GoSem.len; omega) (by simp)
    simp only [Int.ofNat_zero, List.drop_zero] at hloop
    simp [hloop]

/-- the null length -/
theorem gen_parseLen_null : Fn.parseLen [45, 49] = some ((-1 : Int), false) := by decide +kernel

/-- 20 nines: silent wrap-around of the 64-bit accumulator, no error -/
theorem gen_parseLen_wraps :
    Fn.parseLen [57,57,57,57,57,57,57,57,57,57,57,57,57,57,57,57,57,57,57,57] = some ((7766279631452241919 : Int), false) := by
  decide +kernel

example : Fn.parseLen [49, 50, 51] = some ((123 : Int), false) := by decide +kernel
example : Fn.parseLen [49, 120] = some ((-1 : Int), true) := by decide +kernel
example : Fn.parseLen [] = some ((-1 : Int), true) := by decide +kernel

end GunYu.Props.C12
