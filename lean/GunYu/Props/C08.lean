/-
  C08 — after an unclean stop the disk cache serves only bytes it truly holds.

  Property theorems only (model: Model/StoreFs.lean; helper lemmas:
  Proofs/StoreFs.lean, Proofs/StoreDisk.lean).

  Quantifier: the theorems about `reopen`/`serve` hold for EVERY directory image
  (`fs : FS` arbitrary — whatever instant the process died at, whatever is torn,
  whatever was removed), the truthfulness theorems for every image in which the
  stream files hold (prefixes of) the source's bytes, which every prefix of a
  truthful operation list with a torn last append preserves
  (`crash_images_truthful`) — and the writers' own scripts ARE truthful operation
  lists (`script_ops_true`), so `crash_bytes_true` is unconditional over scripts,
  crash instants and torn lengths. The alteration theorems hold for every alteration of a
  closed segment's data or recorded size.
-/
import GunYu.Model.StoreFs
import GunYu.Proofs.StoreFs
import GunYu.Proofs.StoreFsTrue
import GunYu.Proofs.StoreFsSnap
import GunYu.Proofs.StoreFsBridge

namespace GunYu.Props.C08
open GunYu GunYu.Store GunYu.StoreFs

/-- **reopen_range_contiguous.** Whatever the directory holds, the stream
    segments a fresh `Storer` indexes are consecutive: each starts where the
    previous one ends (so the reported range `[first.left, last.right]` is one
    contiguous range). -/
theorem reopen_range_contiguous (fs : FS) : Contig (reopen fs).segs :=
  reopen_contig fs

/-- every offset of the reported stream range lies in an indexed segment -/
theorem reopen_range_covered (fs : FS) (f r off : Nat)
    (hf : firstLeft (reopen fs).segs = some f) (hr : lastRight (reopen fs).segs = some r)
    (h1 : f ≤ off) (h2 : off ≤ r) :
    ∃ g ∈ (reopen fs).segs, g.left ≤ off ∧ off ≤ g.right :=
  contig_cover (reopen_contig fs) hf hr h1 h2

/-- **gap_segments_discarded.** The indexed segments are a suffix of the
    segments found (sorted by offset); if anything older was cut off, the segment
    just before the cut does not connect to the first kept one (there is a gap),
    and no snapshot is offered. -/
theorem gap_segments_discarded (fs : FS) :
    ∃ pre, sortSegs (scanSegs fs) = pre ++ (reopen fs).segs ∧
      (pre ≠ [] →
        (∃ a f, pre.getLast? = some a ∧ (reopen fs).segs.head? = some f ∧ a.right ≠ f.left) ∧
        (reopen fs).rdb = none) := by
  obtain ⟨pre, hp⟩ := contigRun_suffix (sortSegs (scanSegs fs))
  refine ⟨pre, hp, fun hne => ⟨contigRun_maximal _ pre hp hne, ?_⟩⟩
  have hlen : (contigRun (sortSegs (scanSegs fs))).length < (sortSegs (scanSegs fs)).length := by
    have h2 := congrArg List.length hp
    rw [List.length_append] at h2
    have : 0 < pre.length := List.length_pos_iff.mpr hne
    omega
  unfold reopen
  simp only [hlen, decide_true, if_true]

/-- a snapshot that is offered starts exactly where the first indexed segment
    starts (repaired `TruncateGap`, D15): no offset between the snapshot and the
    stream is missing -/
theorem reopen_snapshot_aligned (fs : FS) (l sz : Nat) (g : DSeg) (rest : List DSeg)
    (h : (reopen fs).rdb = some (l, sz)) (hs : (reopen fs).segs = g :: rest) : l = g.left := by
  have hs' : contigRun (sortSegs (scanSegs fs)) = g :: rest := hs
  unfold reopen at h
  simp only [hs'] at h
  generalize (if decide ((g :: rest).length < (sortSegs (scanSegs fs)).length) = true then none
      else scanRdb fs) = rdb1 at h
  cases rdb1 with
  | none => simp at h
  | some p =>
    obtain ⟨l', s'⟩ := p
    simp only [] at h
    split at h
    · simp at h; omega
    · simp at h

/-- **tmp_snapshot_not_offered.** A snapshot is offered only if the file with the
    committed name `<left>_<size>.rdb` is in the directory; a temporary file
    `<left>_<size>.rdb.tmp` is never read as a snapshot … -/
theorem tmp_snapshot_not_offered (fs : FS) (l sz : Nat) (h : (reopen fs).rdb = some (l, sz)) :
    (∃ content, (rdbName l sz, content) ∈ fs) ∧ ∀ l' s', parseRdbName (rdbTmpName l' s') = none := by
  obtain ⟨e, he, hp⟩ := scanRdb_some (reopen_rdb_some h)
  refine ⟨⟨e.2, ?_⟩, fun _ _ => rfl⟩
  rw [← parseRdbName_some hp]; exact he

/-- … and the writers give a file the committed name only in the step in which
    the last announced byte has been written. In the model `r.data` is what has
    been WRITTEN to the temporary file; that the code's own accounting (`pumped`,
    which `closeRdb` compares with the announced size) counts a chunk only after
    its write succeeded is tied by the harness: scripts stop the writer between
    the reception of a chunk and its write (`drdbx`) and make the write of a
    chunk fail (`drdbf`) — for the model both are a close without the chunk. -/
theorem snapshot_committed_only_when_complete (s : Disk) (op : DOp) (a b : FName)
    (h : FsOp.rename a b ∈ fsOps s op) :
    ∃ r chunk, op = .rdbAppend chunk ∧ s.rdb = some r ∧ r.writing = true ∧
      r.data.length + chunk.length = r.size ∧ a = rdbTmpName r.left r.size ∧ b = rdbName r.left r.size :=
  rename_only_when_complete s op a b h

/-- **crash_snapshot_complete.** For EVERY writers' script respecting the callers'
    protocol, at EVERY instant the process may die (`n` file operations issued, the
    last one — if an append — torn after `k` bytes): a snapshot that the re-opened
    cache offers is a committed file that holds exactly the announced number of
    bytes. (`snapshot_committed_only_when_complete` lifted from one step to
    scripts and crash images; unconditional.) -/
theorem crash_snapshot_complete (l m : Nat) (ops : List DOp) (hwf : (Disk.init l m).wf ops) (n k L S : Nat) :
    let img := crashImage [] (scriptOps (Disk.init l m) ops) n k
    (reopen img).rdb = some (L, S) → ∃ c, img.get (rdbName L S) = some c ∧ c.length = S := by
  intro img h
  obtain ⟨⟨content, hmem⟩, _⟩ := tmp_snapshot_not_offered img L S h
  obtain ⟨c', hget, hmem'⟩ := get_some_of_mem hmem
  exact ⟨c', hget, crashImage_rdbLenOk l m ops hwf n k _ hmem' L S rfl⟩

/-- **ghost_matches_index.** The ghost `received` — every byte handed to the snapshot
    writer since it was created, computed from the operation list alone — agrees with
    the index after every script: the snapshot the index holds is the one announced,
    with exactly the bytes received, and it is `writing` exactly while receiving. -/
theorem ghost_matches_index (l m : Nat) (ops : List DOp) (hwf : (Disk.init l m).wf ops) :
    let s := (Disk.init l m).run ops
    ∀ r, s.rdb = some r → received ops = some ⟨r.left, r.size, r.data, r.writing⟩ ∧ 0 < r.size := by
  intro s
  have key : ∀ (rest pre : List DOp) (s0 : Disk), s0.wf rest → GInv s0 (recvRun pre) →
      GInv (s0.run rest) (recvRun (pre ++ rest)) := by
    intro rest
    induction rest with
    | nil => intro pre s0 _ hg; simpa [Disk.run] using hg
    | cons op rest ih =>
      intro pre s0 hwf0 hg
      have := ih (pre ++ [op]) _ hwf0.2 (by rw [recvRun_snoc]; exact ginv_step s0 _ op hg hwf0.1)
      simpa [Disk.run] using this
  have := key ops [] _ hwf (GInv.init l m)
  simp only [List.nil_append] at this
  exact this.held

/-- **crash_snapshot_true.** For EVERY script of the writers respecting the callers'
    protocol, at EVERY instant the process may die (`n` file operations issued, the
    last one — if an append — torn after `k` bytes): a snapshot that the re-opened
    cache OFFERS is a committed file that holds exactly the bytes a snapshot writer
    of the script RECEIVED for that announcement — in order, complete (`size`
    bytes, the writer had seen them all: `receiving = false`) — at some point `j` of
    the script. The monitor `snapshot-bytes-wrong` is the tie of this theorem to the
    real writers. -/
theorem crash_snapshot_true (l m : Nat) (ops : List DOp) (hwf : (Disk.init l m).wf ops) (n k L S : Nat) :
    let img := crashImage [] (scriptOps (Disk.init l m) ops) n k
    (reopen img).rdb = some (L, S) →
      ∃ c, img.get (rdbName L S) = some c ∧ 0 < S ∧ c.length = S ∧
        ∃ j, j ≤ ops.length ∧ received (ops.take j) = some ⟨L, S, c, false⟩ := by
  intro img h
  obtain ⟨⟨content, hmem⟩, _⟩ := tmp_snapshot_not_offered img L S h
  obtain ⟨c', hget, hmem'⟩ := get_some_of_mem hmem
  exact ⟨c', hget, crashImage_received l m ops hwf n k _ hmem' L S rfl⟩

/-! ### the bridge to C06

  C06's theorems take a cache description `c : Psync.Cache` with the hypotheses
  `CacheWF c` and `CacheOK w c d` ("what C05/C08 provide"). `cacheOf id (reopen fs)`
  is the description of a re-opened directory labelled `id`; the theorems below
  provide both hypotheses, so C06's theorems apply to whatever survives a crash.
  (Definitions imported from Model/Psync.lean.) -/

/-- **reopen_cache_wf.** For ANY directory image the re-opened cache is well formed
    in C06's sense; the side conditions are what the model cannot see (offsets are
    int64) or does not constrain for arbitrary images (a positive announced size). -/
theorem reopen_cache_wf (fs : FS) (id : Psync.Id) (hid1 : id ≠ []) (hid2 : id ≠ Psync.qId)
    (h64 : ∀ r, lastRight (reopen fs).segs = some r → (r : Int) ≤ Psync.maxInt64)
    (hrdb : ∀ L S, (reopen fs).rdb = some (L, S) → 0 < S ∧ (L : Int) ≤ Psync.maxInt64) :
    Psync.CacheWF (cacheOf id (reopen fs)) :=
  reopen_cacheWF fs id hid1 hid2 h64 hrdb

/-- **reopened_cache_wf.** For every script of the writers and every crash instant
    the positive size is discharged (`crash_snapshot_true`): the re-opened cache
    satisfies C06's `CacheWF` as soon as the offsets are int64. -/
theorem reopened_cache_wf (l m : Nat) (ops : List DOp) (hwf : (Disk.init l m).wf ops) (n k : Nat)
    (id : Psync.Id) (hid1 : id ≠ []) (hid2 : id ≠ Psync.qId) :
    let img := crashImage [] (scriptOps (Disk.init l m) ops) n k
    (∀ r, lastRight (reopen img).segs = some r → (r : Int) ≤ Psync.maxInt64) →
    (∀ L S, (reopen img).rdb = some (L, S) → (L : Int) ≤ Psync.maxInt64) →
      Psync.CacheWF (cacheOf id (reopen img)) := by
  intro img h64 hL
  apply reopen_cacheWF img id hid1 hid2 h64
  intro L S h
  obtain ⟨_, _, hpos, _⟩ := crash_snapshot_true l m ops hwf n k L S h
  exact ⟨hpos, hL L S h⟩

/-- **reopened_cache_holds.** … and the content: if the chunks the script appends are
    history `id`'s bytes at the offsets they are appended at (`SrcOk`), the re-opened
    cache `Holds` history `id` in C06's sense (the log bytes on the range held are
    `w.hist id`; the snapshot is filed under its offset), whatever the crash instant … -/
theorem reopened_cache_holds (w : Psync.World) (id : Psync.Id) (l m : Nat) (ops : List DOp)
    (hwf : (Disk.init l m).wf ops) (hsrc : SrcOk (fun k => w.hist id (k : Int)) (Disk.init l m) ops) (n k : Nat) :
    let img := crashImage [] (scriptOps (Disk.init l m) ops) n k
    Psync.Holds w id (cacheOf id (reopen img)) (dataOf id (reopen img)) :=
  reopen_holds w _ id (crashImage_true _ l m ops hwf hsrc n k)

/-- **reopened_cache_ok.** … hence C06's `CacheOK` against any source. -/
theorem reopened_cache_ok (w : Psync.World) (src : Psync.Source) (id : Psync.Id) (l m : Nat) (ops : List DOp)
    (hwf : (Disk.init l m).wf ops) (hsrc : SrcOk (fun k => w.hist id (k : Int)) (Disk.init l m) ops) (n k : Nat) :
    let img := crashImage [] (scriptOps (Disk.init l m) ops) n k
    Psync.CacheOK w src (cacheOf id (reopen img)) (dataOf id (reopen img)) :=
  reopen_cacheOK w src _ id (crashImage_true _ l m ops hwf hsrc n k)

/-- **reopen_bytes_true.** If every stream file holds (after its header) bytes of
    the source at the file's offsets, then whatever a reader opened at `off`
    on the re-opened index delivers — with or without verification, however far it
    gets — is the source's byte at `off + k`, for every `k`. -/
theorem reopen_bytes_true (src : Nat → UInt8) (fs : FS) (h : FsTrue src fs) (verify : Bool) (off : Nat)
    (bs : Bytes) (e : ServeEnd) (hs : serve fs verify off = some (bs, e)) :
    ∀ k b, bs[k]? = some b → b = src (off + k) := by
  unfold serve at hs
  simp only [] at hs
  cases hi : indexAof (reopen fs).segs off with
  | none => simp [hi] at hs
  | some g =>
    simp only [hi, Option.some.injEq] at hs
    obtain ⟨hg, hl, hr⟩ := indexAof_some hi
    have hsuf : ∃ pre, (reopen fs).segs = pre ++ (reopen fs).segs.dropWhile (fun x => x.left != g.left) :=
      ⟨_, (List.takeWhile_append_dropWhile (p := fun x => x.left != g.left) (l := (reopen fs).segs)).symm⟩
    obtain ⟨pre, hpre⟩ := hsuf
    have hc : Contig ((reopen fs).segs.dropWhile (fun x => x.left != g.left)) :=
      contig_suffix pre _ (hpre ▸ reopen_contig fs)
    have ht : ∀ x ∈ (reopen fs).segs.dropWhile (fun x => x.left != g.left), SegTrue src x :=
      fun x hx => reopen_segs_true h x (by rw [hpre]; simp [hx])
    have hhead : ∀ x, ((reopen fs).segs.dropWhile (fun x => x.left != g.left)).head? = some x →
        x.left ≤ off ∧ off ≤ x.right := by
      intro x hx
      -- the first segment not skipped has `left = g.left`, hence is `g`
      have hxm : x ∈ (reopen fs).segs.dropWhile (fun x => x.left != g.left) := List.mem_of_head? hx
      have hxl : x.left = g.left := by
        have := List.head?_dropWhile_not (fun x : DSeg => x.left != g.left) (reopen fs).segs
        rw [hx] at this
        simpa using this
      have hxs : x ∈ (reopen fs).segs := by rw [hpre]; simp [hxm]
      -- left ends are distinct along a contiguous list whose closed segments are non-empty
      have hin : InitNonempty (reopen fs).segs := by
        intro y hy
        have hy' := List.dropLast_subset _ hy
        rw [reopen_segs] at hy'
        have hsc := mem_sortSegs.mp (mem_contigRun hy')
        unfold scanSegs at hsc
        obtain ⟨e, _, hsome⟩ := List.mem_filterMap.mp hsc
        split at hsome
        · split at hsome
          · simp at hsome; subst hsome
            intro hnil
            have := congrArg List.length hnil
            simp at this; omega
          · simp at hsome
        · simp at hsome
      have := lefts_unique (reopen_contig fs) hin hxs hg hxl
      subst this
      exact ⟨hl, hr⟩
    have := serveFrom_true src fs verify _ off hc ht hhead
    intro k b hb
    apply this k b
    rw [hs]; exact hb

/-- **crash_images_truthful.** A directory stays truthful through any list of
    file operations each of which is truthful (create, remove, header rewrite,
    append of bytes that leave the file truthful, rename onto a name the content
    is truthful for) — for every prefix of the list (the process may die after
    any operation) and with the last append torn to any length. -/
theorem crash_images_truthful (src : Nat → UInt8) (fs : FS) (h : FsTrue src fs) (ops : List FsOp)
    (hops : ∀ pre op post, ops = pre ++ op :: post → OpTrue src (fs.applyAll pre) op) (n k : Nat) :
    FsTrue src (crashImage fs ops n k) := by
  unfold crashImage
  exact FsTrue_tornLast h _ (opsTrue_take hops n) k

/-- **script_ops_true.** The hypothesis of `crash_images_truthful` holds for the
    writers' own scripts: for EVERY script respecting the callers' protocol
    (`wf`) whose appended chunks are the source's bytes at the offsets they are
    appended at (`SrcOk`: all that "the callers write what they received" means),
    every file operation the writers issue — header rewrite, create, append,
    rename, remove, in the order the code issues them — is truthful at the
    directory state it is applied to. -/
theorem script_ops_true (src : Nat → UInt8) (l m : Nat) (ops : List DOp) (hwf : (Disk.init l m).wf ops)
    (hsrc : SrcOk src (Disk.init l m) ops) :
    ∀ pre op post, scriptOps (Disk.init l m) ops = pre ++ op :: post → OpTrue src (FS.applyAll [] pre) op :=
  scriptOps_true ops _ _ (DInv.init l m) hwf (histTrue_init src l m) hsrc (filesOk_init l m [])

/-- **crash_bytes_true.** UNCONDITIONAL over scripts and crash instants: for every
    script of the writers (as above), at EVERY instant the process may die (`n`
    file operations issued, the last one — if an append — torn after `k` bytes),
    whatever a reader opened at `off` on the re-opened cache delivers — with or
    without verification — is the source's byte at `off + j`, for every `j`. -/
theorem crash_bytes_true (src : Nat → UInt8) (l m : Nat) (ops : List DOp) (hwf : (Disk.init l m).wf ops)
    (hsrc : SrcOk src (Disk.init l m) ops) (n k : Nat) (verify : Bool) (off : Nat)
    (bs : Bytes) (e : ServeEnd)
    (hs : serve (crashImage [] (scriptOps (Disk.init l m) ops) n k) verify off = some (bs, e)) :
    ∀ j b, bs[j]? = some b → b = src (off + j) :=
  reopen_bytes_true src _ (crashImage_true src l m ops hwf hsrc n k) verify off bs e hs

/-- non-vacuity of the hypotheses of `script_ops_true` / `crash_bytes_true`: a script
    that respects the protocol and appends the source's bytes satisfies both -/
example : (Disk.init 32 0).wf [.setRunId "a", .newAofWriter 100, .aofAppend [7, 9], .aofAppend [9]] := by decide

example : SrcOk (fun i => if i = 100 then 7 else 9) (Disk.init 32 0)
    [.setRunId "a", .newAofWriter 100, .aofAppend [7, 9], .aofAppend [9]] := by
  refine ⟨trivial, trivial, ?_, ?_, trivial⟩
  · intro i b h
    match i, h with
    | 0, h => simp at h; subst h; decide
    | 1, h => simp at h; subst h; decide
    | n + 2, h => simp at h
  · intro i b h
    match i, h with
    | 0, h => simp at h; subst h; decide
    | n + 1, h => simp at h

/-- **crc_mismatch_refused.** With verification on, a reader delivers nothing
    from a segment whose content fails the header check … -/
theorem crc_mismatch_refused (fs : FS) (g : DSeg) (rest : List DSeg) (off : Nat) (file : Bytes)
    (hf : fs.get (aofName g.left) = some file) (hbad : segVerifyOk file = false) :
    serveFrom fs true (g :: rest) off = ([], ServeEnd.corrupt) :=
  serveFrom_refuses fs g rest off file hf hbad

/-- … wherever the failing segment is in the chain a reader follows: nothing at
    or beyond it is delivered and the reader does not end normally … -/
theorem corrupt_segment_never_served (fs : FS) (pre : List DSeg) (g : DSeg) (post : List DSeg) (off : Nat)
    (file : Bytes) (hf : fs.get (aofName g.left) = some file) (hbad : segVerifyOk file = false) :
    (serveFrom fs true (pre ++ g :: post) off).1.length ≤ (pre.map (·.data.length)).sum ∧
    (serveFrom fs true (pre ++ g :: post) off).2 ≠ ServeEnd.eof :=
  serveFrom_stops_at_corrupt fs pre g post off file hf hbad

/-- … a segment closed by the writer passes the check … -/
theorem closed_segment_verifies (data : Bytes) (h : data.length < 4294967296) :
    segVerifyOk (closedHeader data ++ data) = true :=
  segVerifyOk_written data h

/-- … and ANY alteration of its data (content or length) under the recorded
    header is accepted only if the length is unchanged and the CRC64 of the
    altered data collides with the recorded one. (That CRC64 detects every burst
    of ≤ 64 bits is the standard fact about CRCs, not re-proved here.) -/
theorem altered_data_accepted_iff (data data' : Bytes) (h : data.length < 4294967296) :
    segVerifyOk (closedHeader data ++ data') = true ↔
      data'.length = data.length ∧ crc64 data' = crc64 data := by
  rw [segVerifyOk_closed, Nat.mod_eq_of_lt h]
  simp only [Bool.and_eq_true, decide_eq_true_eq]
  constructor
  · rintro ⟨h1, h2⟩; exact ⟨h1.symm, h2.symm⟩
  · rintro ⟨h1, h2⟩; exact ⟨h1.symm, h2.symm⟩

/-- an alteration of the recorded size alone is always refused -/
theorem altered_size_refused (data : Bytes) (n : Nat) (hn : n ≠ data.length % 4294967296) (hn2 : n < 4294967296) :
    segVerifyOk ((1 :: (leBytes 8 (crc64 data) ++ leBytes 4 n ++ [0, 0, 0])) ++ data) = false := by
  have hsz : (((1 :: (leBytes 8 (crc64 data) ++ leBytes 4 n ++ [0, 0, 0])) ++ data).drop 9).take 4 = leBytes 4 n := by
    simp only [List.cons_append, List.drop_succ_cons, List.append_assoc]
    rw [List.drop_append_of_le_length (by simp [leBytes_length]), List.drop_of_length_le (by simp [leBytes_length])]
    simp only [List.nil_append]
    rw [List.take_append_of_le_length (by simp [leBytes_length]), List.take_of_length_le (by simp [leBytes_length])]
  unfold segVerifyOk
  rw [hsz, ofLE_leBytes]
  have hlen : ((1 :: (leBytes 8 (crc64 data) ++ leBytes 4 n ++ [0, 0, 0])) ++ data).length - headerSize = data.length := by
    simp [leBytes_length, headerSize]; omega
  rw [hlen]
  have : n % 256 ^ 4 = n := Nat.mod_eq_of_lt (by omega)
  rw [this]
  have hne : (n == data.length) = false := by
    simp only [beq_eq_false_iff_ne, ne_eq]
    intro e
    -- the file's real size is below 2^32 in every writer-produced segment; if it
    -- equals `n` the two differ modulo 2^32 only when … they do not
    rw [e] at hn hn2
    exact hn (Nat.mod_eq_of_lt hn2).symm
  simp [hne]

/-- an alteration of the recorded checksum alone is always refused -/
theorem altered_crc_refused (data : Bytes) (c : Nat) (hc : c < 2 ^ 64) (hne : c ≠ crc64 data) :
    segVerifyOk ((1 :: (leBytes 8 c ++ leBytes 4 (data.length % 4294967296) ++ [0, 0, 0])) ++ data) = false :=
  segVerifyOk_altered_crc data c hc hne

/-! ### non-vacuity -/

/-- the D15 image: `639.aof` already removed, snapshot and later segments left -/
def exImage : FS :=
  [(.rdb 639 3, [7, 8, 9]),
   (.aof 658, fixHeader ++ [1, 2, 3]),
   (.aof 661, fixHeader ++ [4, 5])]

example : (reopen exImage).rdb = none := by decide
example : ((reopen exImage).segs.map (fun g => (g.left, g.data))) = [(658, [1, 2, 3]), (661, [4, 5])] := by decide
example : serve exImage false 659 = some ([2, 3, 4, 5], ServeEnd.eof) := by decide
-- the unclosed headers fail verification: a verifying reader refuses
example : serve exImage true 659 = some ([], ServeEnd.corrupt) := by decide +kernel
-- a gap: the older segment is discarded
example : ((reopen [(.aof 100, fixHeader ++ [1, 2]), (.aof 105, fixHeader ++ [9])]).segs.map (·.left)) = [105] := by decide
-- a temporary snapshot is not offered, a committed one aligned with the stream is
example : (reopen [(.rdbTmp 100 3, [1, 2])]).rdb = none := by decide
example : (reopen [(.rdb 100 3, [1, 2, 3]), (.aof 100, fixHeader ++ [5])]).rdb = some (100, 3) := by decide
example : FsTrue (fun o => UInt8.ofNat o) [(.aof 100, fixHeader ++ [100, 101, 102])] := by
  intro e he l hp i b hb
  simp at he; subst he
  simp [parseAofName] at hp; subst hp
  have hd : (fixHeader ++ [100, 101, 102] : Bytes).drop headerSize = [100, 101, 102] := by decide
  rw [hd] at hb
  match i, hb with
  | 0, hb => simp at hb; subst hb; decide
  | 1, hb => simp at hb; subst hb; decide
  | 2, hb => simp at hb; subst hb; decide
  | n + 3, hb => simp at hb
-- a script whose snapshot is committed: the crash image right after the rename offers it, complete;
-- one operation earlier (before the rename) nothing is offered
def exScript : List DOp := [.setRunId "id", .newRdbWriter 500 3, .rdbAppend [1, 2], .rdbAppend [3], .newAofWriter 500, .aofAppend [9]]
example : (Disk.init 32 0).wf exScript := by decide
example : (reopen (crashImage [] (scriptOps (Disk.init 32 0) exScript) 4 0)).rdb = some (500, 3) := by decide
example : (reopen (crashImage [] (scriptOps (Disk.init 32 0) exScript) 3 0)).rdb = none := by decide
-- the ghost: bytes received by the snapshot writer, at the points of the script
example : received (exScript.take 3) = some ⟨500, 3, [1, 2], true⟩ := by decide
example : received (exScript.take 4) = some ⟨500, 3, [1, 2, 3], false⟩ := by decide
-- a crash in the middle of the snapshot write (only the temporary file, with 2 of 3 bytes):
-- the re-opened store discards it
example : (crashImage [] (scriptOps (Disk.init 32 0) exScript) 2 2) = [(rdbTmpName 500 3, [1, 2])] := by decide
example : (reopen (crashImage [] (scriptOps (Disk.init 32 0) exScript) 2 2)).rdb = none := by decide
-- a crash after the commit: the snapshot is kept and the file holds exactly the bytes received
example : (reopen (crashImage [] (scriptOps (Disk.init 32 0) exScript) 4 0)).rdb = some (500, 3) ∧
    (crashImage [] (scriptOps (Disk.init 32 0) exScript) 4 0).get (rdbName 500 3) = some [1, 2, 3] := by decide
-- the description C06 reasons about, for the final image (snapshot at 500, log [500, 501])
example : cacheOf [7] (reopen (crashImage [] (scriptOps (Disk.init 32 0) exScript) 99 1)) =
    ⟨.disk, [7], some (500, 3), some (500, 501)⟩ := by decide
-- a closed segment verifies; a flipped data byte does not
example : segVerifyOk (closedHeader [1, 2, 3] ++ [1, 2, 3]) = true := by decide +kernel
example : segVerifyOk (closedHeader [1, 2, 3] ++ [1, 2, 7]) = false := by decide +kernel

end GunYu.Props.C08
