/-
  C04, session 5 — what is LEFT BEHIND by an aborted replay, and a later replay beside it.

  After `sendRdb` returned an error (target error, cancellation) goroutines of that replay may still be alive:
  `rdb.ParseRdb` has no context and stays in `pipe <- entry` when nobody drains `rdbPipe`; a worker may still be
  inside a request. The questions the observation in `partial` left open:

  (a) can such a leftover turn the aborted replay into a recorded one?          `aborted_stays_unrecorded`
      (`ret` and `checkpoint` are final once `finish` fired — whatever runs afterwards)
  (b) how much does the blocked parser hold?                                    `stale_parser_holds_at_most_pipe`
      (never more than RdbPipeSize items in the channel + the one in its hand)
  (c) can it disturb a LATER replay of the same RedisOutput?                    `later_replay_independent`
      (two replays whose goroutines interleave in any way: the later one's state is the state of its own events
       alone — the event systems share nothing. What makes the product the right model of the code is checked on
       the source by the extractor: rdbPipe / errChan / pipes / readBytes are locals of sendRdb, ParseRdb's channel
       is a local `make`, every run obtains a fresh reader (facts c04_sendRdb_locals, c04_parseRdb_pipe_local); and
       on the real code by the harness scenario `second-replay-after-abort`.)
      Consequently every theorem of Part 1 – 3 holds for the later replay: `later_replay_recorded_exactly_once`.
-/
import GunYu.Props.C04F

namespace GunYu.Props.C04
open GunYu GunYu.RdbFanout

/-- one event after `sendRdb` returned: result and checkpoint are what they were -/
theorem step_after_return {α} (c : Cfg α) (s : St α) (e : Ev) (h : s.ret.isSome = true) :
    (step c s e).ret = s.ret ∧ (step c s e).checkpoint = s.checkpoint := by
  cases e with
  | parse => simp only [step, stepParse]; split <;> (try split) <;> simp
  | dist =>
    simp only [step, stepDist]
    split
    · simp
    · split <;> (try split) <;> simp
  | distCancel => simp only [step, stepDistCancel]; split <;> simp
  | work i =>
    simp only [step, stepWork]
    split
    · simp
    · split <;> simp
  | workFail i =>
    simp only [step, stepWorkFail]
    split
    · simp
    · split <;> simp
  | workCancel i => simp only [step, stepWorkCancel]; split <;> simp
  | workClosed i => simp only [step, stepWorkClosed]; split <;> simp
  | cancel => simp [step]
  | collectD =>
    simp only [step, stepCollectD]
    split
    · simp
    · split <;> simp
  | collectW i =>
    simp only [step, stepCollectW]
    split
    · simp
    · split <;> simp
  | finish cpOk => simp [step, stepFinish, h]

/-- **the verdict is final**: once `sendRdb` has returned, no continuation of the schedule — the parser still
    emitting, workers still applying or failing, further cancellations, `finish` attempted again — changes the
    result or writes (or unwrites) the checkpoint -/
theorem ret_is_final {α} (c : Cfg α) (s : St α) (h : s.ret.isSome = true) (sched : List Ev) :
    (run c s sched).ret = s.ret ∧ (run c s sched).checkpoint = s.checkpoint := by
  induction sched generalizing s with
  | nil => exact ⟨rfl, rfl⟩
  | cons e t ih =>
    have h1 := step_after_return c s e h
    have h2 : (step c s e).ret.isSome = true := by rw [h1.1]; exact h
    have := ih (step c s e) h2
    simp only [run, List.foldl_cons] at this ⊢
    exact ⟨this.1.trans h1.1, this.2.trans h1.2⟩

theorem run_append {α} (c : Cfg α) (s : St α) (a b : List Ev) : run c s (a ++ b) = run c (run c s a) b := by
  simp [run, List.foldl_append]

/-- the checkpoint exists only together with the result `nil` -/
theorem checkpoint_only_with_ok {α} (c : Cfg α) (items : List (Item α)) (sched : List Ev) :
    (run c (init items) sched).checkpoint = true → (run c (init items) sched).ret = some .ok := by
  suffices H : ∀ (sched : List Ev) (s : St α), (s.checkpoint = true → s.ret = some .ok) →
      ((run c s sched).checkpoint = true → (run c s sched).ret = some .ok) from
    H sched (init items) (by simp [init])
  intro sched
  induction sched with
  | nil => intro s hs; exact hs
  | cons e t ih =>
    intro s hs
    simp only [run, List.foldl_cons]
    apply ih
    cases hr : s.ret with
    | some r =>
      have h1 := step_after_return c s e (by rw [hr]; rfl)
      rw [h1.1, h1.2]; exact hs
    | none =>
      have hcp : s.checkpoint = false := by
        cases hc : s.checkpoint with
        | false => rfl
        | true => have := hs hc; rw [hr] at this; cases this
      cases e with
      | finish cpOk =>
        simp only [step, stepFinish]
        split
        · simp [hcp]
        · split
          · simp [hcp]
          · split
            · simp [hcp]
            · split <;> simp [hcp]
      | parse => simp only [step, stepParse]; split <;> (try split) <;> simp [hcp]
      | dist =>
        simp only [step, stepDist]
        split
        · simp [hcp]
        · split <;> (try split) <;> simp [hcp]
      | distCancel => simp only [step, stepDistCancel]; split <;> simp [hcp]
      | work i =>
        simp only [step, stepWork]
        split
        · simp [hcp]
        · split <;> simp [hcp]
      | workFail i =>
        simp only [step, stepWorkFail]
        split
        · simp [hcp]
        · split <;> simp [hcp]
      | workCancel i => simp only [step, stepWorkCancel]; split <;> simp [hcp]
      | workClosed i => simp only [step, stepWorkClosed]; split <;> simp [hcp]
      | cancel => simp [step, hcp]
      | collectD =>
        simp only [step, stepCollectD]
        split
        · simp [hcp]
        · split <;> simp [hcp]
      | collectW i =>
        simp only [step, stepCollectW]
        split
        · simp [hcp]
        · split <;> simp [hcp]

/-- **(a) an aborted replay stays unrecorded**: `sendRdb` returned an error after `sched`; then after ANY further
    events `rest` of its leftover goroutines (the blocked parser waking up, a worker finishing the request it was in,
    another `finish`) the checkpoint is still not written and the result is still the error -/
theorem aborted_stays_unrecorded {α} (c : Cfg α) (items : List (Item α)) (sched rest : List Ev)
    (h : (run c (init items) sched).ret = some .err) :
    (run c (init items) (sched ++ rest)).checkpoint = false ∧ (run c (init items) (sched ++ rest)).ret = some .err := by
  rw [run_append]
  have hf := ret_is_final c (run c (init items) sched) (by rw [h]; rfl) rest
  have hcp : (run c (init items) sched).checkpoint = false := by
    cases hc : (run c (init items) sched).checkpoint with
    | false => rfl
    | true => have := checkpoint_only_with_ok c items sched hc; rw [h] at this; cases this
  exact ⟨hf.2.trans hcp, hf.1.trans h⟩

/-- a recorded replay stays the recorded replay it was (nothing is applied "into" it afterwards that could matter
    for the verdict): the counterpart of (a) -/
theorem recorded_stays_recorded {α} (c : Cfg α) (items : List (Item α)) (sched rest : List Ev)
    (h : (run c (init items) sched).ret = some .ok) :
    (run c (init items) (sched ++ rest)).checkpoint = true ∧ (run c (init items) (sched ++ rest)).ret = some .ok := by
  rw [run_append]
  have hf := ret_is_final c (run c (init items) sched) (by rw [h]; rfl) rest
  have hn : (run c (init items) sched).checkpoint = true := by
    -- `retOk` of the invariant needs 0 < n; without workers `finish` is still the only writer: direct argument
    suffices H : ∀ (sched : List Ev) (s : St α), (s.ret = some .ok → s.checkpoint = true) →
        ((run c s sched).ret = some .ok → (run c s sched).checkpoint = true) from
      H sched (init items) (by simp [init]) h
    intro sched
    induction sched with
    | nil => intro s hs; exact hs
    | cons e t ih =>
      intro s hs
      simp only [run, List.foldl_cons]
      apply ih
      cases hr : s.ret with
      | some r =>
        have h1 := step_after_return c s e (by rw [hr]; rfl)
        rw [h1.1, h1.2]; exact hs
      | none =>
        cases e with
        | finish cpOk =>
          simp only [step, stepFinish]
          split
          · simp [hr]
          · split
            · simp
            · split
              · simp
              · split <;> simp
        | parse => simp only [step, stepParse]; split <;> (try split) <;> simp [hr]
        | dist =>
          simp only [step, stepDist]
          split
          · simp [hr]
          · split <;> (try split) <;> simp [hr]
        | distCancel => simp only [step, stepDistCancel]; split <;> simp [hr]
        | work i =>
          simp only [step, stepWork]
          split
          · simp [hr]
          · split <;> simp [hr]
        | workFail i =>
          simp only [step, stepWorkFail]
          split
          · simp [hr]
          · split <;> simp [hr]
        | workCancel i => simp only [step, stepWorkCancel]; split <;> simp [hr]
        | workClosed i => simp only [step, stepWorkClosed]; split <;> simp [hr]
        | cancel => simp [step, hr]
        | collectD =>
          simp only [step, stepCollectD]
          split
          · simp [hr]
          · split <;> simp [hr]
        | collectW i =>
          simp only [step, stepCollectW]
          split
          · simp [hr]
          · split <;> simp [hr]
  exact ⟨hf.2.trans hn, hf.1.trans h⟩

/-! ### (b) what the blocked parser holds -/

theorem step_pipe0_bounded {α} (c : Cfg α) (s : St α) (e : Ev) (h : s.pipe0.length ≤ c.cap0) :
    (step c s e).pipe0.length ≤ c.cap0 := by
  cases e with
  | parse =>
    simp only [step, stepParse]
    split
    · split <;> simpa using h
    · split
      · rename_i hlt; simp only [List.length_append, List.length_singleton]; omega
      · exact h
  | dist =>
    simp only [step, stepDist]
    split
    · exact h
    · split
      · split <;> simpa using h
      · rename_i heq; rw [heq] at h; simp only [List.length_cons] at h; simp only; omega
      · rename_i heq; rw [heq] at h; simp only [List.length_cons] at h; simp only; omega
      · rename_i heq
        split
        · rw [heq] at h; simp only [List.length_cons] at h; simp only; omega
        · exact (heq ▸ h)
  | distCancel => simp only [step, stepDistCancel]; split <;> simpa using h
  | work i =>
    simp only [step, stepWork]
    split
    · exact h
    · split <;> simpa using h
  | workFail i =>
    simp only [step, stepWorkFail]
    split
    · exact h
    · split <;> simpa using h
  | workCancel i => simp only [step, stepWorkCancel]; split <;> simpa using h
  | workClosed i => simp only [step, stepWorkClosed]; split <;> simpa using h
  | cancel => simpa [step] using h
  | collectD =>
    simp only [step, stepCollectD]
    split
    · exact h
    · split <;> simpa using h
  | collectW i =>
    simp only [step, stepCollectW]
    split
    · exact h
    · split <;> simpa using h
  | finish cpOk =>
    simp only [step, stepFinish]
    split
    · exact h
    · split
      · simpa using h
      · split
        · simpa using h
        · split <;> simpa using h

/-- **(b)** at every moment of every schedule — in particular for ever after an abort — `rdbPipe` holds at most
    `cap0` (= config.RdbPipeSize) items: the leaked parser goroutine pins at most that many parsed entries plus
    the one it is trying to send (the head of `todo`), not the rest of the snapshot -/
theorem stale_parser_holds_at_most_pipe {α} (c : Cfg α) (items : List (Item α)) (sched : List Ev) :
    (run c (init items) sched).pipe0.length ≤ c.cap0 := by
  suffices H : ∀ (sched : List Ev) (s : St α), s.pipe0.length ≤ c.cap0 → (run c s sched).pipe0.length ≤ c.cap0 from
    H sched (init items) (by simp [init])
  intro sched
  induction sched with
  | nil => intro s hs; exact hs
  | cons e t ih =>
    intro s hs
    simp only [run, List.foldl_cons]
    exact ih _ (step_pipe0_bounded c s e hs)

/-! ### (c) a later replay beside the leftovers of an earlier one -/

/-- two replays of one RedisOutput: the events of the earlier (`inl`) and of the later (`inr`) one in any interleaving.
    The state is a pair because the code shares nothing between two `sendRdb` calls (see the file header). -/
def step2 {α} (c1 c2 : Cfg α) (s : St α × St α) : Ev ⊕ Ev → St α × St α
  | .inl e => (step c1 s.1 e, s.2)
  | .inr e => (s.1, step c2 s.2 e)

def run2 {α} (c1 c2 : Cfg α) (s : St α × St α) (sched : List (Ev ⊕ Ev)) : St α × St α := sched.foldl (step2 c1 c2) s

def rights {β γ} : List (β ⊕ γ) → List γ
  | [] => []
  | .inl _ :: t => rights t
  | .inr e :: t => e :: rights t

def lefts {β γ} : List (β ⊕ γ) → List β
  | [] => []
  | .inl e :: t => e :: lefts t
  | .inr _ :: t => lefts t

/-- **(c)** whatever the earlier replay's goroutines still do, and however they interleave with the later replay, the
    later replay's state is the state reached by its own events alone (and vice versa) -/
theorem later_replay_independent {α} (c1 c2 : Cfg α) (s1 s2 : St α) (sched : List (Ev ⊕ Ev)) :
    run2 c1 c2 (s1, s2) sched = (run c1 s1 (lefts sched), run c2 s2 (rights sched)) := by
  induction sched generalizing s1 s2 with
  | nil => rfl
  | cons e t ih =>
    cases e with
    | inl e => simp only [run2, List.foldl_cons, step2, lefts, rights, run] at ih ⊢; exact ih _ _
    | inr e => simp only [run2, List.foldl_cons, step2, lefts, rights, run] at ih ⊢; exact ih _ _

/-- **bytes → checkpoint for the later replay, exactly once, beside any leftovers**: the second replay of a
    RedisOutput — the first one aborted or not, its goroutines still running or blocked, in any interleaving — is
    recorded only if ITS input parses to `Done` and ITS entries were each applied exactly once -/
theorem later_replay_recorded_exactly_once (cfg : RdbFrameX.Cfg) (maxVer : Nat) (f2 : Bytes)
    (junk items1 items2 : List (Item Nat)) (hfeed : feedO (RdbFrameX.parseX cfg maxVer f2) junk = some items2)
    (c1 c2 : Cfg Nat) (hn : 0 < c2.n) (sched : List (Ev ⊕ Ev))
    (h : (run2 c1 c2 (init items1, init items2) sched).2.checkpoint = true ∨
         (run2 c1 c2 (init items1, init items2) sched).2.ret = some .ok) :
    ∃ n, RdbFrameX.parseX cfg maxVer f2 = .done n ∧
      (run2 c1 c2 (init items1, init items2) sched).2.applied.Perm (List.range n) := by
  rw [later_replay_independent] at h ⊢
  exact recorded_exactly_once_x cfg maxVer f2 junk items2 hfeed c2 hn (rights sched) h

/-- … and the earlier, aborted one is not recorded by anything that happens during the later one -/
theorem earlier_abort_stays_unrecorded {α} (c1 c2 : Cfg α) (items1 items2 : List (Item α)) (sched : List Ev)
    (h : (run c1 (init items1) sched).ret = some .err) (both : List (Ev ⊕ Ev)) :
    (run2 c1 c2 (run c1 (init items1) sched, init items2) both).1.checkpoint = false := by
  rw [later_replay_independent]
  have := aborted_stays_unrecorded c1 items1 sched (lefts both) h
  rw [run_append] at this
  exact this.1

/-! non-vacuity -/
section Examples
/-- one worker, rdbPipe of 1: three entries; the worker fails on the first; sendRdb returns the error while the
    parser still has entries to send -/
def exAbortCfg : Cfg Nat := { n := 1, cap0 := 1, capW := 1, route := fun _ => 0 }
def exAbortItems : List (Item Nat) := parserOutput [0, 1, 2] .done []
def exAbort : List Ev := [.parse, .dist, .parse, .workFail 0, .collectW 0, .distCancel, .collectD, .finish true]
example : (run exAbortCfg (init exAbortItems) exAbort).ret = some .err := by decide
/-- the parser is left with work: an item in the pipe nobody reads, two more to send -/
example : (run exAbortCfg (init exAbortItems) exAbort).pipe0.length = 1 ∧
    (run exAbortCfg (init exAbortItems) exAbort).todo.length = 2 := by decide
/-- it keeps trying, a late `finish` fires again: nothing is recorded -/
example : (run exAbortCfg (init exAbortItems) (exAbort ++ [.parse, .parse, .dist, .work 0, .finish true])).checkpoint = false :=
  (aborted_stays_unrecorded exAbortCfg exAbortItems exAbort _ (by decide)).1
/-- a second replay interleaved with the leftovers of the first completes and is recorded on its own events -/
def exSecond : List (Ev ⊕ Ev) :=
  [.inr .parse, .inl .parse, .inr .dist, .inr (.work 0), .inl .parse, .inr .parse, .inr .dist, .inr (.work 0), .inr .parse,
   .inl .dist, .inr .dist, .inr (.work 0), .inr .parse, .inr .dist, .inl (.finish true), .inr (.workClosed 0), .inr .collectD,
   .inr (.collectW 0), .inr (.finish true)]
example : (run2 exAbortCfg exAbortCfg (run exAbortCfg (init exAbortItems) exAbort, init exAbortItems) exSecond).2.checkpoint = true := by
  decide
example : (run2 exAbortCfg exAbortCfg (run exAbortCfg (init exAbortItems) exAbort, init exAbortItems) exSecond).1.checkpoint = false := by
  decide
example : (run2 exAbortCfg exAbortCfg (run exAbortCfg (init exAbortItems) exAbort, init exAbortItems) exSecond).2.applied = [0, 1, 2] := by
  decide
/-- `ret_is_final`, instantiated on a state that has returned -/
example (rest : List Ev) : (run exAbortCfg (run exAbortCfg (init exAbortItems) exAbort) rest).ret = some .err :=
  (ret_is_final exAbortCfg _ (by decide) rest).1.trans (by decide)
example (sched : List Ev) : (run exAbortCfg (init exAbortItems) sched).pipe0.length ≤ 1 :=
  stale_parser_holds_at_most_pipe exAbortCfg exAbortItems sched
end Examples

end GunYu.Props.C04
