/-
  C05, disk backend — ONE refinement statement against an abstract specification of the
  stream part (Proofs/StoreSpec.lean): spec state = byte history since the last reset,
  first held offset, open stream readers with start / position / output.
-/
import GunYu.Proofs.StoreSpec

namespace GunYu.Props.C05
open GunYu GunYu.Store

/-- **disk_refines_spec.** For every operation list respecting the callers' protocol, with
    `a` the abstraction of the reached state:
    (1) `a` is a well-formed spec state: the held window `[lo, end)` lies inside the
        history, every open stream reader stands inside the window's closure, started inside
        the history and has delivered exactly `hist[start, pos)`;
    (2) the bytes the concrete index holds are the spec's window `hist[lo ..]`;
    (3) ANY next operation is a history-level step of the spec — the history is kept,
        extended by exactly one appended chunk, or replaced by an empty one — and
    (4) if it respects the protocol, leads to a well-formed spec state again.
    Importers (C06, C16) need no concrete notion (segments, rotation, reference counts). -/
theorem disk_refines_spec (l m : Nat) (ops : List DOp) (hwf : (Disk.init l m).wf ops) :
    let s := (Disk.init l m).run ops
    SpecWF s.spec ∧ s.abs.bytes = s.spec.window ∧
      ∀ op, SpecStepH s.spec (s.step op).1.spec ∧ (s.okOp op → SpecWF (s.step op).1.spec) := by
  intro s
  have hi : DInv s := (DInv.init l m).run ops hwf
  exact ⟨spec_wf hi, spec_window hi, fun op => ⟨spec_step_hist s op, fun hok => spec_wf (hi.step op hok)⟩⟩

/-- the window never reaches beyond the history and an open reader never stands before it:
    the two facts a client uses to read `hist[pos ..]` from the window -/
theorem disk_spec_reader_in_window (l m : Nat) (ops : List DOp) (hwf : (Disk.init l m).wf ops) :
    let a := ((Disk.init l m).run ops).spec
    ∀ r ∈ a.readers, a.lo ≤ r.pos ∧ r.pos ≤ a.endOff ∧
      (a.window.drop (r.pos - a.lo)) = a.hist.drop (r.pos - a.base) := by
  intro a r hr
  have hw : SpecWF a := spec_wf ((DInv.init l m).run ops hwf)
  obtain ⟨_, _, h3, h4, _⟩ := hw.readers r hr
  refine ⟨h3, h4, ?_⟩
  unfold Spec.window
  rw [List.drop_drop]
  congr 1
  have := hw.lo_ge
  omega

/-! ### non-vacuity -/

def exSpecOps : List DOp :=
  [ .setRunId "id1", .newAofWriter 100, .aofAppend [1,2,3,4,5,6,7,8,9], .openReader 0 104 true,
    .aofAppend [10,11,12,13,14,15,16,17,18], .aofAppend [19,20], .read 0 3, .advAcquire 0, .gc ]

example : (Disk.init 24 10).wf exSpecOps := by decide
example : ((Disk.init 24 10).run exSpecOps).spec =
    { base := 100, hist := [1,2,3,4,5,6,7,8,9,10,11,12,13,14,15,16,17,18,19,20], lo := 100,
      readers := [{ id := 0, start := 104, pos := 107, out := [5,6,7] }] } := by decide
example : ((Disk.init 24 10).run (exSpecOps ++ [.closeReader 0, .gc])).spec.lo = 118 ∧
    ((Disk.init 24 10).run (exSpecOps ++ [.closeReader 0, .gc])).spec.window =
      [19,20] := by decide

end GunYu.Props.C05
