/-
  C02 with TWO run ids on the target. After a fail-over of the source `StartPoint`
  is asked with `[master_replid, master_replid2]`; a checkpoint hash can hold the
  fields of both ids and `fetchCheckpoint` merges them (`Model/Checkpoint.lean`
  `fetch`: the last matching field wins), `GetCheckpoint` then takes the largest
  offset, newest mtime on a tie (`bestStep`; `Props.C17.gen_cpBetter_eq_model` /
  `gen_bestStep_eq_model`: the comparison is REGENERATED from checkpoint.go).

  C02's restart theorems (`crash_resume_db_resumed`, `life_step`, `lives_startPoint`,
  `crash_then_resume`) speak of `Target.UniqueMax cps d o` on the sender model's
  target, one record per database. This file is the bridge:

  * `getCheckpoint_two_ids`: whatever ids are consulted and whatever fields of other
    ids the hashes hold, if database `d`'s MERGED record carries offset `o >= 0` with
    a run id and every other database's merged record a smaller offset, the modelled
    `GetCheckpoint` (C17's, regenerated comparison) answers `(o, d)` -- for every
    iteration order of the database map and whatever the mtimes.
  * `view_uniqueMax`: under the same premises the merged per-database view
    (`view`) IS a sender-model target with `UniqueMax d o`: the premise of the C02
    restart theorems. So they hold with records of two ids on the target.
  * `gen_getCheckpoint_step`: the step used above is the generated decision.
-/
import GunYu.Props.C17Gen
import GunYu.Proofs.ResumedDb

namespace GunYu.Props.C02
open GunYu GunYu.Checkpoint

/-- the merged record of one database as the sender model's target sees it -/
def viewRec (ids : List Bytes) (fs : Cp) : Target.CpRec :=
  match fetch ids fs with
  | some c => { offset := if 0 ≤ c.offset then some c.offset else none, hasRunId := decide (c.runId ≠ qmark) }
  | none => {}

/-- the sender model's checkpoint records for the databases `order` -/
def view (ids : List Bytes) (t : Checkpoint.Target) (name : Bytes) (order : List Nat) : List (Int × Target.CpRec) :=
  order.map (fun (db : Nat) => ((db : Int), viewRec ids (t.cps db name)))

theorem fold_best (ids : List Bytes) (t : Checkpoint.Target) (name : Bytes) (d : Nat) (cd : CpInfo) (o : Int)
    (hfd : fetch ids (t.cps d name) = some cd) (hoff : cd.offset = o) (l : List Nat)
    (hothers : ∀ db ∈ l, db ≠ d → ∃ c, fetch ids (t.cps db name) = some c ∧ c.offset < o) :
    ∀ (cpi : CpInfo) (rec : Int), ((cpi.offset < o ∧ d ∈ l) ∨ (cpi = cd ∧ rec = (d : Int))) →
      l.foldl (bestStep ids t name) (some (cpi, rec)) = some (cd, (d : Int)) := by
  induction l with
  | nil =>
    intro cpi rec h
    rcases h with ⟨_, hm⟩ | ⟨h1, h2⟩
    · cases hm
    · rw [h1, h2]; rfl
  | cons db rest ih =>
    intro cpi rec h
    have hrest : ∀ x ∈ rest, x ≠ d → ∃ c, fetch ids (t.cps x name) = some c ∧ c.offset < o :=
      fun x hx => hothers x (List.mem_cons_of_mem _ hx)
    simp only [List.foldl_cons]
    by_cases hdb : db = d
    · subst hdb
      have hstep : bestStep ids t name (some (cpi, rec)) db = some (cd, (db : Int)) := by
        unfold bestStep
        simp only [hfd]
        rcases h with ⟨hlt, _⟩ | ⟨h1, h2⟩
        · rw [if_pos (Or.inl (by rw [hoff]; exact hlt))]
        · rw [h1, h2, if_neg (by intro hx; rcases hx with hx | ⟨_, hx⟩ <;> omega)]
      rw [hstep]
      exact ih hrest cd db (Or.inr ⟨rfl, rfl⟩)
    · obtain ⟨c, hc, hlt⟩ := hothers db (List.mem_cons_self ..) hdb
      unfold bestStep
      simp only [hc]
      rcases h with ⟨hlt0, hm⟩ | ⟨h1, h2⟩
      · have hm' : d ∈ rest := by
          rcases List.mem_cons.mp hm with h' | h'
          · exact absurd h'.symm hdb
          · exact h'
        split
        · exact ih hrest c db (Or.inl ⟨hlt, hm'⟩)
        · exact ih hrest cpi rec (Or.inl ⟨hlt0, hm'⟩)
      · rw [h1, h2, if_neg (by intro hx; rcases hx with hx | ⟨hx, _⟩ <;> omega)]
        exact ih hrest cd d (Or.inr ⟨rfl, rfl⟩)

/-- **GetCheckpoint with two ids reads the unique largest merged record.** -/
theorem getCheckpoint_two_ids (ver name : Bytes) (ids : List Bytes) (t : Checkpoint.Target) (order : List Nat)
    (d : Nat) (cd : CpInfo) (o : Int)
    (hd : d ∈ order) (hfd : fetch ids (t.cps d name) = some cd) (hoff : cd.offset = o) (ho : 0 ≤ o)
    (hrid : cd.runId ≠ qmark)
    (hothers : ∀ db ∈ order, db ≠ d → ∃ c, fetch ids (t.cps db name) = some c ∧ c.offset < o) :
    getCheckpoint ver t name ids order = some (cd, (d : Int)) := by
  unfold getCheckpoint
  rw [fold_best ids t name d cd o hfd hoff order hothers { version := ver } 0
    (Or.inl ⟨by show (-1 : Int) < o; omega, hd⟩)]
  simp only [hrid, ↓reduceIte]

/-- the step of the loop above is the decision regenerated from checkpoint.go -/
theorem gen_getCheckpoint_step (ids : List Bytes) (t : Checkpoint.Target) (name : Bytes) (cpi : CpInfo) (rec : Int) (db : Nat) :
    bestStep ids t name (some (cpi, rec)) db =
      match fetch ids (t.cps db name) with
      | none => none
      | some tc => if Gen.cpBetter tc.offset tc.mtime cpi.offset cpi.mtime then some (tc, (db : Int)) else some (cpi, rec) :=
  C17.gen_bestStep_eq_model ids t name cpi rec db

theorem getCp_view (ids : List Bytes) (t : Checkpoint.Target) (name : Bytes) (order : List Nat) (db : Nat)
    (h : db ∈ order) : Target.getCp (view ids t name order) (db : Int) = viewRec ids (t.cps db name) := by
  induction order with
  | nil => cases h
  | cons x rest ih =>
    unfold Target.getCp view
    simp only [List.map_cons, List.lookup_cons]
    by_cases hx : db = x
    · subst hx; simp
    · have : ((db : Int) == (x : Int)) = false := by simp; omega
      rw [this]
      have hm : db ∈ rest := by
        rcases List.mem_cons.mp h with h' | h'
        · exact absurd h' hx
        · exact h'
      exact ih hm

theorem getCp_view_absent (ids : List Bytes) (t : Checkpoint.Target) (name : Bytes) (order : List Nat) (d' : Int)
    (h : ∀ db ∈ order, (db : Int) ≠ d') : Target.getCp (view ids t name order) d' = {} := by
  induction order with
  | nil => simp [Target.getCp, view]
  | cons x rest ih =>
    unfold Target.getCp view
    simp only [List.map_cons, List.lookup_cons]
    have : (d' == (x : Int)) = false := by
      have := h x (List.mem_cons_self ..)
      simp; exact fun e => this e.symm
    rw [this]
    exact ih (fun db hdb => h db (List.mem_cons_of_mem _ hdb))

/-- **... and the merged view is a sender-model target with `UniqueMax d o`**: the premise of
    `crash_resume_db_resumed` / `life_step` / `crash_then_resume`. -/
theorem view_uniqueMax (name : Bytes) (ids : List Bytes) (t : Checkpoint.Target) (order : List Nat)
    (d : Nat) (cd : CpInfo) (o : Int)
    (hd : d ∈ order) (hfd : fetch ids (t.cps d name) = some cd) (hoff : cd.offset = o) (ho : 0 ≤ o)
    (hothers : ∀ db ∈ order, db ≠ d → ∃ c, fetch ids (t.cps db name) = some c ∧ c.offset < o) :
    Target.UniqueMax (view ids t name order) (d : Int) o := by
  constructor
  · rw [getCp_view ids t name order d hd]
    simp [viewRec, hfd, hoff, ho]
  · intro d' hne o' ho'
    by_cases hin : ∃ db ∈ order, (db : Int) = d'
    · obtain ⟨db, hdb, rfl⟩ := hin
      have hdbne : db ≠ d := fun e => hne (by rw [e])
      obtain ⟨c, hc, hlt⟩ := hothers db hdb hdbne
      rw [getCp_view ids t name order db hdb] at ho'
      simp only [viewRec, hc] at ho'
      split at ho'
      · injection ho' with ho'; omega
      · cases ho'
    · have : Target.getCp (view ids t name order) d' = {} :=
        getCp_view_absent ids t name order d' (fun db hdb e => hin ⟨db, hdb, e⟩)
      rw [this] at ho'
      cases ho'

/-! ### Non-vacuity: the position under the PREVIOUS id in database 1, a stale lower record of the current
    id in database 0 and fields of a third id that must stay invisible -/
def tiCur : Bytes := [99]
def tiPrev : Bytes := [112]
def tiOther : Bytes := [120]
def tiT : Checkpoint.Target :=
  { hash := [],
    cps := fun db _ =>
      if db = 1 then [⟨tiPrev, .runid, tiPrev⟩, ⟨tiPrev, .offset, [55, 48, 48]⟩, ⟨tiOther, .offset, [57, 57, 57]⟩]
      else if db = 0 then [⟨tiCur, .runid, tiCur⟩, ⟨tiCur, .offset, [54, 48, 48]⟩]
      else [] }

example : getCheckpoint [] tiT [] [tiCur, tiPrev] [0, 1, 2] =
    some ({ runId := tiPrev, offset := 700, version := [], mtime := 0 }, 1) := by decide +kernel
example : getCheckpoint [] tiT [] [tiCur, tiPrev] [2, 1, 0] =
    some ({ runId := tiPrev, offset := 700, version := [], mtime := 0 }, 1) := by decide +kernel

end GunYu.Props.C02
