/-
  C13 — what the global theorems asked of every event, shrunk:

  * checkpoint names are no longer ASSUMED brace-free: they are derived from the
    modelled `NewBisyncCheckpointName` (`generated_names_valid`) and from the
    model of every writer of the checkpoint hash (`resolved_names_generated`:
    a name read back from the hash is a generated one);
  * "the tool never writes anything outside the bookkeeping vocabulary"
    (`EvOK' (.toolRaw …) = False`) is derived for the modelled inventory of
    target writers (`tool_writers_in_vocabulary`, `no_loop_generated_names`):
    each request of each writer is a stand-alone request with a generated name.
    The one request that was NOT — the clean-up of a retired namespace naming
    the marker (the only control key with an expiry) in one DEL with other
    keys — is a defect found this way and repaired (/repo b5f636f):
    `cleanup_marker_in_shared_del_echoes` is its witness in the model.
-/
import GunYu.Props.C13
import GunYu.Proofs.BisyncWriters

namespace GunYu.Props.C13
open GunYu GunYu.BisyncUnit GunYu.Bisync

/-- **Generated names are valid, whatever the random bytes.** The name
    `NewBisyncCheckpointName` makes lies under `redis-gunyu-checkpoint` (so
    every request on it or on its frontier key is withheld by the reserved
    prefix) and contains no `{` (so the `{tag}` of a control key is the first
    brace pair, and a marker key is recognisable as one). -/
theorem generated_names_valid (buf : Bytes) :
    Gen.checkpointKey <+: newCpName buf ∧ Slot.lbrace ∉ newCpName buf :=
  newCpName_valid buf

-- the twelve bytes 00 01 … 0b
example : newCpName [0,1,2,3,4,5,6,7,8,9,10,11] =
    Gen.bisyncCheckpointKeyPrefix ++ [58] ++ [48,48,48,49,48,50,48,51,48,52,48,53,48,54,48,55,48,56,48,57,48,97,48,98] := by
  decide +kernel
example : hexOfBytes [255, 16] = [102,102,49,48] := by decide +kernel

/-- **A name read back is a generated name.** Start from a checkpoint hash in
    which every stored name is a generated one (`HashGen`: an ASSUMPTION on the
    target, true of the empty hash of a fresh target) and run ANY sequence of
    starts of any syncers against it — bidirectional ones that find no name and
    create one, find one and keep it, or switch the recovery format and replace
    it; plain ones with `redis-gunyu-checkpoint` or the slot-fitted
    `redis-gunyu-checkpoint-<letters>`; each followed by `updateCheckpoint`'s
    relabelling. Then every name any of these starts ends up with is a
    generated one (`GenCp`: the form the theorems below take), hence under the
    reserved prefix and brace-free, and the hash still holds generated names only. -/
theorem resolved_names_generated (h : CpHash) (hg : HashGen h) (ss : List Start) (hs : ∀ s ∈ ss, s.Ok) :
    HashGen (runStarts h ss).1 ∧
      ∀ n ∈ (runStarts h ss).2, GenCp n ∧ Gen.checkpointKey <+: n ∧ Slot.lbrace ∉ n := by
  obtain ⟨h1, h2⟩ := runStarts_gen h hg ss hs
  exact ⟨h1, fun n hn => ⟨h2 n hn, genCp_valid n (h2 n hn)⟩⟩

-- non-vacuity: a fresh target; a bidirectional syncer creates a namespace, a second start (new run id,
-- the old one second) reads it back and relabels, a third switches the recovery format, a plain syncer
-- with a slot-fitted name joins: four names, three distinct, all valid
private def starts4 : List Start :=
  [⟨[114,49], [], .bisync [1,2] false, true, none⟩, ⟨[114,50], [114,49], .bisync [3,4] false, true, some [114,49]⟩,
   ⟨[114,50], [114,49], .bisync [5,6] true, false, none⟩, ⟨[120], [], .plainSlot [97,98,122], true, none⟩]
example : (runStarts [] starts4).2 =
    [newCpName [1,2], newCpName [1,2], newCpName [5,6], slotCpName [97,98,122]] := by decide +kernel
example : ∀ s ∈ starts4, s.Ok := by
  intro s hs
  simp only [starts4, List.mem_cons, List.not_mem_nil, or_false] at hs
  rcases hs with rfl | rfl | rfl | rfl
  · trivial
  · trivial
  · trivial
  · show ∀ b ∈ [97,98,122], (97 : UInt8) ≤ b ∧ b ≤ 122
    decide
private theorem starts4_ok : ∀ s ∈ starts4, s.Ok := by
  intro s hs
  simp only [starts4, List.mem_cons, List.not_mem_nil, or_false] at hs
  rcases hs with rfl | rfl | rfl | rfl
  · trivial
  · trivial
  · trivial
  · show ∀ b ∈ [97,98,122], (97 : UInt8) ≤ b ∧ b ≤ 122
    decide
-- the theorem applied: the name the third start (format switch) ends up with is brace-free
example : Slot.lbrace ∉ newCpName [5,6] :=
  ((resolved_names_generated [] hashGen_nil starts4 starts4_ok).2 (newCpName [5,6]) (by decide +kernel)).2.2

/-- **Every request of every writer is in the vocabulary and is passed over.**
    Whatever a writer procedure of the inventory (`Writer`: coordinator flush /
    start-up clean-up, purge, namespace seed, mode save, clean-up of a retired
    namespace, checkpoint-hash and root-checkpoint writes) sends — with the
    generated name of its namespace — is a stand-alone request that an idle
    parser of the opposite link passes over: no unit, no error. -/
theorem tool_writers_in_vocabulary (pc : PCfg) (hf : FOK pc.filter) (w : Writer) (hw : w.Ok)
    (pst : PState) (hi : Idle pst) :
    ∀ bk ∈ w.requests, bk.Valid ∧ bk.Issued ∧
      ∃ pst', parseBlock pc pst (.single bk.toCmd) = ([], pst', none) ∧ Idle pst' ∧ pst'.seq = pst.seq := by
  intro bk hbk
  obtain ⟨hv, hiss⟩ := fromTool_ok bk (writer_requests_fromTool w hw bk hbk)
  exact ⟨hv, hiss, bookkeeping_skipped pc hf bk hv pst hi⟩

-- the clean-up of a retired namespace on a standalone target (one slot tag): three stand-alone requests —
-- the marker alone, the latest / index keys together, the two root keys
example : (Writer.cleanupNamespace (newCpName [1]) [] [slotTag 0]
    [[Gen.latestKey (newCpName [1]) (slotTag 0), Gen.commitIndexKey (newCpName [1]) (slotTag 0)]]).requests.map (·.toCmd.args.length) =
    [1, 2, 2] := by decide +kernel

/-- **No loop, over generated names and whole writer procedures.** As
    `no_loop_always`, for histories made of events AND whole runs of the writer
    procedures (`Step`), between two links whose names are generated ones.
    What this does and does not add, precisely:
    * the hypothesis `Slot.lbrace ∉ cp` of `no_loop_always` is REPLACED by the
      stronger `GenCp cp` — still a hypothesis on cpAB / cpBA here; it is
      discharged by `no_loop_resolved_names` below for names that starts resolve;
    * for single bookkeeping events `Valid ∧ Issued` is REPLACED by the stronger
      `FromTool` (generated name inside the request);
    * NEW: a whole run of a writer procedure needs only `Writer.Ok` (the
      generated name of its namespace; for a clean-up, chunks of latest / index /
      journal keys) — that each of its requests is a stand-alone request of the
      vocabulary with `Valid ∧ Issued` is derived (`writer_requests_fromTool`),
      not asked per request;
    * `Ev.toolRaw` stays excluded by hypothesis (`Step.Ok` of a raw event is
      `False`): that the TOOL never writes outside the vocabulary is the
      completeness of the inventory (source facts), not a theorem.
    Still asked of every event: `ClientOK`, snapshot commands with the first
    argument outside the namespace, expiry visits not on reserved keys. -/
theorem no_loop_generated_names (cfg : WCfg) (hf : FOK cfg.parser.filter) (cpAB cpBA : Bytes)
    (hAB : GenCp cpAB) (hBA : GenCp cpBA) (sa sb : Store) (na nb : Nat) (ha : NsTtl sa) (hb : NsTtl sb)
    (ss : List Step) (hok : ∀ s ∈ ss, s.Ok cfg) :
    let w := runWorld cfg (World.initWith cpAB cpBA sa sb na nb) (flattenSteps ss)
    (∀ t ∈ w.commits, isForeign t.1 = true) ∧
    (∀ s, ∀ tb ∈ (w.site s).stream, isForeign tb.tag = false → QuietB cfg.parser tb.block) ∧
    ((∀ s, ∀ t ∈ dueTags (w.site s).stream (w.link s).pos, t ∈ commitsAt w s.other) ∧
      ∀ s, ∀ p ∈ (w.link s).emitted, ∃ tb ∈ (w.site s).stream, tb.tag = p.1 ∧ p.2.unit.cmds = tb.block.body.map norm) ∧
    (∀ src e, (w.link src).halted = some e → ∃ be, e = .build be) :=
  no_loop_always cfg hf cpAB cpBA sa sb na nb (genCp_nobrace cpAB hAB) (genCp_nobrace cpBA hBA) ha hb
    (flattenSteps ss) (steps_good cfg ss hok)

/-- **The chain in one statement: names that starts resolve ⇒ no loop.** A
    target pair whose checkpoint hashes hold generated names (fresh targets in
    particular); the two syncers take the names ANY sequence of starts resolved
    at their targets (created, read back, switched); then the conclusions of
    `no_loop_always` hold with NO hypothesis on the names. -/
theorem no_loop_resolved_names (cfg : WCfg) (hf : FOK cfg.parser.filter)
    (hA hB : CpHash) (hgA : HashGen hA) (hgB : HashGen hB) (ssA ssB : List Start)
    (hsA : ∀ s ∈ ssA, s.Ok) (hsB : ∀ s ∈ ssB, s.Ok)
    (cpAB cpBA : Bytes) (hAB : cpAB ∈ (runStarts hB ssB).2) (hBA : cpBA ∈ (runStarts hA ssA).2)
    (sa sb : Store) (na nb : Nat) (ha : NsTtl sa) (hb : NsTtl sb) (ss : List Step) (hok : ∀ s ∈ ss, s.Ok cfg) :
    let w := runWorld cfg (World.initWith cpAB cpBA sa sb na nb) (flattenSteps ss)
    (∀ t ∈ w.commits, isForeign t.1 = true) ∧
    (∀ s, ∀ tb ∈ (w.site s).stream, isForeign tb.tag = false → QuietB cfg.parser tb.block) ∧
    ((∀ s, ∀ t ∈ dueTags (w.site s).stream (w.link s).pos, t ∈ commitsAt w s.other) ∧
      ∀ s, ∀ p ∈ (w.link s).emitted, ∃ tb ∈ (w.site s).stream, tb.tag = p.1 ∧ p.2.unit.cmds = tb.block.body.map norm) ∧
    (∀ src e, (w.link src).halted = some e → ∃ be, e = .build be) :=
  no_loop_generated_names cfg hf cpAB cpBA ((resolved_names_generated hB hgB ssB hsB).2 cpAB hAB).1
    ((resolved_names_generated hA hgA ssA hsA).2 cpBA hBA).1 sa sb na nb ha hb ss hok

/-- **Traffic under a prefix the output filter withholds is never forwarded** —
    the tool's high-availability registry and election keys
    (`/redis-gunyu/<group>/registry/<id>`, `…/election…`: `SET … EX`, `EXPIRE`,
    `DEL`, script effects; written by the tool to its INPUT Redis, i.e. into the
    stream its own link reads) and anything else whose every table-resolved key
    lies under `redis-gunyu-checkpoint…` or `/redis-gunyu…`: a stand-alone
    command or a MULTI/EXEC block of such commands — also the block Redis ≥ 7
    makes of a lazy expiry ahead of the SET that met it — produces no unit and
    no error, whatever expiries the keys carry. -/
theorem reserved_traffic_quiet (pc : PCfg) (hf : FOK pc.filter) (b : Block)
    (hb : ∀ c ∈ b.body, TxnSafe c ∧ ∃ idx, Filter.keyIndexes (lower c.name) c.args = some idx ∧
      ∀ i ∈ idx, FilterReserved (c.args.getD i []))
    (pst : PState) (hi : Idle pst) :
    ∃ pst', parseBlock pc pst b = ([], pst', none) ∧ Idle pst' ∧ pst'.seq = pst.seq := by
  have hext : ∀ c ∈ b.body, extOf pc c = [] := by
    intro c hc
    obtain ⟨_, idx, hidx, hres⟩ := hb c hc
    rcases extOf_cases pc c with h | ⟨a', hka, _⟩
    · exact h
    · rw [hf.allReserved _ _ idx hidx hres] at hka
      cases hka
  cases b with
  | single c =>
    exact (parseBlock_single_safe pc c pst hi (hb c (by simp [Block.body])).1).1 (Or.inl (hext c (by simp [Block.body])))
  | multi cs =>
    apply (parseBlock_multi_safe pc cs pst hi (fun c hc => (hb c (by simpa [Block.body] using hc)).1)).1
    right
    apply List.flatMap_eq_nil_iff.mpr
    intro c hc
    exact hext c (by simpa [Block.body] using hc)

-- the registry key refreshed after it had expired unreaped: Redis >= 7 propagates MULTI, DEL key, SET key id PXAT …, EXEC
private def regKey : Bytes := Gen.namespacePrefixKey ++ [47,103,47,114,101,103,47,49]     -- "/redis-gunyu/g/reg/1"
example : (parseBlock ⟨Filter.buildOutput {}, standaloneMode, defaultResolver⟩ {}
    (.multi [⟨wDel, [regKey]⟩, ⟨wSet, [regKey, [49], [80,88,65,84], [57,57]]⟩])).1 = [] := by decide +kernel

/-! ### the defect the inventory found (repaired in /repo b5f636f) -/

private def cp0 : Bytes := newCpName [171]
private def mk0 : Bytes := Gen.markerKey cp0 (slotTag 0)
private def lk0 : Bytes := Gen.latestKey cp0 (slotTag 0)
/-- the old namespace at the target a day after the link's last commit: the
    marker (expiry at 5) expired but not reaped at time 10, the latest record -/
private def oldNs : Store := [(mk0, ⟨.str, [], some 5⟩), (lk0, ⟨.hash, [[102]], none⟩)]
private def pc0 : PCfg := ⟨Filter.buildOutput {}, standaloneMode, defaultResolver⟩
private def redis7 : RedisCfg := ⟨false, true, true⟩

/-- **Why the marker must be alone in its DEL.** The clean-up request of the
    unrepaired code, `DEL <marker> <latest>`, met by a Redis ≥ 7 master while the
    marker has expired but is not reaped: the master propagates ONE MULTI/EXEC
    block `DEL marker, DEL marker latest` (the lazy expiry ahead of the command),
    which holds no marker SET — the opposite link's parser builds a unit from it
    (the echo). The repaired requests, `DEL <marker>` and `DEL <latest>`, leave
    two stand-alone blocks and the parser emits nothing. -/
theorem cleanup_marker_in_shared_del_echoes :
    (toBlocks redis7 false 1 (execCmds redis7 10 oldNs [⟨wDel, [mk0, lk0]⟩]).2 =
        [.multi [⟨wDel, [mk0]⟩, ⟨wDel, [mk0, lk0]⟩]]) ∧
    ((parseBlock pc0 {} (.multi [⟨wDel, [mk0]⟩, ⟨wDel, [mk0, lk0]⟩])).1.length = 1) ∧
    (toBlocks redis7 false 1 (execCmds redis7 10 oldNs [(Bookkeeping.markerDel cp0 (slotTag 0)).toCmd]).2 =
        [.single ⟨wDel, [mk0]⟩]) ∧
    ((parseBlock pc0 {} (.single ⟨wDel, [mk0]⟩)).1 = []) ∧
    ((parseBlock pc0 {} (.single (Bookkeeping.nsDel cp0 [lk0]).toCmd)).1 = []) := by
  decide +kernel

-- non-vacuity of `no_loop_generated_names`: A writes, the A→B link commits it (marker at B), a day passes at B,
-- the A→B syncer switches its recovery format — the namespace is seeded anew and the old one cleaned up by the
-- repaired procedure — and the B→A link reads everything the switch left in B's stream: nothing comes back
private def wcfg : WCfg :=
  { redisA := redis7, redisB := redis7, parser := pc0 }
private def incrN : Cmd := ⟨[105,110,99,114,98,121], [[110,48], [53]]⟩     -- incrby n0 5
private def arg0 : CommitArg := ⟨.latest, [123,125], [[102],[118]]⟩
private def cpA : Bytes := newCpName [1]
private def cpA' : Bytes := newCpName [2]
private def cpB : Bytes := newCpName [3]
private def switchSteps : List Step :=
  [.ev (.client .A false [incrN]), .ev (.link .A arg0), .ev (.tick .B 86400001),
   .writer .A (.seedNamespace cpA' (some ⟨[[111],[49]], .inl [[118],[49]]⟩) [[109],[112]]),
   .writer .A (.hashSet [114] cpA' false),
   .writer .A (.cleanupNamespace cpA [] [slotTag 0] [[Gen.latestKey cpA (slotTag 0), Gen.commitIndexKey cpA (slotTag 0)]]),
   .ev (.link .B arg0), .ev (.link .B arg0), .ev (.link .B arg0), .ev (.link .B arg0), .ev (.link .B arg0), .ev (.link .B arg0)]
private theorem incrN_ok : ClientOK wcfg.parser incrN where
  safe := ⟨by decide, by decide, by decide⟩
  notPing := by decide
  notPublish := by decide
  notBlack := by decide +kernel
  args := by
    intro a ha
    have : a = [110,48] ∨ a = [53] := by simpa [incrN] using ha
    rcases this with rfl | rfl <;> exact word_not_res _ (by decide)
private theorem switchSteps_ok : ∀ s ∈ switchSteps, s.Ok wcfg := by
  intro s hs
  simp only [switchSteps, List.mem_cons, List.not_mem_nil, or_false] at hs
  rcases hs with rfl | rfl | rfl | rfl | rfl | rfl | rfl | rfl | rfl | rfl | rfl | rfl
  · exact fun c hc => by rw [List.mem_singleton.mp hc]; exact incrN_ok
  · trivial
  · trivial
  · exact Or.inl ⟨[2], rfl⟩
  · trivial
  · refine ⟨Or.inl ⟨[1], rfl⟩, (by intro ch hch; cases hch), ?_⟩
    intro ch hch
    rw [List.mem_singleton.mp hch]
    refine ⟨by simp, ?_⟩
    intro k hk
    simp only [List.mem_cons, List.not_mem_nil, or_false] at hk
    rcases hk with rfl | rfl
    · exact ⟨slotTag 0, Or.inl rfl⟩
    · exact ⟨slotTag 0, Or.inr (Or.inl rfl)⟩
  all_goals trivial
-- the switch leaves five stand-alone blocks in B's stream behind the unit's block, one of them the
-- DEL of the expired marker (as Redis propagates it); B→A reads all six and commits nothing
example : ((runWorld wcfg (World.init cpA cpB) (flattenSteps switchSteps)).b.stream.map (·.block.body.length),
    (runWorld wcfg (World.init cpA cpB) (flattenSteps switchSteps)).ba.pos,
    (runWorld wcfg (World.init cpA cpB) (flattenSteps switchSteps)).commits) =
    ([3, 1, 1, 1, 1, 1, 1], 6, [(.foreign 0, .B)]) := by decide +kernel
example : ∀ t ∈ (runWorld wcfg (World.initWith cpA cpB [] [] 0 0) (flattenSteps switchSteps)).commits, isForeign t.1 = true :=
  (no_loop_generated_names wcfg default_filter_ok cpA cpB (Or.inl ⟨[1], rfl⟩) (Or.inl ⟨[3], rfl⟩) [] [] 0 0
    nsTtl_nil nsTtl_nil switchSteps switchSteps_ok).1
-- … and `tool_writers_in_vocabulary` applied to the clean-up run of that history: its marker DEL is passed over
example : ∃ pst', parseBlock pc0 {} (.single (Bookkeeping.markerDel cpA (slotTag 0)).toCmd) = ([], pst', none) ∧ Idle pst' ∧ pst'.seq = 1 :=
  (tool_writers_in_vocabulary pc0 default_filter_ok
    (.cleanupNamespace cpA [] [slotTag 0] [[Gen.latestKey cpA (slotTag 0), Gen.commitIndexKey cpA (slotTag 0)]])
    (by
      refine ⟨Or.inl ⟨[1], rfl⟩, (by intro ch hch; cases hch), ?_⟩
      intro ch hch
      rw [List.mem_singleton.mp hch]
      refine ⟨by simp, ?_⟩
      intro k hk
      simp only [List.mem_cons, List.not_mem_nil, or_false] at hk
      rcases hk with rfl | rfl
      · exact ⟨slotTag 0, Or.inl rfl⟩
      · exact ⟨slotTag 0, Or.inr (Or.inl rfl)⟩)
    {} ⟨rfl, rfl⟩ (.markerDel cpA (slotTag 0)) (by simp [Writer.requests])).2.2

end GunYu.Props.C13
