-- Root of the `GunYu` library: models, generated tables, property theorems.
import GunYu.Basic.Bytes
import GunYu.Model.Slot
import GunYu.Props.C11
