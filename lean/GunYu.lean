-- Root of the `GunYu` library. Property modules are built by name
-- (`lake build GunYu.Props.Cxx`), see /verif/check; the root imports only the
-- shared basics so that one unfinished module never blocks the others.
import GunYu.Basic.Bytes
