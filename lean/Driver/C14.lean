import Driver.Loop
import GunYu.Drive.C14
def main : IO Unit := Driver.run [GunYu.Drive.C14.handle]
