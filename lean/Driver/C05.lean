import GunYu.Drive.C05
def main : IO Unit := GunYu.Drive.C05.main
