import Driver.Loop
import GunYu.Drive.C11
def main : IO Unit := Driver.run [GunYu.Drive.C11.handle]
