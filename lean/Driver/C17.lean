import Driver.Loop
import GunYu.Drive.C17
import GunYu.Drive.C17Seq
import GunYu.Drive.C17Fresh
def main : IO Unit := Driver.run [GunYu.Drive.C17.handle, GunYu.Drive.C17Seq.handle, GunYu.Drive.C17Seq.handleP, GunYu.Drive.C17Fresh.handle]
