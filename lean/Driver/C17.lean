import Driver.Loop
import GunYu.Drive.C17
def main : IO Unit := Driver.run [GunYu.Drive.C17.handle]
