import Driver.Loop
import GunYu.Drive.C10
def main : IO Unit := Driver.run [GunYu.Drive.C10.handle]
