import Driver.Loop
import GunYu.Drive.C18
def main : IO Unit := Driver.run [GunYu.Drive.C18.handle]
