import Driver.Loop
import GunYu.Drive.C13
def main : IO Unit := Driver.run [GunYu.Drive.C13.handle]
