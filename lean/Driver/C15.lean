import Driver.Loop
import GunYu.Drive.C15
import GunYu.Drive.C15Etcd
import GunYu.Drive.C15Ticker
def main : IO Unit := Driver.run [GunYu.Drive.C15.handle, GunYu.Drive.C15Etcd.handle, GunYu.Drive.C15Ticker.handle]
