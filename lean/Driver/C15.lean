import Driver.Loop
import GunYu.Drive.C15
def main : IO Unit := Driver.run [GunYu.Drive.C15.handle]
