/-
  Line-protocol driver: one op per input line, one or more output lines per op
  (each op's output is terminated by nothing special — the harness knows how
  many lines each op yields, or ops emit a trailing "." line themselves).
  Core-only: nothing imported here may import Mathlib.
-/
import GunYu.Drive.C11

open GunYu

def handlers : List (List String → Option (List String)) :=
  [ Drive.C11.handle ]

def dispatch (line : String) : List String :=
  let toks := (line.trimAscii.toString.splitOn " ").filter (· ≠ "")
  if toks.isEmpty then [] else
  match handlers.findSome? (fun h => h toks) with
  | some out => out
  | none => ["bad-op"]

partial def loop (hin : IO.FS.Stream) (hout : IO.FS.Stream) : IO Unit := do
  let line ← hin.getLine
  if line.isEmpty then return ()
  for o in dispatch line do
    hout.putStrLn o
  loop hin hout

def main : IO Unit := do
  let hin ← IO.getStdin
  let hout ← IO.getStdout
  loop hin hout
  hout.flush
