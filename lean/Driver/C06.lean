import Driver.Loop
import GunYu.Drive.C06
import GunYu.Drive.C06Att
import GunYu.Drive.C06Gc
def main : IO Unit := Driver.run [GunYu.Drive.C06.handle, GunYu.Drive.C06Att.handle, GunYu.Drive.C06Gc.handle]
