import Driver.Loop
import GunYu.Drive.C06
def main : IO Unit := Driver.run [GunYu.Drive.C06.handle]
