import Driver.Loop
import GunYu.Drive.C06
import GunYu.Drive.C06Att
def main : IO Unit := Driver.run [GunYu.Drive.C06.handle, GunYu.Drive.C06Att.handle]
