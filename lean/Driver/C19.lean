import Driver.Loop
import GunYu.Drive.C19
def main : IO Unit := Driver.run [GunYu.Drive.C19.handle]
