import Driver.Loop
import GunYu.Drive.C16
def main : IO Unit := Driver.run [GunYu.Drive.C16.handle]
