import Driver.Loop
import GunYu.Drive.C12
def main : IO Unit := Driver.run [GunYu.Drive.C12.handle]
