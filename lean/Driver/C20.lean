import Driver.Loop
import GunYu.Drive.C20
def main : IO Unit := Driver.run [GunYu.Drive.C20.handle]
