import Driver.Loop
import GunYu.Drive.Sender
def main : IO Unit := Driver.run [GunYu.Drive.Sender.handle]
