import GunYu.Drive.C08
def main : IO Unit := GunYu.Drive.C08.main
