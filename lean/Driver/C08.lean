import Driver.Loop
import GunYu.Drive.C08
def main : IO Unit := Driver.run [GunYu.Drive.C08.handle]
