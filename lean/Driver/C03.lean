import Driver.Loop
import GunYu.Drive.C03
def main : IO Unit := Driver.run [GunYu.Drive.C03.handle]
