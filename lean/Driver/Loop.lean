/-
  Shared line-protocol loop: one op per input line; each handler returns the
  output lines for ops it recognises. Core-only (nothing here or in any Drive
  module may import Mathlib, so the driver links as a native executable).
-/
namespace Driver

abbrev Handler := List String → Option (List String)

def dispatch (handlers : List Handler) (line : String) : List String :=
  let toks := (line.trimAscii.toString.splitOn " ").filter (· ≠ "")
  if toks.isEmpty then [] else
  match handlers.findSome? (fun h => h toks) with
  | some out => out
  | none => ["bad-op"]

partial def loop (handlers : List Handler) (hin hout : IO.FS.Stream) : IO Unit := do
  let line ← hin.getLine
  if line.isEmpty then return ()
  for o in dispatch handlers line do
    hout.putStrLn o
  loop handlers hin hout

def run (handlers : List Handler) : IO Unit := do
  let hin ← IO.getStdin
  let hout ← IO.getStdout
  loop handlers hin hout
  hout.flush

end Driver
