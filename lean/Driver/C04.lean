import Driver.Loop
import GunYu.Drive.C04
def main : IO Unit := Driver.run [GunYu.Drive.C04.handle]
