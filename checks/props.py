"""Per-property configuration of the check pipeline."""

COMMON_TRUSTED = [
    "Lean 4.33 kernel; axioms limited to propext, Classical.choice, Quot.sound (audited per theorem by #audit_ns)",
    "go/ast extractor /verif/harness/extract (regenerated tables) and the Go correspondence harness under /verif/harness/overlay",
    "Go runtime/stdlib as used by the code under test",
]


import importlib, os, glob, sys
_here = os.path.dirname(os.path.abspath(__file__))
sys.path.insert(0, os.path.join(_here, "p"))

PROPS = {}
MANIFEST_TEXT = {}
for _f in sorted(glob.glob(os.path.join(_here, "p", "C*.py"))):
    _id = os.path.basename(_f)[:-3]
    _m = importlib.import_module(_id)
    PROPS[_id] = _m.PROP
    MANIFEST_TEXT[_id] = _m.MANIFEST

# properties not claimed, with the reason (none is "genuinely not applicable";
# a property whose check is not built yet gets a default reason in mkmanifest)
NOT_APPLICABLE = {}
