"""Per-property configuration of the check pipeline."""

COMMON_TRUSTED = [
    "Lean 4.33 kernel; axioms limited to propext, Classical.choice, Quot.sound (audited per theorem by #audit_ns)",
    "go/ast extractor /verif/harness/extract (regenerated tables) and the Go correspondence harness under /verif/harness/overlay",
    "Go runtime/stdlib as used by the code under test",
]


import importlib, os, glob, sys
_here = os.path.dirname(os.path.abspath(__file__))
sys.path.insert(0, os.path.join(_here, "p"))

PROPS = {}
MANIFEST_TEXT = {}
for _f in sorted(glob.glob(os.path.join(_here, "p", "C*.py"))):
    _id = os.path.basename(_f)[:-3]
    _m = importlib.import_module(_id)
    PROPS[_id] = _m.PROP
    MANIFEST_TEXT[_id] = _m.MANIFEST

# extension files checks/p/x_<ID>_<tag>.py (session 5: written by an owner of ANOTHER concern, e.g. the gofn
# translator specialist, so that two people never edit one configuration file): `EXTRA` is merged into
# PROPS[<ID>] - lists are appended (duplicates dropped), dicts updated, strings appended with a blank.
for _f in sorted(glob.glob(os.path.join(_here, "p", "x_C*_*.py"))):
    _name = os.path.basename(_f)[:-3]
    _id = _name.split("_")[1]
    if _id not in PROPS:
        continue
    _x = importlib.import_module(_name).EXTRA
    for _k, _v in _x.items():
        _cur = PROPS[_id].get(_k)
        if isinstance(_v, list):
            _cur = list(_cur or [])
            _cur += [e for e in _v if e not in _cur]
            PROPS[_id][_k] = _cur
        elif isinstance(_v, dict):
            _d = dict(_cur or {}); _d.update(_v); PROPS[_id][_k] = _d
        elif isinstance(_v, str):
            PROPS[_id][_k] = ((_cur + " ") if _cur else "") + _v
        else:
            PROPS[_id][_k] = _v

# properties not claimed, with the reason (none is "genuinely not applicable";
# a property whose check is not built yet gets a default reason in mkmanifest)
NOT_APPLICABLE = {}
