# session 5, gofn owner: definitions regenerated from /repo by the Go->Lean translator for C04
# (merged into PROPS["C04"] by checks/props.py; see reviews/gofn-s5.md)
EXTRA = {
    "gens": ["gofn_listpack"],
    "lean_modules": ["GunYu.Props.C04GenS5"],
    "required_theorems": [
        "GunYu.Props.C04.gen_lpNext_progress",
    ],
    "trusted": [
        "gofn (session 5): the translator's reading of Listpack.Next / lpEncodeBacklen (Basic/GoSem.lean + Basic/GoSemS5.lean); "
        "C03's and C04's correspondence harnesses run the real decoder on listpack payloads (incl. the damaged first bytes of D23)",
    ],
}
