EXPECTED_CALLS = [
    "handleError: Send code",
    "selfInspection: if len(runIds) == 0",
    "selfInspection: handleError pb.SyncResponse_FAILURE",
    "selfInspection: channel.RunId",
    "selfInspection: if !slices.Contains(runIds, channelRunId) || runIds[0] != channelRunId",
    "selfInspection: handleError pb.SyncResponse_CLEAR",
    "Handle: channel.StartPoint",
    "Handle: if followerRunId == \"\" || followerRunId == \"?\"",
    "Handle: Send pb.SyncResponse_META",
    "Handle: handleError pb.SyncResponse_FAULT",
    "Handle: if inputRunIds[0] != followerRunId",
    "Handle: handleError pb.SyncResponse_ERROR",
    "Handle: if followerOffset-sp.Offset > 0",
    "Handle: Send pb.SyncResponse_HANDOVER",
    "sendData: if !rl.channel.IsValidOffset(Offset{RunId: reqSp.RunId, Offset: reqSp.Offset})",
    "sendData: channel.IsValidOffset",
    "sendData: channel.NewReader",
    "sendData: handleError pb.SyncResponse_CLEAR",
    "sendData: if reader.RunId() != reqSp.RunId",
    "sendData: handleError pb.SyncResponse_ERROR",
    "sendData: Send pb.SyncResponse_META",
    "sendData: handleError pb.SyncResponse_FAULT",
    "sendData: Send pb.SyncResponse_CONTINUE",
    "sendData: handleError pb.SyncResponse_FAULT",
    "sendData: Send pb.SyncResponse_CONTINUE",
    "sendData: handleError pb.SyncResponse_FAULT",
    "Run: leaderSp, err = rf.protoHandShake(cli)",
    "Run: followerSp, err = rf.preSync(leaderSp)",
    "Run: stream, resp, err = rf.metaSync(followerSp, cli)",
    "Run: state = 5",
    "Run: state = 4",
    "Run: err = rf.rdbSync(followerSp, stream, resp)",
    "Run: followerSp, err = rf.channel.StartPoint([]string{leaderSp.RunId})",
    "Run: channel.StartPoint",
    "Run: state = 3",
    "Run: err = rf.aofSync(followerSp, stream, resp)",
    "Run: state = 1",
    "Run: state++",
    "Run: state = 1",
    "handleResp: if resp.GetCode() == pb.SyncResponse_FAILURE",
    "handleResp: if resp.GetCode() == pb.SyncResponse_ERROR",
    "handleResp: if resp.GetCode() == pb.SyncResponse_FAULT",
    "handleResp: if resp.GetCode() == pb.SyncResponse_HANDOVER",
    "handleResp: if resp.GetCode() == pb.SyncResponse_CLEAR",
    "handleResp: if len(args) == 1",
    "handleResp: channel.DelRunId",
    "protoHandShake: handleResp/2",
    "protoHandShake: handleResp/2",
    "protoHandShake: if sp.RunId == \"\"",
    "protoHandShake: handleResp/2",
    "preSync: channel.StartPoint",
    "preSync: if sp.IsInitial() || !sp.IsValid() || sp.RunId != leaderSp.RunId",
    "preSync: if local != \"\" && local != leaderSp.RunId",
    "preSync: channel.RunId",
    "preSync: channel.DelRunId",
    "preSync: channel.SetRunId",
    "preSync: if gap > 0",
    "preSync: if gap > 10*1024*1024",
    "preSync: channel.DelRunId",
    "preSync: channel.SetRunId",
    "metaSync: handleResp/3",
    "metaSync: handleResp/3",
    "rdbSync: channel.DelRunId",
    "rdbSync: channel.SetRunId",
    "rdbSync: channel.NewRdbWriter",
    "rdbSync: handleResp/2",
    "aofSync: channel.StartPoint",
    "aofSync: if left > sp.Offset && !sp.IsInitial()",
    "aofSync: channel.DelRunId",
    "aofSync: channel.SetRunId",
    "aofSync: channel.NewAofWritter",
    "aofSync: handleResp/2",
    "ServiceReplica: if role != SyncerRoleLeader || state != SyncerStateRun || leader == nil",
    "ServiceReplica: return ErrReplicaNoRunning",
    "ServiceReplica: return leader.Handle(wait, req, stream)"
]

EXPECTED_CMD = [
    "Sync: if sy.sync == nil || sy.wait.IsClosed()",
    "Sync: return status.Error(codes.Unavailable, fmt.Sprintf(\"syncer(%s) is not running\", addr))",
    "Sync: sy.wait.WgAdd(1)",
    "Sync: err := sy.sync.ServiceReplica(req, stream)",
    "Sync: if err != nil",
    "Sync: if errors.Is(err, syncer.ErrBreak)",
    "Sync: sc.getRunWait().Close(err)",
    "Sync: if errors.Is(err, syncer.ErrRole)",
    "Sync: sy.wait.Close(err)",
    "Sync: return err",
    "runCluster: runWait.Sleep(1 * time.Second)",
    "runCluster: if role == cluster.RoleLeader && time.Since(leaseFrom) >= sc.leaseHold()",
    "runCluster: if role == cluster.RoleLeader",
    "runCluster: err = sy.RunLeader()",
    "runCluster: if role == cluster.RoleFollower",
    "runCluster: err = sy.RunFollower(leader)",
    "runCluster: syncerWait.Close(err)",
    "runCluster: syncerWait.Close(fmt.Errorf(\"panic : %v\", i))",
    "runCluster: sc.clusterTicker(syncerWait, role, elect, cfg.Input.Address(), key, leaseFrom)",
    "runCluster: sy.Stop()",
    "runCluster: syncerWait.WgWait()",
    "runCluster: err = syncerWait.Error()",
    "runCluster: if role == cluster.RoleLeader",
    "runCluster: terr := elect.Resign(ctx)",
    "runCluster: if errors.Is(err, syncer.ErrLeaderHandover)",
    "runCluster: runWait.Sleep(10 * time.Second)",
    "runCluster: if errors.Is(err, syncer.ErrLeaderTakeover)",
    "runCluster: time.Sleep(1 * time.Second)",
    "runCluster: if errors.Is(err, syncer.ErrBreak)",
    "runCluster: time.Sleep(1 * time.Second)"
]

# the shape of the runCluster state machine (lean/GunYu/Model/Handover.lean is its transcription)
EXPECTED_RUNCLUSTER = [
    "runCluster: usync.SafeGo(…)",
    "runCluster: runWait.Close(syncer.ErrRestart)",
    "runCluster: return",
    "runCluster: for !runWait.IsClosed()",
    "runCluster: if err != nil",
    "runCluster: runWait.Close(syncer.ErrRestart)",
    "runCluster: return",
    "runCluster: runWait.Close(syncer.ErrRedisTypologyChanged)",
    "runCluster: return",
    "runCluster: if role == cluster.RoleCandidate",
    "runCluster: newRole, err := sc.clusterCampaign(runWait.Context(), elect)",
    "runCluster: if err != nil",
    "runCluster: runWait.Close(syncer.ErrRestart)",
    "runCluster: break",
    "runCluster: role = newRole",
    "runCluster: if role == cluster.RoleCandidate",
    "runCluster: runWait.Sleep(1 * time.Second) [candidate 1000 ms]",
    "runCluster: continue",
    "runCluster: if role == cluster.RoleLeader && time.Since(leaseFrom) >= sc.leaseHold()",
    "runCluster: role = cluster.RoleCandidate",
    "runCluster: continue",
    "runCluster: sy := syncer.NewSyncer(cfg)",
    "runCluster: syncerWait := usync.NewWaitCloserFromParent(runWait, nil)",
    "runCluster: sc.setSyncer(cfg.Input.Address(), sy, syncerWait)",
    "runCluster: usync.SafeGo(…)",
    "runCluster: if role == cluster.RoleLeader",
    "runCluster: err = sy.RunLeader()",
    "runCluster: if role == cluster.RoleFollower",
    "runCluster: leader, err = elect.Leader(syncerWait.Context())",
    "runCluster: if err == nil",
    "runCluster: err = sy.RunFollower(leader)",
    "runCluster: if err != cluster.ErrNoLeader",
    "runCluster: err = errors.Join(err, syncer.ErrBreak)",
    "runCluster: syncerWait.Close(err)",
    "runCluster: syncerWait.Close(fmt.Errorf(\"panic : %v\", i))",
    "runCluster: sc.clusterTicker(syncerWait, role, elect, cfg.Input.Address(), key, leaseFrom)",
    "runCluster: sy.Stop()",
    "runCluster: syncerWait.WgWait()",
    "runCluster: err = syncerWait.Error()",
    "runCluster: if role == cluster.RoleLeader",
    "runCluster: terr := elect.Resign(ctx)",
    "runCluster: if terr != nil",
    "runCluster: err = errors.Join(err, terr, syncer.ErrBreak)",
    "runCluster: role = cluster.RoleCandidate",
    "runCluster: sc.delSyncer(cfg.Input.Address())",
    "runCluster: if err != nil",
    "runCluster: if errors.Is(err, syncer.ErrLeaderHandover)",
    "runCluster: runWait.Sleep(10 * time.Second) [handover 10000 ms]",
    "runCluster: if errors.Is(err, syncer.ErrLeaderTakeover)",
    "runCluster: time.Sleep(1 * time.Second) [takeover 1000 ms]",
    "runCluster: if errors.Is(err, syncer.ErrBreak)",
    "runCluster: runWait.Close(err)",
    "runCluster: return",
    "runCluster: time.Sleep(1 * time.Second) [other 1000 ms]",
    "clusterCampaign: newRole, err := elect.Campaign(ctx)",
    "clusterRenew: err := elect.Renew(ctx)",
    "clusterTicker: if wait.IsClosed()",
    "clusterTicker: return",
    "clusterTicker: ticker := time.NewTicker(config.GetSyncerConfig().Cluster.LeaseRenewInterval)",
    "clusterTicker: if role == cluster.RoleLeader",
    "clusterTicker: wait.Close(errors.Join(cluster.ErrNotLeader, syncer.ErrBreak))",
    "clusterTicker: case <-wait.Context().Done():",
    "clusterTicker: return",
    "clusterTicker: case <-ticker.C:",
    "clusterTicker: if role == cluster.RoleLeader",
    "clusterTicker: util.Retry(renew, 2)",
    "clusterTicker: return sc.clusterRenew(wait.Context(), elect)",
    "clusterTicker: if err != nil",
    "clusterTicker: return false, err",
    "clusterTicker: if role == cluster.RoleFollower",
    "clusterTicker: role, err := sc.clusterCampaign(wait.Context(), elect)",
    "clusterTicker: if err != nil",
    "clusterTicker: return false, err",
    "clusterTicker: if role == cluster.RoleLeader",
    "clusterTicker: return true, nil",
    "clusterTicker: return false, nil",
    "clusterTicker: case <-wait.Context().Done():",
    "clusterTicker: return",
    "clusterTicker: case res = <-result:",
    "clusterTicker: if res.err != nil",
    "clusterTicker: wait.Close(errors.Join(res.err, syncer.ErrBreak))",
    "clusterTicker: if res.changed",
    "clusterTicker: wait.Close(nil)",
    "clusterTicker: if res.err == nil && lease != nil",
    "NewSyncer: sy.channel = NewChannel(cfg.Channel, cfg.Input.Address())",
    "NewSyncer: sy.wait = usync.NewWaitCloser(nil)",
    "syncer.Stop: wait.Close(nil)",
    "syncer.run: defer … channel.Close()",
    "syncer.runLeader: leader.Start()",
    "syncer.runLeader: usync.SafeGo(func() { defer wait.WgDone() err := input.Run() wait.Close(err) }, func(i interface{}) { wait.Close(fmt.Errorf(\"panic: %v\", i)) })",
    "syncer.runLeader: go input.Run",
    "syncer.runLeader: <-wait.Done()",
    "syncer.runLeader: leader.Stop()",
    "syncer.runLeader: input.Stop()",
    "syncer.runLeader: output.Close()",
    "syncer.runLeader: wait.WgWait()",
    "ReplicaFollower.Run: if errors.Is(err, ErrBreak) || errors.Is(err, ErrRole)",
    "ReplicaFollower.Run:   rf.wait.Sleep(2 * time.Second)",
    "ReplicaFollower.Run:   return err"
]

EXPECTED_CODES = ["CLEAR=3", "CONTINUE=1", "ERROR=11", "FAILURE=12", "FAULT=10", "HANDOVER=2", "META=0"]

PROP = {
    "lean_modules": ["GunYu.Props.C16", "GunYu.Props.C16Handover"],
    "audit_namespaces": ["GunYu.Props.C16"],
    "required_theorems": [
        "GunYu.Props.C16.follower_prefix_of_leader",
        "GunYu.Props.C16.follower_prefix_of_leader_runs",
        "GunYu.Props.C16.others_untouched",
        "GunYu.Props.C16.follower_contiguous",
        "GunYu.Props.C16.unjoinable_discards",
        "GunYu.Props.C16.unjoinable_discards_session",
        "GunYu.Props.C16.gap_discards",
        "GunYu.Props.C16.gap_discards_session",
        "GunYu.Props.C16.collected_discards",
        "GunYu.Props.C16.clear_deletes",
        "GunYu.Props.C16.clear_deletes_any",
        "GunYu.Props.C16.resynchronises",
        "GunYu.Props.C16.resynchronises_keeps_copy",
        "GunYu.Props.C16.ahead_gets_handover",
        "GunYu.Props.C16.handover_leader_steps_down",
        # runCluster, from the offer to the new leader (Props/C16Handover.lean)
        "GunYu.Props.C16.no_two_senders",
        "GunYu.Props.C16.resign_after_stop",
        "GunYu.Props.C16.silent_until_campaign_won",
        "GunYu.Props.C16.old_leader_waits_out_its_lease",
        "GunYu.Props.C16.old_leader_silent_under_old_lease",
        "GunYu.Props.C16.resign_frees",
        "GunYu.Props.C16.campaign_outcome",
        "GunYu.Props.C16.offered_becomes_leader",
        "GunYu.Props.C16.handover_completes",
        "GunYu.Props.C16.follower_promoted_by_ticker",
        "GunYu.Props.C16.promoted_cache_intact",
        # counter-witnesses (decide) to the statements without their hypotheses
        "GunYu.Props.C16.two_senders_if_stop_outlives_lease",
        "GunYu.Props.C16.old_leader_back_if_lease_longer_than_pause",
        "GunYu.Props.C16.old_leader_back_if_restarted",
        "GunYu.Props.C16.memory_cache_lost_at_promotion",
    ],
    "expected_facts": {"c16_gap_threshold": 10485760, "c16_codes": EXPECTED_CODES, "c16_calls": EXPECTED_CALLS, "c16_cmd": EXPECTED_CMD,
                       "c16_runcluster": EXPECTED_RUNCLUSTER},
    "harness": [{"name": "C16", "pkg": "./syncer/", "test": "TestVerifC16",
                 "timeout_quick": "30m", "timeout_thorough": "60m"},
                {"name": "C16cmd", "pkg": "./cmd/", "test": "TestVerifC16Cmd",
                 "timeout_quick": "30m", "timeout_thorough": "60m"},
                {"name": "C16ho", "pkg": "./cmd/", "test": "TestVerifC16Handover",
                 "timeout_quick": "30m", "timeout_thorough": "60m"}],
    "driver": "drv_C16",
    "rule": "one op per pass of the REAL ReplicaFollower.Run (handshake .. first error; Run's error pauses are intercepted through its WaitCloser, "
            "its logged error gives the outcome) talking over real gRPC on loopback (generated client/server code, real serialisation) to the REAL "
            "syncer.ServiceReplica -> ReplicaLeader.Handle/sendData, on two real channels (StoreChannel on t.TempDir() with LogSize 40/64/200/1MiB so "
            "that segments rotate, MemoryChannel). The harness owns the server-side stream wrapper (counts, re-chunks CONTINUE into pieces of "
            "1..1/3/17/100 bytes, fails every Send after `cut` messages) and wrappers of the leader's Input and Channel that let the leader's own "
            "input act between the reads of one request (gate+selfInspection | input ids+StartPoint | IsValidOffset | NewReader): PSYNC2 fail-over "
            "(ids, relabel, new master's bytes), full resynchronisation under another id (setRunIds, DelRunId, SetRunId, snapshot+stream, also with "
            "overlapping offsets), growth / collection / new snapshot, performed with the real channel operations in syncer/input.go's order. "
            "Generated pairs: leader {nothing yet, snapshot only, snapshot+stream, stream only, writer open/closed, not started, not leader (gate), "
            "no input ids, input already on a newer id (CLEAR), two input ids, tail appended while a stream reader is open}; follower {nothing, id "
            "adopted but empty, same id: prefix / equal / ahead (also by 1-2 bytes) / collected at the leader / ending at the leader's first offset "
            "-1,0,+1 / 10 MiB -1,0,+1 behind / anywhere, with and without snapshot; another id current (below / within / above the leader's range); "
            "disk: directories of both ids with either or none current, fresh process}. Every pair runs uncut, then cut after EVERY message (sample "
            "of 6 when more; 40 thorough), quiescent or abrupt (bytes still in the follower's pipe are lost; the observed number is an op input, and a "
            "loss in a quiescent cut is a violation), then the SAME Run goes on against later leader states (or a new process after a restart); two "
            "more sessions per pair with the leader's input acting mid-session; two with the leader STOPPED in the middle of a transfer (its syncer's "
            "wait closed after 1-4 CONTINUE messages: clean end of stream or FAULT, both observed and passed to the model); an ahead follower "
            "against a leader whose input has moved to another id (CLEAR before the ahead test); per run 2 (6 thorough) transfers of 1.1-1.5 MiB "
            "(larger than the follower's pipe) cut abruptly and continued. Second harness C16cmd: the real (*SyncerCmd).Sync (cmd/syncer_api.go) "
            "around the real ServiceReplica on a real memory channel, leader states x requests (handshake, behind, equal, ahead by 1 and more, "
            "other id): first answer and whether Sync stopped this input's syncer (role error) or all (break error) compared with the model's "
            "syncReact; monitor HANDOVER <=> the leader's syncer is stopped with ErrLeaderHandover; end to end: the real Run of an ahead follower "
            "over gRPC against the registered SyncerCmd ends with ErrLeaderTakeover, the leader's syncer wait closed, the follower's cache intact. "
            "Third harness C16ho: the REAL (*SyncerCmd).runCluster of TWO instances in one process through the whole hand-over — A campaigns, "
            "leads (real NewSyncer/RunLeader: real RedisInput PSYNC from a replication-source double, real RedisOutput to the target double, "
            "checkpoint written), B joins holding more (a disk cache filled beforehand), follows (real RunFollower/ReplicaFollower.Run over real "
            "gRPC to A's real SyncerCmd.Sync -> ServiceReplica -> HANDOVER), A's wait is closed, ticker returns, sy.Stop, Resign, 10 s pause; B: "
            "take-over error after Run's 2 s, sy.Stop, 1 s, Campaign (or its ticker's Campaign first), NewSyncer on the same directory, RunLeader "
            "resuming the source behind the end of ITS cache, feeding the target what A had not; A comes back as B's follower and catches up. "
            "Lease: an in-memory double of pkg/cluster's election (Campaign = take when missing / expired / mine with a fresh TTL, Renew, Resign "
            "= delete when mine, Leader) with scripted failures; every call is recorded with its instant and with its call site (loop or "
            "clusterTicker, read from the call stack). Scenarios: Resign succeeds; Resign fails once (lease 9 s: the follower's first campaign "
            "loses, its ticker wins when the key has run out); thorough: Resign fails and the lease (25 s) outlives the 10 s pause (the old "
            "leader is back, offers again, the second hand-over completes). The recorded calls become one `hand` op: the Lean state machine "
            "(Model/Handover.lean) is run on the same events and must give the same answer to every call (won/lost/failed, ok/stop, offer "
            "accepted, a loop campaign that comes before the model's pause is over is `early`) and the same final lease holder, roles, caches "
            "and number of senders. Monitors independent of the model, none depending on a wait: at the instant of every Resign the instance's "
            "leader syncer is not running and at the instant a Campaign is won no OTHER instance's leader syncer is running (goroutine labels "
            "inherited from each instance's runCluster, read from the goroutine profile inside the lease call: a goroutine inside "
            "(*syncer).runLeader = input and output open); old leader's next campaign >= 10 s after the Resign that followed its offer; "
            "offered follower's loop campaign >= 3 s after the offer unless its ticker won first; the promoted follower resumes the source "
            "with PSYNC <same id> <end of its cache + 1> and its cache stays contiguous and never shrinks. Conditions waited for (A fed and "
            "checkpointed before B joins; B leads, A caught up, target fed) have a limit of 120 s and are a broken tie when they do not come. "
            "Compared with the Lean model: every message the follower read (code, "
            "id, aof, offset, size, data), the outcome (stage, class) and the follower's store afterwards (disk: every run-id directory parsed from "
            "the files; memory: what the channel serves). Monitors independent of the model: every byte/snapshot under an id is a byte some state of "
            "the leader held under the same (id, offset) or was stored there before; segments contiguous, files and channel API agree, offered ranges "
            "readable; ahead follower => HANDOVER and untouched cache (untouched also when cut earlier); when more than 2% of the cases cannot be built the "
            "harness itself fails (a broken tie, not a verdict about the property); classes that did not occur in a run are evidence counters "
            "(class_not_generated_*); a quiescent cut is made when the follower's channel reports every sent byte as stored (explicit condition, 120 s "
            "hard limit; if the limit is hit the cut counts as abrupt). corpus/C16: defect witnesses and the boundary states. "
            "distinct_nontrivial = distinct (backend, relation, outcome, #messages, leader shape, static?) with at least two CONTINUE chunks",
    "trusted": ["grpc-go on loopback TCP between the real Run and the real ServiceReplica (no fake transport); the harness's stream wrapper, "
                "WaitCloser/Logger wrappers of the follower and Input/Channel wrappers of the leader",
                "history oracle of the harness (two run ids differ at every offset) and its file parser for the disk backend",
                "C16ho: the lease double (semantics of pkg/cluster/redis's election scripts: one key, value = the instance's peer address, TTL; "
                "not etcd's), the replication-source double (INFO/ROLE/REPLCONF/PSYNC with FULLRESYNC and CONTINUE), pkg/vfdoubles.Target behind "
                "a loopback listener, the goroutine profile with pprof labels as the observation of 'leader syncer running'"],
    "assumptions": ["regenerated: preSync's gap threshold (Gen/ReplicaConsts.lean, used by the model); compared with expectation: response code numbers "
                    "and the ordered list of channel calls / Sends / handleResp arities / guarding conditions of every ReplicaLeader and "
                    "ReplicaFollower method, Run's state assignments and ServiceReplica's gate (a change means the model has to be re-read)",
                    "model tied by correspondence (hand-written transcription of syncer/replica.go, syncer_replica.go, channel.go, pkg/store "
                    "SetRunId/DelRunId/VerifyRunId, memory_channel.go StartPoint/SetRunId/DelRunId)",
                    "the cache a leader's reader is opened on is a faithful copy of the source's history of the channel's run id (C05/C06/C08); the "
                    "leader may change between and inside requests (four read points per request), but a stream reader that is already open is "
                    "modelled as serving its own run id to the end (plus the tail appended meanwhile, or stopped with the leader): that an id "
                    "switch of the channel closes what is open on the old index is C05's (fixed in /repo 2df2ed4; memory backend 8590cdd)",
                    "hypothesis hq of the theorems, not discharged: the leader's channel run id is never the literal \"?\" (the input sets it from "
                    "the source's 40-hex replication id)",
                    "consequence of the D16 repair, intended: after a PSYNC2 fail-over of the source the LEADER relabels its cache (its histories "
                    "join) while every follower deletes its whole copy and restarts at the leader's newest offset without a snapshot; a follower "
                    "promoted soon afterwards holds a cache that starts after the target's resume position (a full sync there), and HANDOVER is "
                    "not reachable across a fail-over; likewise an AHEAD follower that meets a leader whose input has already moved to another id "
                    "gets CLEAR ('wait a moment' precedes the ahead test) and deletes its copy (theorem clear_deletes_any, counter "
                    "ahead_answered_clear) — that copy belongs to the superseded id and would be dropped by the next preSync anyway",
                    "resynchronises / AtLeaderTip means: positioned at the leader's end, holding what arrived since — the leader's older bytes "
                    "only where the follower's own copy joined (resynchronises_keeps_copy); after a discard the follower holds no snapshot and "
                    "nothing older than the leader's newest offset at that moment",
                    "cache contents at the abstraction of C05's Log: one contiguous byte range + optional snapshot per run id (contiguity of the "
                    "store is by this representation plus the theorem that the stream writer is only opened at its end; the harness's file parser "
                    "and the API/file comparison check it on the real store); segment rotation, reference counts and the collector are C05's",
                    "the follower's store is observed while Run pauses after its error, after it re-reads its directory (StartPoint -> "
                    "VerifyRunId), as every next user of the channel does",
                    "messages the follower does not read (after the first message of a handshake, after a non-META first answer — e.g. what Handle "
                    "goes on sending after selfInspection's CLEAR) are not part of the compared trace",
                    "model of the repaired behaviour: D16 (preSync relabelling), CLEAR answer taken as snapshot announcement, reader of another run id "
                    "streamed by sendData (all three fixed in /repo), D14 (C05)",
                    "runCluster model (Model/Handover.lean): hand-written transcription of cmd/syncer.go runCluster / clusterTicker, syncer.run's "
                    "deferred channel.Close, NewSyncer's new channel, ReplicaFollower.Run's pause before a role error; pinned by the source fact "
                    "c16_runcluster (every statement of the loop that moves the role, creates/stops a syncer, calls the election or pauses; the "
                    "ticker; runLeader's closing order) and the three pauses are regenerated into Gen/ReplicaConsts.lean (the model's defaults); "
                    "any number of instances, one lease, events = every call answered or failed, calls landing late, syncers ending on their "
                    "own, crashes, restarts, time",
                    "hypothesis `timely` of no_two_senders (guarded clock; counter-witness two_senders_if_stop_outlives_lease): the lease of an "
                    "instance that is still sending does not run out — the leader renews in time or stops itself `leaseHold` after its last "
                    "successful renewal (C15, fixed in /repo 8b531f9) AND sy.Stop()/WgWait complete within what is left of the lease (one renew "
                    "interval). The second half is not verified anywhere: a leader whose output blocks in a write for longer than that is "
                    "still `sending` when another instance wins the key",
                    "hypothesis ttl <= 10 s pause of old_leader_waits_out_its_lease / old_leader_silent_under_old_lease, needed only when "
                    "Resign FAILS (counter-witness old_leader_back_if_lease_longer_than_pause; cluster.leaseTimeout may be set up to 600 s, the "
                    "default 10 s is exactly at the bound): with a longer lease the old leader re-acquires its own unexpired key after the "
                    "pause, leads again and offers again — confirmed on the real runCluster (thorough scenario, lease 25 s: campaign won at "
                    "10.16 s, second offer at 12.15 s, hand-over completed at 13.15 s). Safety is not affected (no two senders, the ahead "
                    "follower is never overwritten, nothing is lost); the hand-over is delayed for as long as Resign keeps failing (the "
                    "source's own comment: '@TODO maybe endless in some corner cases'). Also assumed there: the old leader's process is not "
                    "restarted during the pause (counter-witness old_leader_back_if_restarted: the key carries the address, not the process) "
                    "and no Renew that was sent before the stop reaches the store after the Resign has been answered (the model lets a late "
                    "Renew extend the key only until then; the harness would show a later one as a difference)",
                    "(4) is for the disk backend (promoted_cache_intact): a memory channel is emptied when the follower's syncer ends "
                    "(memory_cache_lost_at_promotion) — the new leader then resumes from the target's checkpoint or resynchronises in full, "
                    "nothing is lost but the advantage. What the new leader's INPUT does with the intact cache is C06's rule (syncMeta): it "
                    "resumes behind the cache's end when the target's checkpoint lies within the cache; when the target holds no checkpoint "
                    "yet (the old leader was stopped before it wrote one — observed in the harness when B joins at once) it resynchronises "
                    "in full and replaces the cache. The harness therefore lets A write its checkpoint before B joins",
                    "C16ho runs on the wall clock (loopback sockets and the disk reader's sleep under its mutex rule out testing/synctest); "
                    "the model's time is the recorded instants in ms; no verdict depends on a wait (orders of calls and LOWER bounds of "
                    "pauses only). The election config of the process (leaseTimeout 9 s, renew 1 s) is shared by the scenarios; the lease "
                    "double's TTL is per scenario. Break errors (a failed Campaign, a failed Renew) end runCluster and restart the whole "
                    "command: modelled (pause 0 / restart), not executed",
                    "not generated: the follower's own Stop() in the middle of a transfer; back-pressure of the follower's pipe is not forced "
                    "(transfers above the pipe size are generated, but the real writers drain it quickly); the syncer's channel shared between the "
                    "follower and leader roles of one process (runFollower/RunLeader on one channel object) — the harness owns one channel per role"],
    "partial": [],
}

MANIFEST = {
    "text": "Lean theorems over ALL histories, leader states (changing between and inside requests), follower stores, chunkings, interruption "
            "points and sequences of sessions/restarts/own appends: whatever the follower holds under a run id stays byte-identical to that id's "
            "history (per id: bytes never move between ids; no directory of another id is created or changed), its stream writer is only ever "
            "opened at the end of its data, a copy under another id / collected at the leader / more than 10 MiB behind is discarded, a CLEAR "
            "answer deletes, an uninterrupted session ends with the follower exactly at the leader's end (resynchronises), an ahead follower gets "
            "HANDOVER and keeps its cache. The model is tied to the real ReplicaFollower.Run and the real ServiceReplica/Handle talking over real "
            "gRPC on both channel backends by differential correspondence of every message read, outcome and resulting store, cut after every "
            "message, with the leader's own input acting between Handle's reads; independent monitors check faithfulness/contiguity directly. "
            "From the offer to the new leader: cmd/syncer.go runCluster of every instance as a state machine over (phase, lease, pauses, cache), "
            "theorems over ALL event lists (any number of instances, every call succeeding or failing, late calls, crashes, restarts): whoever "
            "sends holds the unexpired lease, so no two instances ever send; Resign only after the stop; a stopped leader is silent until it wins "
            "a campaign, and after a hand-over not before its old key has expired (lease <= the 10 s pause); the offered follower leads after "
            "2 s + 1 s with exactly the cache it held (disk), unless the key is somebody else's — then that one leads alone —, or earlier "
            "through its ticker; decide-checked counter-witnesses for each hypothesis. Tied by source facts and by running the real "
            "runCluster of two instances through complete hand-overs (Resign ok / failing / lease longer than the pause) against the model.",
    "note": "trusted: Lean kernel (propext, Classical.choice, Quot.sound only), grpc-go, harness wrappers and oracle; model hand-written "
            "(correspondence); a leader's cache assumed faithful to its channel id, open readers assumed to serve their own id (C05)",
    "technique": "Lean 4 proof (invariant over the session function, induction on metaSync rounds and on step lists, progress by evaluation; lease invariant over the runCluster machine) + differential correspondence + monitors",
}
