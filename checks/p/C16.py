EXPECTED_CALLS = [
    "handleError: Send code",
    "selfInspection: if len(runIds) == 0",
    "selfInspection: handleError pb.SyncResponse_FAILURE",
    "selfInspection: channel.RunId",
    "selfInspection: if !slices.Contains(runIds, channelRunId) || runIds[0] != channelRunId",
    "selfInspection: handleError pb.SyncResponse_CLEAR",
    "Handle: channel.StartPoint",
    "Handle: if followerRunId == \"\" || followerRunId == \"?\"",
    "Handle: Send pb.SyncResponse_META",
    "Handle: handleError pb.SyncResponse_FAULT",
    "Handle: if inputRunIds[0] != followerRunId",
    "Handle: handleError pb.SyncResponse_ERROR",
    "Handle: Send pb.SyncResponse_HANDOVER",
    "sendData: channel.IsValidOffset",
    "sendData: channel.NewReader",
    "sendData: handleError pb.SyncResponse_CLEAR",
    "sendData: if reader.RunId() != reqSp.RunId",
    "sendData: handleError pb.SyncResponse_ERROR",
    "sendData: Send pb.SyncResponse_META",
    "sendData: handleError pb.SyncResponse_FAULT",
    "sendData: ioReader.Read",
    "sendData: if id != reqSp.RunId",
    "sendData: channel.RunId",
    "sendData: handleError pb.SyncResponse_ERROR",
    "sendData: Send pb.SyncResponse_CONTINUE",
    "sendData: handleError pb.SyncResponse_FAULT",
    "sendData: Send pb.SyncResponse_CONTINUE",
    "sendData: handleError pb.SyncResponse_FAULT",
    "Run: leaderSp, err = rf.protoHandShake(cli)",
    "Run: followerSp, err = rf.preSync(leaderSp)",
    "Run: stream, resp, err = rf.metaSync(followerSp, cli)",
    "Run: state = 5",
    "Run: state = 4",
    "Run: err = rf.rdbSync(followerSp, stream, resp)",
    "Run: followerSp, err = rf.channel.StartPoint([]string{leaderSp.RunId})",
    "Run: channel.StartPoint",
    "Run: if !followerSp.IsInitial() && followerSp.RunId == leaderSp.RunId",
    "Run: state = 3",
    "Run: err = rf.aofSync(followerSp, stream, resp)",
    "Run: state = 1",
    "Run: state++",
    "Run: state = 1",
    "handleResp: if resp.GetCode() == pb.SyncResponse_FAILURE",
    "handleResp: if resp.GetCode() == pb.SyncResponse_ERROR",
    "handleResp: if resp.GetCode() == pb.SyncResponse_FAULT",
    "handleResp: if resp.GetCode() == pb.SyncResponse_HANDOVER",
    "handleResp: if resp.GetCode() == pb.SyncResponse_CLEAR",
    "handleResp: if len(args) == 1",
    "handleResp: channel.DelRunId",
    "protoHandShake: handleResp/2",
    "protoHandShake: handleResp/2",
    "protoHandShake: if sp.RunId == \"\"",
    "protoHandShake: handleResp/2",
    "preSync: channel.StartPoint",
    "preSync: if sp.IsInitial() || !sp.IsValid() || sp.RunId != leaderSp.RunId",
    "preSync: if local != \"\" && local != leaderSp.RunId",
    "preSync: channel.RunId",
    "preSync: channel.DelRunId",
    "preSync: channel.SetRunId",
    "preSync: channel.DelRunId",
    "preSync: channel.SetRunId",
    "metaSync: handleResp/3",
    "metaSync: handleResp/3",
    "rdbSync: channel.DelRunId",
    "rdbSync: channel.SetRunId",
    "rdbSync: channel.NewRdbWriter",
    "rdbSync: handleResp/2",
    "aofSync: channel.StartPoint",
    "aofSync: channel.DelRunId",
    "aofSync: channel.SetRunId",
    "aofSync: channel.NewAofWritter",
    "aofSync: handleResp/2",
    "ServiceReplica: if role != SyncerRoleLeader || state != SyncerStateRun || leader == nil",
    "ServiceReplica: return ErrReplicaNoRunning",
    "ServiceReplica: return leader.Handle(wait, req, stream)"
]

EXPECTED_CMD = [
    "Sync: if sy.sync == nil || sy.wait.IsClosed()",
    "Sync: return status.Error(codes.Unavailable, fmt.Sprintf(\"syncer(%s) is not running\", addr))",
    "Sync: sy.wait.WgAdd(1)",
    "Sync: err := sy.sync.ServiceReplica(req, stream)",
    "Sync: if err != nil",
    "Sync: if errors.Is(err, syncer.ErrBreak)",
    "Sync: sc.getRunWait().Close(err)",
    "Sync: if errors.Is(err, syncer.ErrRole)",
    "Sync: sy.wait.Close(err)",
    "Sync: return err",
    "runCluster: runWait.Sleep(1 * time.Second)",
    "runCluster: if role == cluster.RoleLeader && time.Since(leaseFrom) >= sc.leaseHold()",
    "runCluster: if role == cluster.RoleLeader",
    "runCluster: err = sy.RunLeader()",
    "runCluster: if role == cluster.RoleFollower",
    "runCluster: err = sy.RunFollower(leader)",
    "runCluster: syncerWait.Close(err)",
    "runCluster: syncerWait.Close(fmt.Errorf(\"panic : %v\", i))",
    "runCluster: sc.clusterTicker(syncerWait, role, elect, cfg.Input.Address(), key, leaseFrom)",
    "runCluster: sy.Stop()",
    "runCluster: syncerWait.WgWait()",
    "runCluster: err = syncerWait.Error()",
    "runCluster: if role == cluster.RoleLeader",
    "runCluster: terr := elect.Resign(ctx)",
    "runCluster: if errors.Is(err, syncer.ErrLeaderHandover)",
    "runCluster: runWait.Sleep(10 * time.Second)",
    "runCluster: if errors.Is(err, syncer.ErrLeaderTakeover)",
    "runCluster: time.Sleep(1 * time.Second)",
    "runCluster: if errors.Is(err, syncer.ErrBreak)",
    "runCluster: time.Sleep(1 * time.Second)"
]

# the shape of the runCluster state machine (lean/GunYu/Model/Handover.lean is its transcription)
EXPECTED_RUNCLUSTER = [
    "runCluster: usync.SafeGo(…)",
    "runCluster: runWait.Close(syncer.ErrRestart)",
    "runCluster: return",
    "runCluster: for !runWait.IsClosed()",
    "runCluster: if err != nil",
    "runCluster: runWait.Close(syncer.ErrRestart)",
    "runCluster: return",
    "runCluster: runWait.Close(syncer.ErrRedisTypologyChanged)",
    "runCluster: return",
    "runCluster: if role == cluster.RoleCandidate",
    "runCluster: newRole, err := sc.clusterCampaign(runWait.Context(), elect)",
    "runCluster: if err != nil",
    "runCluster: runWait.Close(syncer.ErrRestart)",
    "runCluster: break",
    "runCluster: role = newRole",
    "runCluster: if role == cluster.RoleCandidate",
    "runCluster: runWait.Sleep(1 * time.Second) [candidate 1000 ms]",
    "runCluster: continue",
    "runCluster: if role == cluster.RoleLeader && time.Since(leaseFrom) >= sc.leaseHold()",
    "runCluster: role = cluster.RoleCandidate",
    "runCluster: continue",
    "runCluster: sy := syncer.NewSyncer(cfg)",
    "runCluster: syncerWait := usync.NewWaitCloserFromParent(runWait, nil)",
    "runCluster: sc.setSyncer(cfg.Input.Address(), sy, syncerWait)",
    "runCluster: usync.SafeGo(…)",
    "runCluster: if role == cluster.RoleLeader",
    "runCluster: err = sy.RunLeader()",
    "runCluster: if role == cluster.RoleFollower",
    "runCluster: leader, err = elect.Leader(syncerWait.Context())",
    "runCluster: if err == nil",
    "runCluster: err = sy.RunFollower(leader)",
    "runCluster: if err != cluster.ErrNoLeader",
    "runCluster: err = errors.Join(err, syncer.ErrBreak)",
    "runCluster: syncerWait.Close(err)",
    "runCluster: syncerWait.Close(fmt.Errorf(\"panic : %v\", i))",
    "runCluster: sc.clusterTicker(syncerWait, role, elect, cfg.Input.Address(), key, leaseFrom)",
    "runCluster: sy.Stop()",
    "runCluster: syncerWait.WgWait()",
    "runCluster: err = syncerWait.Error()",
    "runCluster: if role == cluster.RoleLeader",
    "runCluster: terr := elect.Resign(ctx)",
    "runCluster: if terr != nil",
    "runCluster: err = errors.Join(err, terr, syncer.ErrBreak)",
    "runCluster: role = cluster.RoleCandidate",
    "runCluster: sc.delSyncer(cfg.Input.Address())",
    "runCluster: if err != nil",
    "runCluster: if errors.Is(err, syncer.ErrLeaderHandover)",
    "runCluster: runWait.Sleep(10 * time.Second) [handover 10000 ms]",
    "runCluster: if errors.Is(err, syncer.ErrLeaderTakeover)",
    "runCluster: time.Sleep(1 * time.Second) [takeover 1000 ms]",
    "runCluster: if errors.Is(err, syncer.ErrBreak)",
    "runCluster: runWait.Close(err)",
    "runCluster: return",
    "runCluster: time.Sleep(1 * time.Second) [other 1000 ms]",
    "clusterCampaign: newRole, err := elect.Campaign(ctx)",
    "clusterRenew: err := elect.Renew(ctx)",
    "clusterTicker: if wait.IsClosed()",
    "clusterTicker: return",
    "clusterTicker: ticker := time.NewTicker(config.GetSyncerConfig().Cluster.LeaseRenewInterval)",
    "clusterTicker: if role == cluster.RoleLeader",
    "clusterTicker: wait.Close(errors.Join(cluster.ErrNotLeader, syncer.ErrBreak))",
    "clusterTicker: case <-wait.Context().Done():",
    "clusterTicker: return",
    "clusterTicker: case <-ticker.C:",
    "clusterTicker: if role == cluster.RoleLeader",
    "clusterTicker: util.Retry(renew, 2)",
    "clusterTicker: return sc.clusterRenew(wait.Context(), elect)",
    "clusterTicker: if err != nil",
    "clusterTicker: return false, err",
    "clusterTicker: if role == cluster.RoleFollower",
    "clusterTicker: role, err := sc.clusterCampaign(wait.Context(), elect)",
    "clusterTicker: if err != nil",
    "clusterTicker: return false, err",
    "clusterTicker: if role == cluster.RoleLeader",
    "clusterTicker: return true, nil",
    "clusterTicker: return false, nil",
    "clusterTicker: case <-wait.Context().Done():",
    "clusterTicker: return",
    "clusterTicker: case res = <-result:",
    "clusterTicker: if res.err != nil",
    "clusterTicker: wait.Close(errors.Join(res.err, syncer.ErrBreak))",
    "clusterTicker: if res.changed",
    "clusterTicker: wait.Close(nil)",
    "clusterTicker: if res.err == nil && lease != nil",
    "NewSyncer: sy.channel = NewChannel(cfg.Channel, cfg.Input.Address())",
    "NewSyncer: sy.wait = usync.NewWaitCloser(nil)",
    "syncer.Stop: wait.Close(nil)",
    "syncer.run: defer … channel.Close()",
    "syncer.runLeader: leader.Start()",
    "syncer.runLeader: usync.SafeGo(func() { defer wait.WgDone() err := input.Run() wait.Close(err) }, func(i interface{}) { wait.Close(fmt.Errorf(\"panic: %v\", i)) })",
    "syncer.runLeader: go input.Run",
    "syncer.runLeader: <-wait.Done()",
    "syncer.runLeader: leader.Stop()",
    "syncer.runLeader: input.Stop()",
    "syncer.runLeader: output.Close()",
    "syncer.runLeader: wait.WgWait()",
    "ReplicaFollower.Run: if errors.Is(err, ErrBreak) || errors.Is(err, ErrRole)",
    "ReplicaFollower.Run:   rf.wait.Sleep(2 * time.Second)",
    "ReplicaFollower.Run:   return err"
]

# digests of the functions Model/ReplicaIdSrc.lean / Replica.lean transcribe for the run id of a channel, and of the
# snapshot writer's commit (Loss.nocommit): a change means the model has to be re-read
EXPECTED_IDSRC = {
    "pkg/redis/psync.go:SendPSync": "28b263606d5a",
    "pkg/redis/util.go:GetRunIds": "6c4ca3940df7",
    "pkg/store/rdb_writer.go:closeRdb": "f39358bb8f8a",
    "pkg/store/store.go:DelRunId": "185b1021ccc4",
    "pkg/store/store.go:SetRunId": "b7248cd4986f",
    "pkg/store/store.go:VerifyRunId": "a57cab4ebe39",
    "pkg/store/store.go:newRunId": "8cd70f4f6865",
    "syncer/memory_channel.go:DelRunId": "66935c951cff",
    "syncer/memory_channel.go:SetRunId": "4cd198d856cc",
}

EXPECTED_CODES = ["CLEAR=3", "CONTINUE=1", "ERROR=11", "FAILURE=12", "FAULT=10", "HANDOVER=2", "META=0"]

PROP = {
    "lean_modules": ["GunYu.Props.C16", "GunYu.Props.C16Handover", "GunYu.Props.C16Id", "GunYu.Props.C16Fault",
                     "GunYu.Props.C16Reader", "GunYu.Props.C16Restart", "GunYu.Props.C16Promote", "GunYu.Props.C16Script",
                     "GunYu.Props.C16PromoteNew", "GunYu.Props.C16Snap", "GunYu.Props.C16Lives", "GunYu.Props.C16Guards"],
    "gens": ["c16guards"],
    "audit_namespaces": ["GunYu.Props.C16"],
    "required_theorems": [
        "GunYu.Props.C16.follower_prefix_of_leader",
        "GunYu.Props.C16.follower_prefix_of_leader_runs",
        "GunYu.Props.C16.others_untouched",
        "GunYu.Props.C16.follower_contiguous",
        "GunYu.Props.C16.unjoinable_discards",
        "GunYu.Props.C16.unjoinable_discards_session",
        "GunYu.Props.C16.gap_discards",
        "GunYu.Props.C16.gap_discards_session",
        "GunYu.Props.C16.collected_discards",
        "GunYu.Props.C16.clear_deletes",
        "GunYu.Props.C16.clear_deletes_any",
        "GunYu.Props.C16.resynchronises",
        "GunYu.Props.C16.resynchronises_keeps_copy",
        "GunYu.Props.C16.ahead_gets_handover",
        "GunYu.Props.C16.handover_leader_steps_down",
        # runCluster, from the offer to the new leader (Props/C16Handover.lean)
        "GunYu.Props.C16.no_two_senders",
        "GunYu.Props.C16.resign_after_stop",
        "GunYu.Props.C16.silent_until_campaign_won",
        "GunYu.Props.C16.old_leader_waits_out_its_lease",
        "GunYu.Props.C16.old_leader_silent_under_old_lease",
        "GunYu.Props.C16.resign_frees",
        "GunYu.Props.C16.campaign_outcome",
        "GunYu.Props.C16.offered_becomes_leader",
        "GunYu.Props.C16.handover_completes",
        "GunYu.Props.C16.follower_promoted_by_ticker",
        "GunYu.Props.C16.promoted_cache_intact",
        # counter-witnesses (decide) to the statements without their hypotheses
        "GunYu.Props.C16.two_senders_if_stop_outlives_lease",
        "GunYu.Props.C16.old_leader_back_if_lease_longer_than_pause",
        "GunYu.Props.C16.old_leader_back_if_restarted",
        "GunYu.Props.C16.memory_cache_lost_at_promotion",
        # hq discharged: where the leader's channel run id comes from (Props/C16Id.lean)
        "GunYu.Props.C16.leader_channel_id_never_q",
        "GunYu.Props.C16.follower_prefix_of_leader_src",
        "GunYu.Props.C16.input_sets_no_q",
        "GunYu.Props.C16.getRunIds_from_line",
        "GunYu.Props.C16.parsePsync_id",
        "GunYu.Props.C16.q_source_is_adopted",
        # the follower's own store fails (Props/C16Fault.lean)
        "GunYu.Props.C16.write_fault_stream",
        "GunYu.Props.C16.write_fault_stream_fresh",
        "GunYu.Props.C16.write_fault_snapshot",
        "GunYu.Props.C16.resumes_at_durable_end",
        # an open stream reader serves its own id: composed with C05's model (Props/C16Reader.lean)
        "GunYu.Props.C16.disk_open_reader_serves_own_id",
        "GunYu.Props.C16.disk_reader_output_is_hseg",
        "GunYu.Props.C16.leader_faithful_from_c05",
        "GunYu.Props.C16.mem_reader_follows_relabel",
        "GunYu.Props.C16.mem_checked_send_serves_own_id",
        # restart from a crash image: composed with C08's reopen (Props/C16Restart.lean)
        "GunYu.Props.C16.reopened_data_faithful",
        "GunYu.Props.C16.follower_prefix_of_leader_crash_runs",
        "GunYu.Props.C16.crash_image_step_ok",
        "GunYu.Props.C16.crash_image_data_faithful",
        # promotion: C16's conclusion gives C06's CacheWF / CacheOK (Props/C16Promote.lean)
        "GunYu.Props.C16.promoted_cache_wf",
        "GunYu.Props.C16.promoted_cache_ok",
        "GunYu.Props.C16.promoted_follower_cache_ok",
        "GunYu.Props.C16.promoted_follower_first_connection",
        # review r4: compositions closed
        "GunYu.Props.C16.disk_state_data_faithful",
        "GunYu.Props.C16.leader_faithful_of_disk",
        "GunYu.Props.C16.leader_faithful_from_mem_checked_send",
        "GunYu.Props.C16.follower_prefix_of_c05_leader",
        "GunYu.Props.C16.session_stream_payload_is_history",
        "GunYu.Props.C16.stream_script_srcOk",
        "GunYu.Props.C16.stream_transfer_crash_image_faithful",
        "GunYu.Props.C16.promoted_new_storer_cache_ok",
        # session 5: SnapRecvOk discharged for snapshot transfers (Props/C16Snap.lean)
        "GunYu.Props.C16.snapRecvOk_of_snapSrcOk",
        "GunYu.Props.C16.session_snapshot_payload_is_history",
        "GunYu.Props.C16.transfer_script_wf_srcOk",
        "GunYu.Props.C16.transfer_script_snapSrcOk",
        "GunYu.Props.C16.snapshot_transfer_crash_image_faithful",
        # session 5: a kill in a second (any) process life, short writes included (Props/C16Lives.lean over C08Root)
        "GunYu.Props.C16.dirOk_imageOk",
        "GunYu.Props.C16.second_life_dir_ok",
        "GunYu.Props.C16.lives_dir_ok",
        "GunYu.Props.C16.lives_reopened_faithful",
        "GunYu.Props.C16.crash_step_ok_lives",
        "GunYu.Props.C16.resumeAt_of_data",
        "GunYu.Props.C16.resume_stream_life_ok",
        "GunYu.Props.C16.snapshot_life_ok",
        # session 5: the offset guards regenerated from the source (Gen/ReplicaGuards.lean) are the model's (Props/C16Guards.lean)
        "GunYu.Props.C16.gen_handleAhead_eq_model",
        "GunYu.Props.C16.gen_sendDataFallback_eq_model",
        "GunYu.Props.C16.gen_preSyncGap_eq_model",
        "GunYu.Props.C16.gen_preSyncGapPos_eq_model",
        "GunYu.Props.C16.gen_preSyncGapFar_eq_model",
        "GunYu.Props.C16.gen_aofSyncDiscard_eq_model",
        "GunYu.Props.C16.handle_uses_gen",
        "GunYu.Props.C16.preSync_uses_gen",
        "GunYu.Props.C16.aofSync_uses_gen",
    ],
    "expected_facts": {"c16_gap_threshold": 10485760, "c16_codes": EXPECTED_CODES, "c16_calls": EXPECTED_CALLS, "c16_cmd": EXPECTED_CMD,
                       "c16_runcluster": EXPECTED_RUNCLUSTER, "c16_idsrc": EXPECTED_IDSRC,
                       # process-global state reached from the property's code (DIMENSION_AUDIT): the metric vectors of replica.go (written
                       # concurrently by every handler / follower: label = input id) and the one process-wide option channel.go reads
                       "c16_globals": ["channel.go reads config.GetSyncerConfig().Channel.VerifyCrc", "replica.go var followerOffsetGauge",
                                       "replica.go var followerRecvData", "replica.go var leaderSendData"]},
    "harness": [{"name": "C16", "pkg": "./syncer/", "test": "TestVerifC16",
                 "timeout_quick": "30m", "timeout_thorough": "60m"},
                {"name": "C16ids", "pkg": "./syncer/", "test": "TestVerifC16Ids",
                 "timeout_quick": "30m", "timeout_thorough": "60m"},
                {"name": "C16cmd", "pkg": "./cmd/", "test": "TestVerifC16Cmd",
                 "timeout_quick": "30m", "timeout_thorough": "60m"},
                {"name": "C16ho", "pkg": "./cmd/", "test": "TestVerifC16Handover",
                 "timeout_quick": "30m", "timeout_thorough": "60m"}],
    "driver": "drv_C16",
    "rule": "one op per pass of the REAL ReplicaFollower.Run (handshake .. first error; Run's error pauses are intercepted through its WaitCloser, "
            "its logged error gives the outcome) talking over real gRPC on loopback (generated client/server code, real serialisation) to the REAL "
            "syncer.ServiceReplica -> ReplicaLeader.Handle/sendData, on two real channels (StoreChannel on t.TempDir() with LogSize 40/64/200/1MiB so "
            "that segments rotate, MemoryChannel). The harness owns the server-side stream wrapper (counts, re-chunks CONTINUE into pieces of "
            "1..1/3/17/100 bytes, fails every Send after `cut` messages) and wrappers of the leader's Input and Channel that let the leader's own "
            "input act between the reads of one request (gate+selfInspection | input ids+StartPoint | IsValidOffset | NewReader): PSYNC2 fail-over "
            "(ids, relabel, new master's bytes), full resynchronisation under another id (setRunIds, DelRunId, SetRunId, snapshot+stream, also with "
            "overlapping offsets), growth / collection / new snapshot, performed with the real channel operations in syncer/input.go's order. "
            "Generated pairs: leader {nothing yet, snapshot only, snapshot+stream, stream only, writer open/closed, not started, not leader (gate), "
            "no input ids, input already on a newer id (CLEAR), two input ids, tail appended while a stream reader is open}; follower {nothing, id "
            "adopted but empty, same id: prefix / equal / ahead (also by 1-2 bytes) / collected at the leader / ending at the leader's first offset "
            "-1,0,+1 / 10 MiB -1,0,+1 behind / anywhere, with and without snapshot; another id current (below / within / above the leader's range); "
            "disk: directories of both ids with either or none current, fresh process}. Every pair runs uncut, then cut after EVERY message (sample "
            "of 6 when more; 40 thorough), quiescent or abrupt (bytes still in the follower's pipe are lost; the observed number is an op input, and a "
            "loss in a quiescent cut is a violation), then the SAME Run goes on against later leader states (or a new process after a restart); two "
            "more sessions per pair with the leader's input acting mid-session; two with the leader STOPPED in the middle of a transfer (its syncer's "
            "wait closed after 1-4 CONTINUE messages: clean end of stream or FAULT, both observed and passed to the model); an ahead follower "
            "against a leader whose input has moved to another id (CLEAR before the ahead test); per run 2 (6 thorough) transfers of 1.1-1.5 MiB "
            "(larger than the follower's pipe) cut abruptly and continued. Second harness C16cmd: the real (*SyncerCmd).Sync (cmd/syncer_api.go) "
            "around the real ServiceReplica on a real memory channel, leader states x requests (handshake, behind, equal, ahead by 1 and more, "
            "other id): first answer and whether Sync stopped this input's syncer (role error) or all (break error) compared with the model's "
            "syncReact; monitor HANDOVER <=> the leader's syncer is stopped with ErrLeaderHandover; end to end: the real Run of an ahead follower "
            "over gRPC against the registered SyncerCmd ends with ErrLeaderTakeover, the leader's syncer wait closed, the follower's cache intact. "
            "Third harness C16ho: the REAL (*SyncerCmd).runCluster of TWO instances in one process through the whole hand-over — A campaigns, "
            "leads (real NewSyncer/RunLeader: real RedisInput PSYNC from a replication-source double, real RedisOutput to the target double, "
            "checkpoint written), B joins holding more (a disk cache filled beforehand), follows (real RunFollower/ReplicaFollower.Run over real "
            "gRPC to A's real SyncerCmd.Sync -> ServiceReplica -> HANDOVER), A's wait is closed, ticker returns, sy.Stop, Resign, 10 s pause; B: "
            "take-over error after Run's 2 s, sy.Stop, 1 s, Campaign (or its ticker's Campaign first), NewSyncer on the same directory, RunLeader "
            "resuming the source behind the end of ITS cache, feeding the target what A had not; A comes back as B's follower and catches up. "
            "Lease: an in-memory double of pkg/cluster's election (Campaign = take when missing / expired / mine with a fresh TTL, Renew, Resign "
            "= delete when mine, Leader) with scripted failures; every call is recorded with its instant and with its call site (loop or "
            "clusterTicker, read from the call stack). Scenarios: Resign succeeds; Resign fails once (lease 9 s: the follower's first campaign "
            "loses, its ticker wins when the key has run out); thorough: Resign fails and the lease (25 s) outlives the 10 s pause (the old "
            "leader is back, offers again, the second hand-over completes). The recorded calls become one `hand` op: the Lean state machine "
            "(Model/Handover.lean) is run on the same events and must give the same answer to every call (won/lost/failed, ok/stop, offer "
            "accepted, a loop campaign that comes before the model's pause is over is `early`) and the same final lease holder, roles, caches "
            "and number of senders. Monitors independent of the model, none depending on a wait: at the instant of every Resign the instance's "
            "leader syncer is not running and at the instant a Campaign is won no OTHER instance's leader syncer is running (goroutine labels "
            "inherited from each instance's runCluster, read from the goroutine profile inside the lease call: a goroutine inside "
            "(*syncer).runLeader = input and output open); old leader's next campaign >= 10 s after the Resign that followed its offer; "
            "offered follower's loop campaign >= 3 s after the offer unless its ticker won first; the promoted follower resumes the source "
            "with PSYNC <same id> <end of its cache + 1> and its cache stays contiguous and never shrinks. Conditions waited for (A fed and "
            "checkpointed before B joins; B leads, A caught up, target fed) have a limit of 120 s and are a broken tie when they do not come. "
            "Compared with the Lean model: every message the follower read (code, "
            "id, aof, offset, size, data), the outcome (stage, class) and the follower's store afterwards (disk: every run-id directory parsed from "
            "the files; memory: what the channel serves). Monitors independent of the model: every byte/snapshot under an id is a byte some state of "
            "the leader held under the same (id, offset) or was stored there before; segments contiguous, files and channel API agree, offered ranges "
            "readable; ahead follower => HANDOVER and untouched cache (untouched also when cut earlier); when more than 2% of the cases cannot be built the "
            "harness itself fails (a broken tie, not a verdict about the property); classes that did not occur in a run are evidence counters "
            "(class_not_generated_*); a quiescent cut is made when the follower's channel reports every sent byte as stored (explicit condition, 120 s "
            "hard limit; if the limit is hit the cut counts as abrupt). corpus/C16: defect witnesses and the boundary states. "
            "distinct_nontrivial = distinct (backend, relation, outcome, #messages, leader shape, static?) with at least two CONTINUE chunks. "
            "Session 4 additions. (a) round extra rl=<k>: after k CONTINUE messages of a STREAM transfer the leader's input does what "
            "syncer/input.go does at a PSYNC2 fail-over answered +CONTINUE <new id> — setRunIds, channel.SetRunId(new id), a new stream writer "
            "at the same offset, the new master's bytes — while the handler's stream reader is open; what still gets out and how the handler "
            "ends (FAULT / clean / ERROR from the id check) is observed and passed to the model as the leader's `halt`. (b) faults of the "
            "FOLLOWER's own store (disk): the follower's channel is wrapped so that the io.Reader every snapshot / stream writer ingests from "
            "acts between two file writes: wf=<K> closes the writer's file descriptor when K payload bytes are on the file and the next byte "
            "is about to be written (pkg/store shim VerifBreakFile: EBADF stands for EIO/ENOSPC; K anywhere in the first transfer, half of "
            "them inside its last 8 KiB, also for followers whose first transfer is the snapshot), wr=1 unlinks the temporary snapshot file "
            "while its last piece is on the way (every write succeeds, the commit rename fails); uncut transport; the session's outcome is "
            "`wfail` when the fault was injected and a byte followed. Compared with the model: messages, outcome, store (files + API). "
            "(c) cr=<K>: when a writer of the PREVIOUS session had K payload bytes on its file the follower's directory tree is copied "
            "(the image a kill at that instant leaves: torn last segment with an unclosed header, a .rdb.tmp); before this session the "
            "follower is stopped, the directory replaced by that image, a new Storer + a new Run started over it; one `reopen` op per run-id "
            "directory of the image compares what a fresh real StoreChannel serves for it with Model/ReplicaReopen.lean dataOfReopened "
            "(over C08's reopen), the session that follows is an ordinary `sess` op from that store. Monitors added: reopened-not-readable; "
            "resume-beyond-durable (every session: the follower's first data request asks for the end of its own copy of that id or for the "
            "offset the leader announced — read on the wire at the server); the API-vs-files comparison after every session now also "
            "follows faults and crash restarts. Fourth harness C16ids: the REAL redis.GetRunIds and (*StandaloneRedis).SendPSync over "
            "loopback TCP against a RESP double answering INFO replication / PSYNC with generated texts (keys missing / duplicated / "
            "reordered / prefixed / wrong case, LF instead of CRLF; ids of 40 hex digits, shorter, '?', empty; CONTINUE with and without "
            "id, FULLRESYNC id offset, empty id field, bad offsets, extra fields, other replies): ops ids / psy compared with "
            "Model/ReplicaIdSrc.lean getRunIds / parsePsync; (after review r4) round extra rr=1: the same fail-over at a read point "
            "INSIDE sendData's loop — the leader's stream reader is wrapped, and when it has handed over the old id's last byte and the next "
            "ioReader.Read is entered the input relabels and appends, so that very read returns the new master's bytes (read -> check -> "
            "Send drops them, check -> read -> Send leaks them: the reviewer's mutation now gives a follower-bytes-differ replay, and "
            "ioReader.Read is part of c16_calls); ws=<K>: a pipe is dup2'ed over the snapshot writer's descriptor after K bytes (shim "
            "VerifLoseSync: further writes vanish, fsync at the commit fails); op lsend (memory, every rl/rr round): the observed reads of "
            "the request + the fail-over are run through Props/C16Reader.lean LState.run over C05's Mem model, `sent`/`stopped` compared "
            "with what the real sendData sent; op cache (after every session, both backends): C06's Cache.getRdb / getOffsetRange / latest "
            "of Props/C16Promote.lean cacheOfData of the store against the real Channel.GetRdb / GetOffsetRange / StartPoint(nil); "
            "monitors id-not-from-source and source-id-misread (a reference reading of the same "
            "texts written in Go, independent of the Lean model). Session 5: round extra fs=<k>: the FOLLOWER's own Stop() "
            "(ReplicaFollower.Stop as runFollower calls it: wait closed, connection closed, waits for Run) is called when k CONTINUE "
            "messages of a transfer are out (a snapshot transfer only while bytes are still to come) and — explicit condition — the "
            "follower has opened the writer of the announced transfer (counted in the harness's channel wrapper; from there on what it "
            "has not read is lost like bytes in its pipe), with Quiet after it has stored every sent byte (then a loss is the violation "
            "lost-bytes-when-quiescent); Run must return nil; for the model the session is cut after the messages that were out "
            "(`sess` op as for an abrupt cut: messages, outcome, store); disk: a new process life (new Storer, new Run) goes on "
            "afterwards. Counters follower_stopped_aof / _rdb / _quiescent. After seeded round 8 (C16-r8-m1, missed): in 3 of 4 disk sessions "
            "(hash of the round) the leader's STREAM reader is opened as StoreChannel.NewReader does under channel.verifyCrc: true "
            "(storer.GetReader(off, true); snapshot readers stay unverified: the oracle's snapshots carry no CRC64 footer), so that every "
            "segment it follows into across a rotation (LogSize 40/64/200), closed or still being written, passes through the CRC "
            "check first; counter leader_verifycrc; witness corpus/C16/verifycrc_live_segment.txt. Dimension audit (end of session 5), every drawn "
            "option value counted as cfg_<option>_<value> in the evidence: leader / follower backend (cfg_*_backend_d/m), LogSize "
            "(cfg_logsize_40/64/200/1048576), channel.verifyCrc on/off on the leader's disk cache (cfg_verifycrc_1/0) with verifying STREAM "
            "and now also SNAPSHOT readers (the oracle's generated snapshots end with a valid little-endian CRC64 footer; "
            "cfg_verifycrc_stream_reader / _snapshot_reader; hand-written corpus snapshots are refused by the verifying reader and served by "
            "the plain one: verifycrc_snapshot_refused), chunking (cfg_chunk_as_read / upto_<n> / forced pieces of EXACTLY LogSize, LogSize+1 "
            "and LogSize-16 bytes: Split < 0), a follower process restarted between the announcement (META) and the first chunk "
            "(forced: cut=2 then Restart; cut_after_meta_then_restart), and TWO followers at once on one leader (twoFollowers: one real "
            "ServiceReplica behind a plain gRPC server, a disk and a memory follower running concurrently — one empty, one holding a "
            "prefix —, the leader's input appending and rotating meanwhile, disk leader with verifyCrc readers and in half of the runs "
            "MaxSize = 6 x LogSize with real collector passes (storer.gcLog) between the appends: monitors only — contiguous, "
            "byte-identical to the history at the offsets held, both at the leader's end; counters two_followers_runs, "
            "leader_collector_pass_during_transfer, cfg_leader_maxsize_small). Source fact c16_globals: the package-level metric "
            "vectors of replica.go and the one process-wide option syncer/channel.go reads (Channel.VerifyCrc)",
    "trusted": ["grpc-go on loopback TCP between the real Run and the real ServiceReplica (no fake transport); the harness's stream wrapper, "
                "WaitCloser/Logger wrappers of the follower and Input/Channel wrappers of the leader",
                "history oracle of the harness (two run ids differ at every offset) and its file parser for the disk backend",
                "the fault injection under the follower: the reader wrapper of the harness (acts between two writes of ingest()), the pkg/store "
                "shims VerifBreakFile (closes the writer's descriptor: the next write returns EBADF with n = 0 — a SHORT write, n > 0 with an "
                "error, is not injected here; C08 does it with RLIMIT_FSIZE in a child process) and VerifLoseRdbTmp (unlink: rename fails with "
                "ENOENT); the directory copy taken between two writes as the image of a kill (no torn write inside one write call: C08's crash "
                "images cover those); C16ids: the RESP double and the harness's reference reading of INFO / PSYNC texts",
                "C16ho: the lease double (semantics of pkg/cluster/redis's election scripts: one key, value = the instance's peer address, TTL; "
                "not etcd's), the replication-source double (INFO/ROLE/REPLCONF/PSYNC with FULLRESYNC and CONTINUE), pkg/vfdoubles.Target behind "
                "a loopback listener, the goroutine profile with pprof labels as the observation of 'leader syncer running'"],
    "assumptions": ["regenerated (session 5, harness/extract/c16guards.go -> Gen/ReplicaGuards.lean): the offset guards of the handshake — "
                    "Handle's hand-over test, sendData's fallback to the newest offset, preSync's distance / adopt / far-behind tests, "
                    "aofSync's discard test — found by what their branch does, operands named by where they are defined (int64 as Int: "
                    "wrap-around not modelled); Props/C16Guards.lean proves each equal to the model's expression and View.handle / preSync / "
                    "aofSync equal to the same functions written with the generated guards (an operator / operand / constant changed in the "
                    "code breaks a proof; renamed locals, swapped operands, an extracted message helper do not)",
                    "regenerated: preSync's gap threshold (Gen/ReplicaConsts.lean, used by the model); compared with expectation: response code numbers "
                    "and the ordered list of channel calls / Sends / handleResp arities / guarding conditions of every ReplicaLeader and "
                    "ReplicaFollower method, Run's state assignments and ServiceReplica's gate (a change means the model has to be re-read)",
                    "model tied by correspondence (hand-written transcription of syncer/replica.go, syncer_replica.go, channel.go, pkg/store "
                    "SetRunId/DelRunId/VerifyRunId, memory_channel.go StartPoint/SetRunId/DelRunId)",
                    "the cache a leader's reader is opened on is a faithful copy of the source's history of the channel's run id (C05/C06/C08) — "
                    "still a hypothesis (hL / LabelledOk: in every state in which the channel is labelled x it holds x's history). What is NO "
                    "LONGER assumed: that a stream reader that is already open serves its own run id to the end. Disk: derived from C05's model "
                    "(Props/C16Reader.lean disk_open_reader_serves_own_id: for ANY operations of the leader's input after the open — appends, "
                    "rotation, collection, writer replacement, id switch / delete, new snapshot — everything the reader delivers is history x "
                    "from its offset and it is open only while the label is x; leader_faithful_from_c05 turns that into Leader.Faithful). "
                    "Memory: C05's model does NOT close readers on SetRunId (mem_reader_follows_relabel; confirmed on the real MemoryChannel, "
                    "defect fixed in /repo 6317a42): the property holds through the id check sendData makes after every read "
                    "(mem_checked_send_serves_own_id, over C05's Mem model, under NoReturn: a label that was left does not come back — "
                    "replication ids are fresh random values). The composition is at the level of C05's operation lists; that the Leader record "
                    "of a `sess` op (data, tail, halt) is what such a run shows is the harness's construction, not a theorem",
                    "hq (the leader's channel run id is never the literal \"?\") is discharged for a DISK leader unconditionally "
                    "(leader_channel_id_never_q: newRunId ignores \"\"/\"?\", DelRunId leaves \"\"; follower_prefix_of_leader_src) and for a MEMORY leader "
                    "under the hypothesis that the source never reports \"?\" as master_replid or in its PSYNC reply (input_sets_no_q; Redis "
                    "generates 40 hex digits: replid_ne_q). A source that answers +FULLRESYNC ? 5 makes a memory leader announce \"?\" "
                    "(q_source_is_adopted): outside the property, not repaired. Model/ReplicaIdSrc.lean is a hand-written transcription of "
                    "GetRunIds / SendPSync's reply parsing / syncMeta's choice of the id, tied by the C16ids correspondence (ASCII texts; "
                    "strings.ToLower's Unicode path not generated) and by the digests c16_idsrc; ChanOp (what the input does to the channel's id) "
                    "is not executed by a harness of its own — its three operations are the store functions the `sess` ops already exercise on "
                    "the follower side, and C06's harness runs the real syncMeta",
                    "write faults of the follower's store: Loss.wfault = K means EVERY writer of the session fails after K payload bytes; the "
                    "harness injects the fault into every writer of the session with its own count, uncut transport only (with an abrupt cut in "
                    "the snapshot stage the bytes a writer was handed are not observable). The error is EBADF with n = 0; a short write is "
                    "C08's. The stream writer's file keeps an unclosed header after the fault (readable without CRC verification, as after a "
                    "crash: C08). Loss.nocommit models the repaired order (rename before the index is told; /repo 679f548)",
                    "restart from a crash image: Props/C16Restart.lean takes per directory an ARBITRARY image with the hypothesis ImageOk "
                    "(C08's FsTrue against history id + the offered snapshot file is history's snapshot); crash_image_step_ok discharges it for "
                    "every crash image of every writers' script (C08: crash_images_truthful, script_ops_true, crash_snapshot_true) plus the "
                    "explicit link SnapRecvOk (what the follower's snapshot writer RECEIVED completely is history's snapshot). Session 5: "
                    "SnapRecvOk is now PROVED from a per-call condition SnapSrcOk (the snapshot twin of C08's SrcOk: writer created with "
                    "the size of history's snapshot, every chunk keeps the received bytes a prefix of it; snapRecvOk_of_snapSrcOk, every "
                    "script), and SnapSrcOk / wf / SrcOk are proved for the script of one session's snapshot(+stream) transfer from what "
                    "the session model hands to the writers (session_snapshot_payload_is_history from Shape.rdb; transfer_script_*; "
                    "snapshot_transfer_crash_image_faithful: no hypothesis about the script left). Kills in a second / any later "
                    "process life: DirOk (FsTrue + unique names + C08 SnapOk + snapshot content = history's) is an invariant of lives "
                    "over C08Root's model (re-open any directory, any script WITH FAULTS incl. short writes, death anywhere: "
                    "second_life_dir_ok, lives_reopened_faithful, crash_step_ok_lives), and its hypotheses are discharged for the "
                    "stream continuation of a re-opened follower (resume_stream_life_ok: writer at the end of what was re-opened — "
                    "resumeAt_of_data links that to C16's dataOfReopened — chunks history's, the last one possibly short-written). "
                    "That the transfer script / life script IS what the real writers do in a session is still the harness's "
                    "construction (cr=<K> rounds, `reopen` op), not a refinement theorem between sessionV and the DOp script. The crash "
                    "step does not relate the images to the store before the crash (stronger: any truthful images). Harness images are "
                    "taken between two writes",
                    "promotion: promoted_follower_cache_ok gives C06's CacheOK for ANY source and CacheWF under two side conditions on what is "
                    "held — offsets within int64 and a non-empty snapshot (from the history: promoted_cache_wf_of_hist) — as C08's bridge; "
                    "Agrees (C06's World and C16's Hist are the same histories, stream bytes) is an interface assumption between the two "
                    "models; C06's Holds constrains a snapshot only through its token (history, offset), so snapshot CONTENT faithfulness is "
                    "C16's alone. Memory followers lose the cache at promotion (memory_cache_lost_at_promotion): the bridge is then about the "
                    "empty cache",
                    "consequence of the D16 repair, intended: after a PSYNC2 fail-over of the source the LEADER relabels its cache (its histories "
                    "join) while every follower deletes its whole copy and restarts at the leader's newest offset without a snapshot; a follower "
                    "promoted soon afterwards holds a cache that starts after the target's resume position (a full sync there), and HANDOVER is "
                    "not reachable across a fail-over; likewise an AHEAD follower that meets a leader whose input has already moved to another id "
                    "gets CLEAR ('wait a moment' precedes the ahead test) and deletes its copy (theorem clear_deletes_any, counter "
                    "ahead_answered_clear) — that copy belongs to the superseded id and would be dropped by the next preSync anyway",
                    "resynchronises / AtLeaderTip means: positioned at the leader's end, holding what arrived since — the leader's older bytes "
                    "only where the follower's own copy joined (resynchronises_keeps_copy); after a discard the follower holds no snapshot and "
                    "nothing older than the leader's newest offset at that moment",
                    "cache contents at the abstraction of C05's Log: one contiguous byte range + optional snapshot per run id (contiguity of the "
                    "store is by this representation plus the theorem that the stream writer is only opened at its end; the harness's file parser "
                    "and the API/file comparison check it on the real store); segment rotation, reference counts and the collector are C05's",
                    "the follower's store is observed while Run pauses after its error, after it re-reads its directory (StartPoint -> "
                    "VerifyRunId), as every next user of the channel does",
                    "messages the follower does not read (after the first message of a handshake, after a non-META first answer — e.g. what Handle "
                    "goes on sending after selfInspection's CLEAR) are not part of the compared trace",
                    "model of the repaired behaviour: D16 (preSync relabelling), CLEAR answer taken as snapshot announcement, reader of another run id "
                    "streamed by sendData, the id check after every read of sendData's loop (6317a42), the snapshot announced only after its commit and "
                    "Run not going on with nothing held (679f548), sync + close + rename all needed for a commit and the commit error returned by "
                    "RdbWriter.Wait (45f65ae), Storer.SetRunId ignoring \"\"/\"?\" (02e084c, another owner's) (all fixed in /repo), D14 (C05)",
                    "runCluster model (Model/Handover.lean): hand-written transcription of cmd/syncer.go runCluster / clusterTicker, syncer.run's "
                    "deferred channel.Close, NewSyncer's new channel, ReplicaFollower.Run's pause before a role error; pinned by the source fact "
                    "c16_runcluster (every statement of the loop that moves the role, creates/stops a syncer, calls the election or pauses; the "
                    "ticker; runLeader's closing order) and the three pauses are regenerated into Gen/ReplicaConsts.lean (the model's defaults); "
                    "any number of instances, one lease, events = every call answered or failed, calls landing late, syncers ending on their "
                    "own, crashes, restarts, time",
                    "hypothesis `timely` of no_two_senders (guarded clock; counter-witness two_senders_if_stop_outlives_lease): the lease of an "
                    "instance that is still sending does not run out — the leader renews in time or stops itself `leaseHold` after its last "
                    "successful renewal (C15, fixed in /repo 8b531f9) AND sy.Stop()/WgWait complete within what is left of the lease (one renew "
                    "interval). The second half is not verified anywhere: a leader whose output blocks in a write for longer than that is "
                    "still `sending` when another instance wins the key",
                    "hypothesis ttl <= 10 s pause of old_leader_waits_out_its_lease / old_leader_silent_under_old_lease, needed only when "
                    "Resign FAILS (counter-witness old_leader_back_if_lease_longer_than_pause; cluster.leaseTimeout may be set up to 600 s, the "
                    "default 10 s is exactly at the bound): with a longer lease the old leader re-acquires its own unexpired key after the "
                    "pause, leads again and offers again — confirmed on the real runCluster (thorough scenario, lease 25 s: campaign won at "
                    "10.16 s, second offer at 12.15 s, hand-over completed at 13.15 s). Safety is not affected (no two senders, the ahead "
                    "follower is never overwritten, nothing is lost); the hand-over is delayed for as long as Resign keeps failing (the "
                    "source's own comment: '@TODO maybe endless in some corner cases'). Also assumed there: the old leader's process is not "
                    "restarted during the pause (counter-witness old_leader_back_if_restarted: the key carries the address, not the process) "
                    "and no Renew that was sent before the stop reaches the store after the Resign has been answered (the model lets a late "
                    "Renew extend the key only until then; the harness would show a later one as a difference)",
                    "(4) is for the disk backend (promoted_cache_intact): a memory channel is emptied when the follower's syncer ends "
                    "(memory_cache_lost_at_promotion) — the new leader then resumes from the target's checkpoint or resynchronises in full, "
                    "nothing is lost but the advantage. What the new leader's INPUT does with the intact cache is C06's rule (syncMeta): it "
                    "resumes behind the cache's end when the target's checkpoint lies within the cache; when the target holds no checkpoint "
                    "yet (the old leader was stopped before it wrote one — observed in the harness when B joins at once) it resynchronises "
                    "in full and replaces the cache. The harness therefore lets A write its checkpoint before B joins",
                    "C16ho runs on the wall clock (loopback sockets and the disk reader's sleep under its mutex rule out testing/synctest); "
                    "the model's time is the recorded instants in ms; no verdict depends on a wait (orders of calls and LOWER bounds of "
                    "pauses only). The election config of the process (leaseTimeout 9 s, renew 1 s) is shared by the scenarios; the lease "
                    "double's TTL is per scenario. Break errors (a failed Campaign, a failed Renew) end runCluster and restart the whole "
                    "command: modelled (pause 0 / restart), not executed",
                    "the follower's own Stop() in the middle of a transfer is generated since session 5 (fs=<k>) and modelled as a cut after the "
                    "messages that were out, with the observed loss (ReplicaFollower.Stop closes the wait and the connection: the receive "
                    "loop ends like on a transport failure, the writers are closed without draining the pipe; Run returns nil)",
                    "dimensions still NOT drawn (audit): a leader that is itself in the middle of a FULLRESYNC (its snapshot writer still open "
                    "while a follower's snapshot reader tails the growing file: readers of a snapshot being written are never verified and "
                    "never generated here; C05's harness opens them); the collector running inside ONE modelled session (MaxSize is small "
                    "only in the two-followers scenario, which has monitors but no model op); verifyCrc on the FOLLOWER side is moot (a "
                    "follower opens no reader); max-int64 offsets (int64 wrap-around of followerOffset-sp.Offset is not modelled)",
                    "not generated: back-pressure of the follower's pipe is not forced "
                    "(transfers above the pipe size are generated, but the real writers drain it quickly); the syncer's channel shared between the "
                    "follower and leader roles of one process: NewSyncer creates a NEW channel object per syncer (source fact c16_runcluster "
                    "'NewSyncer: sy.channel = NewChannel'), ServiceReplica's gate refuses requests while the role is not leader, and "
                    "syncer.run closes the channel when the role ends — a follower never serves a sub-follower and a promoted follower "
                    "serves from a new Storer over the same directory (promoted_new_storer_cache_ok); the harness owns one channel per role"],
    "partial": ["theorems that restate one unfolding of a model function (their content is the harness tie, not the proof): write_fault_stream, "
                "write_fault_stream_fresh (aofRecv / Loss.written), resumes_at_durable_end (= preSync_pos; about preSync's answer, the request "
                "of the NEXT session is the monitor resume-beyond-durable), and in C16Handover resign_after_stop, resign_frees, campaign_outcome, "
                "offered_becomes_leader, old_leader_waits_out_its_lease, silent_until_campaign_won (one simp [step] each)",
                "composition with C05, what is still assumed: Disk.wf of the whole operation list (input.go's caller protocol) and LabelledOk / "
                "MemLabelledOk (in states labelled x the written history is x's: C06's subject, assumed, not imported from C06); stream readers "
                "only; every request of a session gets its own C05 run (existential per request in LeaderFromC05, the runs are not chained); "
                "disk: cache AND tail derived (leader_faithful_of_disk; the snapshot's content has no ghost in C05's model: hypothesis hsn); "
                "memory: tail derived under NoReturn, the cache part d.Faithful stays a hypothesis; a same-id FULLRESYNC (DelRunId x; SetRunId x) "
                "is outside NoReturn (the reader ends by EOF there)",
                "composition with C08: for a STREAM transfer and (session 5) for a SNAPSHOT(+stream) transfer into a fresh directory "
                "nothing is assumed about the script any more (stream_transfer_crash_image_faithful, snapshot_transfer_crash_image_faithful: "
                "wf, SrcOk, SnapRecvOk of the induced script proved from C16's own session facts); a kill in a second / later process life is "
                "covered through C08Root's life model (lives_reopened_faithful, crash_step_ok_lives) with the life's hypotheses discharged for "
                "the stream continuation of a re-opened follower (resume_stream_life_ok, short write included) and for a life that takes a NEW "
                "snapshot on any directory (snapshot_life_ok: NewRdbWriter resets the data set itself; a DelRunId that removed the directory "
                "first makes it a life on the empty one; a kill INSIDE DelRunId's RemoveAll is C08Root's del_run_id_crash_true, not re-stated "
                "in C16's vocabulary); the crash "
                "step's images are not related to the store before the crash; the scripts are tied to the real writers by the harness "
                "(cr=<K>), not by a refinement theorem sessionV -> DOp script",
                "promotion bridge: the memory case is void (memory_cache_lost_at_promotion: the promoted syncer gets a new empty channel); disk: "
                "promoted_new_storer_cache_ok starts from the new Storer (cur = \"\" + VerifyRunId(ids)) over StepC lives; Holds.rdb_tok is true "
                "by construction of cdataOfData (C06 constrains a snapshot only through its token); Agrees is an interface assumption",
                "`halt` (k, ending) of stop / rl / rr rounds is an OBSERVED model input: the differential accepts any k; that no chunk of another "
                "history leaks rests on the bytes monitor + history oracle and on the lsend op (memory)",
                "the composition with C05 (open reader serves its own id) and with C08 (crash images) is proved over THEIR operation-list / "
                "directory-image models; the identification of a `sess` op's Leader record / of a crash round's image with such a run is the "
                "harness's construction (correspondence), not a refinement theorem between the two models",
                "SnapRecvOk is still a hypothesis of crash_image_step_ok ITSELF (general scripts); it is discharged by "
                "snapRecvOk_of_snapSrcOk for every script that satisfies the per-call condition SnapSrcOk, and for the session's transfer script",
                "hq for a memory leader rests on the source never reporting \"?\" (a hostile / broken source is outside the property)",
                "a short write (n > 0 together with an error) under the follower is in the Lean life model (C08's aofAppendShort inside "
                "resume_stream_life_ok) but is not injected by C16's harness (C08's does, with RLIMIT_FSIZE in a child process)",
                "every request of a session still gets its own C05 run (LeaderFromC05 existential per request, not chained); the handshake "
                "guards that compare run ids / codes (selfInspection, Handle's id tests, preSync's first test, handleResp) are still "
                "source-fact strings (c16_calls); the OFFSET guards are regenerated (below)"],
}

MANIFEST = {
    "text": "Lean theorems over ALL histories, leader states (changing between and inside requests), follower stores, chunkings, interruption "
            "points and sequences of sessions/restarts/own appends: whatever the follower holds under a run id stays byte-identical to that id's "
            "history (per id: bytes never move between ids; no directory of another id is created or changed), its stream writer is only ever "
            "opened at the end of its data, a copy under another id / collected at the leader / more than 10 MiB behind is discarded, a CLEAR "
            "answer deletes, an uninterrupted session ends with the follower exactly at the leader's end (resynchronises), an ahead follower gets "
            "HANDOVER and keeps its cache. The model is tied to the real ReplicaFollower.Run and the real ServiceReplica/Handle talking over real "
            "gRPC on both channel backends by differential correspondence of every message read, outcome and resulting store, cut after every "
            "message, with the leader's own input acting between Handle's reads; independent monitors check faithfulness/contiguity directly. "
            "From the offer to the new leader: cmd/syncer.go runCluster of every instance as a state machine over (phase, lease, pauses, cache), "
            "theorems over ALL event lists (any number of instances, every call succeeding or failing, late calls, crashes, restarts): whoever "
            "sends holds the unexpired lease, so no two instances ever send; Resign only after the stop; a stopped leader is silent until it wins "
            "a campaign, and after a hand-over not before its old key has expired (lease <= the 10 s pause); the offered follower leads after "
            "2 s + 1 s with exactly the cache it held (disk), unless the key is somebody else's — then that one leads alone —, or earlier "
            "through its ticker; decide-checked counter-witnesses for each hypothesis. Tied by source facts and by running the real "
            "runCluster of two instances through complete hand-overs (Resign ok / failing / lease longer than the pause) against the model. "
            "Session 4: the hypothesis that an open reader serves its own run id is derived from C05's cache model (disk: any operations of the "
            "leader's input; memory: through sendData's id check after every read, a defect found and fixed); hq is discharged (disk leader "
            "unconditionally, memory leader unless the source itself says '?') over a model of GetRunIds / SendPSync tied to the real functions; "
            "failing file writes and a failing commit of the follower's own store (any fault point: exactly the written bytes are kept, no "
            "snapshot is kept or announced, the next session resumes at the durable end), restarts from crash images (C08's reopen imported), "
            "and the bridge to C06 (a promoted follower's cache satisfies CacheWF / CacheOK) are theorems, tied by fault injection under the real "
            "Run, by killing and restarting the real follower on frozen directory images, and by monitors on the wire. "
            "Session 5: the link between the session model and C08's writers' scripts is proved for snapshot transfers too (a per-call "
            "condition SnapSrcOk implies SnapRecvOk for every script; the script of a session's snapshot+stream transfer satisfies C08's "
            "hypotheses for every chunking: a follower killed at any instant of it re-opens a faithful copy), kills in a second or any "
            "later process life are covered (DirOk is an invariant of lives over C08's restart model, faults and short writes included), "
            "and the follower's own Stop() in the middle of a transfer is generated against the real Run (47 sessions per quick run).",
    "note": "trusted: Lean kernel (propext, Classical.choice, Quot.sound only), grpc-go, harness wrappers and oracle; model hand-written "
            "(correspondence); a leader's cache assumed faithful to its channel id (C05/C06/C08); C05's and C08's models imported for open readers "
            "and crash images",
    "technique": "Lean 4 proof (invariant over the session function, induction on metaSync rounds and on step lists, progress by evaluation; lease invariant over the runCluster machine) + differential correspondence + monitors",
}
