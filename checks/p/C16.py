EXPECTED_CALLS = [
    "handleError: Send code",
    "selfInspection: if len(runIds) == 0",
    "selfInspection: handleError pb.SyncResponse_FAILURE",
    "selfInspection: channel.RunId",
    "selfInspection: if !slices.Contains(runIds, channelRunId) || runIds[0] != channelRunId",
    "selfInspection: handleError pb.SyncResponse_CLEAR",
    "Handle: channel.StartPoint",
    "Handle: if followerRunId == \"\" || followerRunId == \"?\"",
    "Handle: Send pb.SyncResponse_META",
    "Handle: handleError pb.SyncResponse_FAULT",
    "Handle: if inputRunIds[0] != followerRunId",
    "Handle: handleError pb.SyncResponse_ERROR",
    "Handle: if followerOffset-sp.Offset > 0",
    "Handle: Send pb.SyncResponse_HANDOVER",
    "sendData: if !rl.channel.IsValidOffset(Offset{RunId: reqSp.RunId, Offset: reqSp.Offset})",
    "sendData: channel.IsValidOffset",
    "sendData: channel.NewReader",
    "sendData: handleError pb.SyncResponse_CLEAR",
    "sendData: Send pb.SyncResponse_META",
    "sendData: handleError pb.SyncResponse_FAULT",
    "sendData: Send pb.SyncResponse_CONTINUE",
    "sendData: handleError pb.SyncResponse_FAULT",
    "sendData: Send pb.SyncResponse_CONTINUE",
    "sendData: handleError pb.SyncResponse_FAULT",
    "Run: channel.StartPoint",
    "handleResp: if resp.GetCode() == pb.SyncResponse_FAILURE",
    "handleResp: if resp.GetCode() == pb.SyncResponse_ERROR",
    "handleResp: if resp.GetCode() == pb.SyncResponse_FAULT",
    "handleResp: if resp.GetCode() == pb.SyncResponse_HANDOVER",
    "handleResp: if resp.GetCode() == pb.SyncResponse_CLEAR",
    "handleResp: if len(args) == 1",
    "handleResp: channel.DelRunId",
    "protoHandShake: handleResp/2",
    "protoHandShake: handleResp/2",
    "protoHandShake: if sp.RunId == \"\"",
    "protoHandShake: handleResp/2",
    "preSync: channel.StartPoint",
    "preSync: if sp.IsInitial() || !sp.IsValid() || sp.RunId != leaderSp.RunId",
    "preSync: if local != \"\" && local != leaderSp.RunId",
    "preSync: channel.RunId",
    "preSync: channel.DelRunId",
    "preSync: channel.SetRunId",
    "preSync: if gap > 0",
    "preSync: if gap > 10*1024*1024",
    "preSync: channel.DelRunId",
    "preSync: channel.SetRunId",
    "metaSync: handleResp/3",
    "metaSync: handleResp/3",
    "rdbSync: channel.DelRunId",
    "rdbSync: channel.SetRunId",
    "rdbSync: channel.NewRdbWriter",
    "rdbSync: handleResp/2",
    "aofSync: channel.StartPoint",
    "aofSync: if left > sp.Offset && !sp.IsInitial()",
    "aofSync: channel.DelRunId",
    "aofSync: channel.SetRunId",
    "aofSync: channel.NewAofWritter",
    "aofSync: handleResp/2"
]

EXPECTED_CODES = ["CLEAR=3", "CONTINUE=1", "ERROR=11", "FAILURE=12", "FAULT=10", "HANDOVER=2", "META=0"]

PROP = {
    "lean_modules": ["GunYu.Props.C16"],
    "audit_namespaces": ["GunYu.Props.C16"],
    "required_theorems": [
        "GunYu.Props.C16.follower_prefix_of_leader",
        "GunYu.Props.C16.follower_prefix_of_leader_runs",
        "GunYu.Props.C16.follower_contiguous",
        "GunYu.Props.C16.unjoinable_discards",
        "GunYu.Props.C16.ahead_gets_handover",
    ],
    "expected_facts": {"c16_gap_threshold": 10485760, "c16_codes": EXPECTED_CODES, "c16_calls": EXPECTED_CALLS},
    "harness": [{"name": "C16", "pkg": "./syncer/", "test": "TestVerifC16",
                 "timeout_quick": "10m", "timeout_thorough": "40m"}],
    "driver": "drv_C16",
    "rule": "one op per follower session: the real ReplicaLeader.Handle and the real ReplicaFollower steps (protoHandShake, preSync, metaSync, "
            "rdbSync, aofSync, sequenced as ReplicaFollower.Run does) run in-process over a fake gRPC stream (generated stream interfaces over Go "
            "channels) on two real channels (StoreChannel on t.TempDir() with LogSize 40/64/200/1MiB so that segments rotate, MemoryChannel). "
            "Generated pairs: leader {nothing yet, snapshot only, snapshot+stream, stream only (snapshot collected), writer open/closed, not started, "
            "no input ids, input already on a newer id (CLEAR), two input ids, >10 MiB ahead}; follower {nothing, id adopted but empty, same id: prefix / "
            "equal / ahead / position collected at the leader / anywhere, with and without snapshot; another id current (below / within / above the "
            "leader's range); disk: directories of both ids with either or none current, fresh process}. Chunking: the leader's own (4 KiB reads, "
            "segment rotation) and a re-chunking transport (pieces of 1..1/3/17/100 bytes). Every pair runs uncut, then cut after EVERY message "
            "(sample of 6 when more; 40 thorough), quiescent or abrupt (received bytes still in the follower's pipe are lost; the observed number "
            "is an op input), then up to two further sessions on the same follower against a later leader state (grown, collected, new snapshot, "
            "other run id, follower process restarted). Compared with the Lean model: every delivered message (code, id, aof, offset, size, data), "
            "the outcome (stage, class) and the follower's store afterwards (disk: every run-id directory parsed from the files; memory: what the "
            "channel serves). Monitors independent of the model: every byte/snapshot under an id is the leader's at the same (id, offset) or was "
            "stored there before; segments contiguous, files and channel API agree, offered ranges readable; ahead follower => HANDOVER and "
            "untouched cache. distinct_nontrivial = distinct (backend, relation, outcome, #messages, leader shape) with at least two CONTINUE chunks",
    "trusted": ["fake gRPC transport c16Net (unbuffered in-order delivery, cut = every Recv/Send fails) in place of grpc-go",
                "history oracle of the harness (two run ids differ at every offset) and its file parser for the disk backend"],
    "assumptions": ["regenerated: preSync's gap threshold (Gen/ReplicaConsts.lean, used by the model); compared with expectation: response code numbers "
                    "and the ordered list of channel calls / Sends / handleResp arities / guarding conditions of every ReplicaLeader and "
                    "ReplicaFollower method (a change means the model has to be re-read)",
                    "model tied by correspondence (hand-written transcription of syncer/replica.go, channel.go, pkg/store SetRunId/DelRunId/VerifyRunId, "
                    "memory_channel.go StartPoint/SetRunId/DelRunId)",
                    "a leader's cache is a faithful copy of the source's history (C05/C06/C08) and does not change during one follower session",
                    "cache contents at the abstraction of C05's Log: one contiguous byte range + optional snapshot per run id; segment rotation, "
                    "reference counts and the collector are C05's",
                    "the follower's store is observed after it re-reads its directory (StartPoint -> VerifyRunId), as every next user of the channel does",
                    "model of the repaired behaviour: D16 (preSync relabelling), CLEAR answer taken as snapshot announcement, D14 (C05, memory backend keeps "
                    "an interrupted snapshot)"],
    "partial": [],
}

MANIFEST = {
    "text": "Lean theorems over ALL histories, leader states, follower stores, chunkings, interruption points and sequences of sessions: "
            "whatever the follower holds under a run id stays byte-identical to that id's history (per id: bytes never move between ids), its "
            "stream writer is only ever opened at the end of its data (contiguous), a copy under another id is discarded by preSync, an ahead "
            "follower gets HANDOVER and keeps its cache. The model (leader handler, follower state machine, run-id operations of both backends) is "
            "tied to the real ReplicaLeader/ReplicaFollower running in-process over both real channel backends by differential correspondence of "
            "every message, outcome and resulting store, cut after every message; independent monitors check faithfulness/contiguity directly.",
    "note": "trusted: Lean kernel (propext, Classical.choice, Quot.sound only), fake gRPC transport, harness oracle; model hand-written (correspondence); "
            "leader cache assumed faithful and static within a session",
    "technique": "Lean 4 proof (invariant over the session function, induction on metaSync rounds and on session lists) + differential correspondence + monitors",
}
