EXPECTED_CALLS = [
    "handleError: Send code",
    "selfInspection: if len(runIds) == 0",
    "selfInspection: handleError pb.SyncResponse_FAILURE",
    "selfInspection: channel.RunId",
    "selfInspection: if !slices.Contains(runIds, channelRunId) || runIds[0] != channelRunId",
    "selfInspection: handleError pb.SyncResponse_CLEAR",
    "Handle: channel.StartPoint",
    "Handle: if followerRunId == \"\" || followerRunId == \"?\"",
    "Handle: Send pb.SyncResponse_META",
    "Handle: handleError pb.SyncResponse_FAULT",
    "Handle: if inputRunIds[0] != followerRunId",
    "Handle: handleError pb.SyncResponse_ERROR",
    "Handle: if followerOffset-sp.Offset > 0",
    "Handle: Send pb.SyncResponse_HANDOVER",
    "sendData: if !rl.channel.IsValidOffset(Offset{RunId: reqSp.RunId, Offset: reqSp.Offset})",
    "sendData: channel.IsValidOffset",
    "sendData: channel.NewReader",
    "sendData: handleError pb.SyncResponse_CLEAR",
    "sendData: if reader.RunId() != reqSp.RunId",
    "sendData: handleError pb.SyncResponse_ERROR",
    "sendData: Send pb.SyncResponse_META",
    "sendData: handleError pb.SyncResponse_FAULT",
    "sendData: Send pb.SyncResponse_CONTINUE",
    "sendData: handleError pb.SyncResponse_FAULT",
    "sendData: Send pb.SyncResponse_CONTINUE",
    "sendData: handleError pb.SyncResponse_FAULT",
    "Run: leaderSp, err = rf.protoHandShake(cli)",
    "Run: followerSp, err = rf.preSync(leaderSp)",
    "Run: stream, resp, err = rf.metaSync(followerSp, cli)",
    "Run: state = 5",
    "Run: state = 4",
    "Run: err = rf.rdbSync(followerSp, stream, resp)",
    "Run: followerSp, err = rf.channel.StartPoint([]string{leaderSp.RunId})",
    "Run: channel.StartPoint",
    "Run: state = 3",
    "Run: err = rf.aofSync(followerSp, stream, resp)",
    "Run: state = 1",
    "Run: state++",
    "Run: state = 1",
    "handleResp: if resp.GetCode() == pb.SyncResponse_FAILURE",
    "handleResp: if resp.GetCode() == pb.SyncResponse_ERROR",
    "handleResp: if resp.GetCode() == pb.SyncResponse_FAULT",
    "handleResp: if resp.GetCode() == pb.SyncResponse_HANDOVER",
    "handleResp: if resp.GetCode() == pb.SyncResponse_CLEAR",
    "handleResp: if len(args) == 1",
    "handleResp: channel.DelRunId",
    "protoHandShake: handleResp/2",
    "protoHandShake: handleResp/2",
    "protoHandShake: if sp.RunId == \"\"",
    "protoHandShake: handleResp/2",
    "preSync: channel.StartPoint",
    "preSync: if sp.IsInitial() || !sp.IsValid() || sp.RunId != leaderSp.RunId",
    "preSync: if local != \"\" && local != leaderSp.RunId",
    "preSync: channel.RunId",
    "preSync: channel.DelRunId",
    "preSync: channel.SetRunId",
    "preSync: if gap > 0",
    "preSync: if gap > 10*1024*1024",
    "preSync: channel.DelRunId",
    "preSync: channel.SetRunId",
    "metaSync: handleResp/3",
    "metaSync: handleResp/3",
    "rdbSync: channel.DelRunId",
    "rdbSync: channel.SetRunId",
    "rdbSync: channel.NewRdbWriter",
    "rdbSync: handleResp/2",
    "aofSync: channel.StartPoint",
    "aofSync: if left > sp.Offset && !sp.IsInitial()",
    "aofSync: channel.DelRunId",
    "aofSync: channel.SetRunId",
    "aofSync: channel.NewAofWritter",
    "aofSync: handleResp/2",
    "ServiceReplica: if role != SyncerRoleLeader || state != SyncerStateRun || leader == nil",
    "ServiceReplica: return ErrReplicaNoRunning",
    "ServiceReplica: return leader.Handle(wait, req, stream)"
]

EXPECTED_CMD = [
    "Sync: if sy.sync == nil || sy.wait.IsClosed()",
    "Sync: return status.Error(codes.Unavailable, fmt.Sprintf(\"syncer(%s) is not running\", addr))",
    "Sync: sy.wait.WgAdd(1)",
    "Sync: err := sy.sync.ServiceReplica(req, stream)",
    "Sync: if err != nil",
    "Sync: if errors.Is(err, syncer.ErrBreak)",
    "Sync: sc.getRunWait().Close(err)",
    "Sync: if errors.Is(err, syncer.ErrRole)",
    "Sync: sy.wait.Close(err)",
    "Sync: return err",
    "runCluster: runWait.Sleep(1 * time.Second)",
    "runCluster: if role == cluster.RoleLeader",
    "runCluster: err = sy.RunLeader()",
    "runCluster: if role == cluster.RoleFollower",
    "runCluster: err = sy.RunFollower(leader)",
    "runCluster: syncerWait.Close(err)",
    "runCluster: syncerWait.Close(fmt.Errorf(\"panic : %v\", i))",
    "runCluster: sc.clusterTicker(syncerWait, role, elect, cfg.Input.Address(), key)",
    "runCluster: sy.Stop()",
    "runCluster: syncerWait.WgWait()",
    "runCluster: err = syncerWait.Error()",
    "runCluster: if role == cluster.RoleLeader",
    "runCluster: terr := elect.Resign(ctx)",
    "runCluster: if errors.Is(err, syncer.ErrLeaderHandover)",
    "runCluster: runWait.Sleep(10 * time.Second)",
    "runCluster: if errors.Is(err, syncer.ErrLeaderTakeover)",
    "runCluster: time.Sleep(1 * time.Second)",
    "runCluster: if errors.Is(err, syncer.ErrBreak)",
    "runCluster: time.Sleep(1 * time.Second)"
]

EXPECTED_CODES = ["CLEAR=3", "CONTINUE=1", "ERROR=11", "FAILURE=12", "FAULT=10", "HANDOVER=2", "META=0"]

PROP = {
    "lean_modules": ["GunYu.Props.C16"],
    "audit_namespaces": ["GunYu.Props.C16"],
    "required_theorems": [
        "GunYu.Props.C16.follower_prefix_of_leader",
        "GunYu.Props.C16.follower_prefix_of_leader_runs",
        "GunYu.Props.C16.others_untouched",
        "GunYu.Props.C16.follower_contiguous",
        "GunYu.Props.C16.unjoinable_discards",
        "GunYu.Props.C16.unjoinable_discards_session",
        "GunYu.Props.C16.gap_discards",
        "GunYu.Props.C16.gap_discards_session",
        "GunYu.Props.C16.collected_discards",
        "GunYu.Props.C16.clear_deletes",
        "GunYu.Props.C16.clear_deletes_any",
        "GunYu.Props.C16.resynchronises",
        "GunYu.Props.C16.resynchronises_keeps_copy",
        "GunYu.Props.C16.ahead_gets_handover",
        "GunYu.Props.C16.handover_leader_steps_down",
    ],
    "expected_facts": {"c16_gap_threshold": 10485760, "c16_codes": EXPECTED_CODES, "c16_calls": EXPECTED_CALLS, "c16_cmd": EXPECTED_CMD},
    "harness": [{"name": "C16", "pkg": "./syncer/", "test": "TestVerifC16",
                 "timeout_quick": "30m", "timeout_thorough": "60m"},
                {"name": "C16cmd", "pkg": "./cmd/", "test": "TestVerifC16Cmd",
                 "timeout_quick": "30m", "timeout_thorough": "60m"}],
    "driver": "drv_C16",
    "rule": "one op per pass of the REAL ReplicaFollower.Run (handshake .. first error; Run's error pauses are intercepted through its WaitCloser, "
            "its logged error gives the outcome) talking over real gRPC on loopback (generated client/server code, real serialisation) to the REAL "
            "syncer.ServiceReplica -> ReplicaLeader.Handle/sendData, on two real channels (StoreChannel on t.TempDir() with LogSize 40/64/200/1MiB so "
            "that segments rotate, MemoryChannel). The harness owns the server-side stream wrapper (counts, re-chunks CONTINUE into pieces of "
            "1..1/3/17/100 bytes, fails every Send after `cut` messages) and wrappers of the leader's Input and Channel that let the leader's own "
            "input act between the reads of one request (gate+selfInspection | input ids+StartPoint | IsValidOffset | NewReader): PSYNC2 fail-over "
            "(ids, relabel, new master's bytes), full resynchronisation under another id (setRunIds, DelRunId, SetRunId, snapshot+stream, also with "
            "overlapping offsets), growth / collection / new snapshot, performed with the real channel operations in syncer/input.go's order. "
            "Generated pairs: leader {nothing yet, snapshot only, snapshot+stream, stream only, writer open/closed, not started, not leader (gate), "
            "no input ids, input already on a newer id (CLEAR), two input ids, tail appended while a stream reader is open}; follower {nothing, id "
            "adopted but empty, same id: prefix / equal / ahead (also by 1-2 bytes) / collected at the leader / ending at the leader's first offset "
            "-1,0,+1 / 10 MiB -1,0,+1 behind / anywhere, with and without snapshot; another id current (below / within / above the leader's range); "
            "disk: directories of both ids with either or none current, fresh process}. Every pair runs uncut, then cut after EVERY message (sample "
            "of 6 when more; 40 thorough), quiescent or abrupt (bytes still in the follower's pipe are lost; the observed number is an op input, and a "
            "loss in a quiescent cut is a violation), then the SAME Run goes on against later leader states (or a new process after a restart); two "
            "more sessions per pair with the leader's input acting mid-session; two with the leader STOPPED in the middle of a transfer (its syncer's "
            "wait closed after 1-4 CONTINUE messages: clean end of stream or FAULT, both observed and passed to the model); an ahead follower "
            "against a leader whose input has moved to another id (CLEAR before the ahead test); per run 2 (6 thorough) transfers of 1.1-1.5 MiB "
            "(larger than the follower's pipe) cut abruptly and continued. Second harness C16cmd: the real (*SyncerCmd).Sync (cmd/syncer_api.go) "
            "around the real ServiceReplica on a real memory channel, leader states x requests (handshake, behind, equal, ahead by 1 and more, "
            "other id): first answer and whether Sync stopped this input's syncer (role error) or all (break error) compared with the model's "
            "syncReact; monitor HANDOVER <=> the leader's syncer is stopped with ErrLeaderHandover; end to end: the real Run of an ahead follower "
            "over gRPC against the registered SyncerCmd ends with ErrLeaderTakeover, the leader's syncer wait closed, the follower's cache intact. "
            "Compared with the Lean model: every message the follower read (code, "
            "id, aof, offset, size, data), the outcome (stage, class) and the follower's store afterwards (disk: every run-id directory parsed from "
            "the files; memory: what the channel serves). Monitors independent of the model: every byte/snapshot under an id is a byte some state of "
            "the leader held under the same (id, offset) or was stored there before; segments contiguous, files and channel API agree, offered ranges "
            "readable; ahead follower => HANDOVER and untouched cache (untouched also when cut earlier); when more than 2% of the cases cannot be built the "
            "harness itself fails (a broken tie, not a verdict about the property); classes that did not occur in a run are evidence counters "
            "(class_not_generated_*); a quiescent cut is made when the follower's channel reports every sent byte as stored (explicit condition, 120 s "
            "hard limit; if the limit is hit the cut counts as abrupt). corpus/C16: defect witnesses and the boundary states. "
            "distinct_nontrivial = distinct (backend, relation, outcome, #messages, leader shape, static?) with at least two CONTINUE chunks",
    "trusted": ["grpc-go on loopback TCP between the real Run and the real ServiceReplica (no fake transport); the harness's stream wrapper, "
                "WaitCloser/Logger wrappers of the follower and Input/Channel wrappers of the leader",
                "history oracle of the harness (two run ids differ at every offset) and its file parser for the disk backend"],
    "assumptions": ["regenerated: preSync's gap threshold (Gen/ReplicaConsts.lean, used by the model); compared with expectation: response code numbers "
                    "and the ordered list of channel calls / Sends / handleResp arities / guarding conditions of every ReplicaLeader and "
                    "ReplicaFollower method, Run's state assignments and ServiceReplica's gate (a change means the model has to be re-read)",
                    "model tied by correspondence (hand-written transcription of syncer/replica.go, syncer_replica.go, channel.go, pkg/store "
                    "SetRunId/DelRunId/VerifyRunId, memory_channel.go StartPoint/SetRunId/DelRunId)",
                    "the cache a leader's reader is opened on is a faithful copy of the source's history of the channel's run id (C05/C06/C08); the "
                    "leader may change between and inside requests (four read points per request), but a stream reader that is already open is "
                    "modelled as serving its own run id to the end (plus the tail appended meanwhile, or stopped with the leader): that an id "
                    "switch of the channel closes what is open on the old index is C05's (fixed in /repo 2df2ed4; memory backend 8590cdd)",
                    "hypothesis hq of the theorems, not discharged: the leader's channel run id is never the literal \"?\" (the input sets it from "
                    "the source's 40-hex replication id)",
                    "consequence of the D16 repair, intended: after a PSYNC2 fail-over of the source the LEADER relabels its cache (its histories "
                    "join) while every follower deletes its whole copy and restarts at the leader's newest offset without a snapshot; a follower "
                    "promoted soon afterwards holds a cache that starts after the target's resume position (a full sync there), and HANDOVER is "
                    "not reachable across a fail-over; likewise an AHEAD follower that meets a leader whose input has already moved to another id "
                    "gets CLEAR ('wait a moment' precedes the ahead test) and deletes its copy (theorem clear_deletes_any, counter "
                    "ahead_answered_clear) — that copy belongs to the superseded id and would be dropped by the next preSync anyway",
                    "resynchronises / AtLeaderTip means: positioned at the leader's end, holding what arrived since — the leader's older bytes "
                    "only where the follower's own copy joined (resynchronises_keeps_copy); after a discard the follower holds no snapshot and "
                    "nothing older than the leader's newest offset at that moment",
                    "cache contents at the abstraction of C05's Log: one contiguous byte range + optional snapshot per run id (contiguity of the "
                    "store is by this representation plus the theorem that the stream writer is only opened at its end; the harness's file parser "
                    "and the API/file comparison check it on the real store); segment rotation, reference counts and the collector are C05's",
                    "the follower's store is observed while Run pauses after its error, after it re-reads its directory (StartPoint -> "
                    "VerifyRunId), as every next user of the channel does",
                    "messages the follower does not read (after the first message of a handshake, after a non-META first answer — e.g. what Handle "
                    "goes on sending after selfInspection's CLEAR) are not part of the compared trace",
                    "model of the repaired behaviour: D16 (preSync relabelling), CLEAR answer taken as snapshot announcement, reader of another run id "
                    "streamed by sendData (all three fixed in /repo), D14 (C05)",
                    "not generated: the follower's own Stop() in the middle of a transfer; back-pressure of the follower's pipe is not forced "
                    "(transfers above the pipe size are generated, but the real writers drain it quickly); the syncer's channel shared between the "
                    "follower and leader roles of one process (runFollower/RunLeader on one channel object) — the harness owns one channel per role"],
    "partial": ["'is offered leadership' is verified on both sides up to the closed wait: follower — Run returns ErrLeaderTakeover with its cache "
                "intact; leader — HANDOVER makes ServiceReplica return a role error and the real SyncerCmd.Sync close this input's syncer wait "
                "(theorem handover_leader_steps_down + harness C16cmd). What cmd/syncer.go runCluster does next (sy.Stop, elect.Resign, 10 s pause "
                "of the old leader, 1 s pause and campaign of the follower) is NOT executed by this check: it is pinned by the source facts c16_cmd "
                "(order of the calls and conditions) and the lease side is C15's"],
}

MANIFEST = {
    "text": "Lean theorems over ALL histories, leader states (changing between and inside requests), follower stores, chunkings, interruption "
            "points and sequences of sessions/restarts/own appends: whatever the follower holds under a run id stays byte-identical to that id's "
            "history (per id: bytes never move between ids; no directory of another id is created or changed), its stream writer is only ever "
            "opened at the end of its data, a copy under another id / collected at the leader / more than 10 MiB behind is discarded, a CLEAR "
            "answer deletes, an uninterrupted session ends with the follower exactly at the leader's end (resynchronises), an ahead follower gets "
            "HANDOVER and keeps its cache. The model is tied to the real ReplicaFollower.Run and the real ServiceReplica/Handle talking over real "
            "gRPC on both channel backends by differential correspondence of every message read, outcome and resulting store, cut after every "
            "message, with the leader's own input acting between Handle's reads; independent monitors check faithfulness/contiguity directly.",
    "note": "trusted: Lean kernel (propext, Classical.choice, Quot.sound only), grpc-go, harness wrappers and oracle; model hand-written "
            "(correspondence); a leader's cache assumed faithful to its channel id, open readers assumed to serve their own id (C05)",
    "technique": "Lean 4 proof (invariant over the session function, induction on metaSync rounds and on step lists, progress by evaluation) + differential correspondence + monitors",
}
