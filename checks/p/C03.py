EXPECTED_RDB_CONSTS = {
    "RdbVersion": 13,
    "RdbTypeString": 0, "RdbTypeList": 1, "RdbTypeSet": 2, "RdbTypeZSet": 3, "RdbTypeHash": 4, "RdbTypeZSet2": 5,
    "RdbTypeModule": 6, "RdbTypeModule2": 7, "RdbTypeHashZipmap": 9, "RdbTypeListZiplist": 10, "RdbTypeSetIntset": 11,
    "RdbTypeZSetZiplist": 12, "RdbTypeHashZiplist": 13, "RdbTypeQuicklist": 14, "RDBTypeStreamListPacks": 15,
    "RdbTypeHashListpack": 16, "RdbTypeZSetListpack": 17, "RdbTypeQuicklist2": 18, "RDBTypeStreamListPacks2": 19,
    "RdbTypeSetListpack": 20, "RdbTypeStreamListPacks3": 21, "RdbTypeStreamListPacks4": 26,
    "RdbFlagSlotInfo": 244, "RdbTypeFunction2": 245, "RdbTypeFunction": 246, "RdbFlagModuleAux": 247, "RdbFlagIdle": 248,
    "RdbFlagFreq": 249, "RdbFlagAUX": 250, "RdbFlagResizeDB": 251, "RdbFlagExpiryMS": 252, "RdbFlagExpiry": 253,
    "RdbFlagSelectDB": 254, "RdbFlagEOF": 255,
    "rdbModuleOpcodeEof": 0, "rdbModuleOpcodeSint": 1, "rdbModuleOpcodeUint": 2, "rdbModuleOpcodeFloat": 3,
    "rdbModuleOpcodeDouble": 4, "rdbModuleOpcodeString": 5,
    "rdb6bitLen": 0, "rdb14bitLen": 1, "rdb32bitLen": 128, "rdb64bitLen": 129, "rdbEncVal": 3,
    "rdbEncInt8": 0, "rdbEncInt16": 1, "rdbEncInt32": 2, "rdbEncLZF": 3,
    "maxBinEntryBuffer": 16777216,
}

PROP = {
    "lean_modules": ["GunYu.Props.C03"],
    "audit_namespaces": ["GunYu.Props.C03"],
    "required_theorems": [
        "GunYu.Props.C03.crc64_tab_eq_jones",
        "GunYu.Props.C03.dump_payload",
        "GunYu.Props.C03.dump_verifies",
        "GunYu.Props.C03.string_roundtrip",
        "GunYu.Props.C03.lzf_roundtrip",
        "GunYu.Props.C03.ziplist_roundtrip",
        "GunYu.Props.C03.listpack_roundtrip",
        "GunYu.Props.C03.intset_roundtrip",
        "GunYu.Props.C03.expand_roundtrip",
        "GunYu.Props.C03.raw_is_encode",
        "GunYu.Props.C03.ttl_absolute",
        "GunYu.Props.C03.replay_db",
    ],
    "expected_facts": {"crc64tab_len": 256, "rdb_consts": EXPECTED_RDB_CONSTS},
    "harness": [
        {"name": "C03dec", "pkg": "./pkg/rdb/", "test": "TestVerifC03Dec"},
        {"name": "C03replay", "pkg": "./syncer/", "test": "TestVerifC03Replay"},
    ],
    "rule": "",
    "trusted": [],
    "assumptions": [],
    "partial": [],
    "driver": "drv_C03",
}

MANIFEST = {
    "text": "",
    "note": "",
    "technique": "Lean 4 proof + differential correspondence",
}
