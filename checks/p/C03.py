EXPECTED_RDB_CONSTS = {
    "RdbVersion": 13,
    "RdbTypeString": 0, "RdbTypeList": 1, "RdbTypeSet": 2, "RdbTypeZSet": 3, "RdbTypeHash": 4, "RdbTypeZSet2": 5,
    "RdbTypeModule": 6, "RdbTypeModule2": 7, "RdbTypeHashZipmap": 9, "RdbTypeListZiplist": 10, "RdbTypeSetIntset": 11,
    "RdbTypeZSetZiplist": 12, "RdbTypeHashZiplist": 13, "RdbTypeQuicklist": 14, "RDBTypeStreamListPacks": 15,
    "RdbTypeHashListpack": 16, "RdbTypeZSetListpack": 17, "RdbTypeQuicklist2": 18, "RDBTypeStreamListPacks2": 19,
    "RdbTypeSetListpack": 20, "RdbTypeStreamListPacks3": 21, "RdbTypeStreamListPacks4": 26,
    "RdbFlagSlotInfo": 244, "RdbTypeFunction2": 245, "RdbTypeFunction": 246, "RdbFlagModuleAux": 247, "RdbFlagIdle": 248,
    "RdbFlagFreq": 249, "RdbFlagAUX": 250, "RdbFlagResizeDB": 251, "RdbFlagExpiryMS": 252, "RdbFlagExpiry": 253,
    "RdbFlagSelectDB": 254, "RdbFlagEOF": 255,
    "rdbModuleOpcodeEof": 0, "rdbModuleOpcodeSint": 1, "rdbModuleOpcodeUint": 2, "rdbModuleOpcodeFloat": 3,
    "rdbModuleOpcodeDouble": 4, "rdbModuleOpcodeString": 5,
    "rdb6bitLen": 0, "rdb14bitLen": 1, "rdb32bitLen": 128, "rdb64bitLen": 129, "rdbEncVal": 3,
    "rdbEncInt8": 0, "rdbEncInt16": 1, "rdbEncInt32": 2, "rdbEncLZF": 3,
    "maxBinEntryBuffer": 16777216,
}

PROP = {
    "lean_modules": ["GunYu.Props.C03", "GunYu.Props.C03S5"],
    "audit_namespaces": ["GunYu.Props.C03"],
    "required_theorems": [
        "GunYu.Props.C03.crc64_tab_eq_jones",
        "GunYu.Props.C03.dump_payload",
        "GunYu.Props.C03.dump_verifies",
        "GunYu.Props.C03.string_roundtrip",
        "GunYu.Props.C03.lzf_roundtrip",
        "GunYu.Props.C03.ziplist_roundtrip",
        "GunYu.Props.C03.listpack_roundtrip",
        "GunYu.Props.C03.intset_roundtrip",
        "GunYu.Props.C03.expand_roundtrip",
        "GunYu.Props.C03.expand_roundtrip_frame",
        "GunYu.Props.C03.next_key_entry",
        "GunYu.Props.C03.expand_path_final",
        "GunYu.Props.C03.fanOut_keeps_order",
        "GunYu.Props.C03.raw_is_encode",
        "GunYu.Props.C03.chunked_roundtrip",
        "GunYu.Props.C03.hash_unsplit_raw_is_encode",
        "GunYu.Props.C03.fanOut_same_key",
        "GunYu.Props.C03.stream_roundtrip_partial",
        "GunYu.Props.C03.stream_roundtrip",
        "GunYu.Props.C03.stream_expand_roundtrip",
        "GunYu.Props.C03.sound_test_sound",
        "GunYu.Props.C03.raw_is_encode_opaque",
        "GunYu.Props.C03.next_opaque_entry",
        "GunYu.Props.C03.next_skips_module_aux",
        "GunYu.Props.C03.full_sync_streams",
        "GunYu.Props.C03.carried_carriedS",
        "GunYu.Props.C03.restore_fallback_path",
        "GunYu.Props.C03.fanout_parallel_streams",
        "GunYu.Props.C03.stream_pel_logical",
        "GunYu.Props.C03.expand_path_existing",
        "GunYu.Props.C03.restore_path",
        "GunYu.Props.C03.expand_path",
        "GunYu.Props.C03.header_roundtrip",
        "GunYu.Props.C03.footer_roundtrip",
        "GunYu.Props.C03.ttl_absolute",
        "GunYu.Props.C03.replay_db",
        "GunYu.Props.C03.full_sync_partial",
        "GunYu.Props.C03.full_sync_key",
        "GunYu.Props.C03.fanout_workers_irrelevant",
        "GunYu.Props.C03.oracle_keys_commute",
        "GunYu.Props.C03.fanout_parallel_partial",
        "GunYu.Props.C03.fanout_parallel",
        "GunYu.Props.C03.zipmap_roundtrip",
        "GunYu.Props.C03.zipmap_expand_roundtrip",
        "GunYu.Props.C03.module_v1_refused",
        "GunYu.Props.C03.module_v1_ends_parse",
        "GunYu.Props.C03.stream_cmds_name_key",
        "GunYu.Props.C03.zset_v1_score_roundtrip",
        "GunYu.Props.C03.zset_v1_expand_roundtrip",
    ],
    "expected_facts": {"crc64tab_len": 256, "rdb_consts": EXPECTED_RDB_CONSTS,
                       # repair of C03-F1: the model is of a loader built WithStreamIdleConsumers; these are all the
                       # production sites that parse a snapshot and where the option is passed (sendRdb takes
                       # ro.rdbParseOptions())
                       "idle_consumer_option_sites": ["syncer/output.go:rdbParseOptions", "cmd/rdb.go:Print"],
                       "rdb_parse_sites": ["syncer/output.go:sendRdb:ParseRdb", "cmd/rdb.go:Print:ParseRdb"],
                       # dimension audit: process-global state of the anchor packages; nothing writes it after
                       # initialisation (the models read these as constants; maxBinEntryBuffer only through the test hook)
                       "c03_pkg_vars": ["pkg/digest:crc16tab", "pkg/digest:crc64_table", "pkg/rdb:RdbVersion",
                                        "pkg/rdb:maxBinEntryBuffer", "pkg/rdb:rdbObjectMap", "pkg/rdbrestore:ErrRestoreRdb"],
                       "c03_pkg_var_writes": []},
    "harness": [
        {"name": "C03dec", "pkg": "./pkg/rdb/", "test": "TestVerifC03Dec"},
        {"name": "C03replay", "pkg": "./syncer/", "test": "TestVerifC03Replay"},
    ],
    "rule": "datasets are DESCRIPTIONS (logical value + every encoding choice: length forms, int/LZF strings, container encoding, "
            "integer widths, prevlen forms, zllen known/unknown, raw or LZF-compressed blobs) generated from the seed by "
            "pkg/vfc03; the Lean encoder (specification) turns each description into snapshot bytes (drv_C03 `gen`), the Go "
            "harness feeds them to the real code. C03dec: real ParseRdb/Next/ReadBuffer/ExecCmd/CreateValueDump vs the Lean "
            "decoder model per entry (db,key,type,expiry,idle,freq,first/split,payload bytes,expanded commands) on corpus + "
            "22 Redis-produced fixture blobs of loader_test.go x 3 configs + 250 (quick) / 5200 (thorough) generated files "
            "(RDB versions 1..13, thresholds 1/5/20/100/16MiB) + truncated/byte-altered variants; digest.New and "
            "CreateValueDump vs an independent bitwise CRC64. C03replay: real RedisOutput.sendRdb (ParseRdb -> fan-out -> "
            "rdbReplay -> RdbReplay.Replay) in a synctest bubble against the in-process target double, 220 / 4400 files x "
            "random config (restore on/off, MaxProtoBulkLen 30/120/512MiB, parallel 1-4, TargetDb, TargetDbMap, target "
            "version 4-8, threshold, pre-existing keys of other type/with TTL, OUTPUT FILTER: multi-DB datasets whose keys - "
            "preferably the first key of a DB - carry the reserved prefixes redis-gunyu-checkpoint* / /redis-gunyu*, or are hit "
            "by configured prefix black/white lists, slot black/white ranges, DB black list); per-worker request logs vs the Lean "
            "replay model (filterDb/filterKey are parameters of Model/Rdb/Replay.lean: SELECT follows the entry's DB before the "
            "key/slot filter is asked); monitor also checks every unfiltered key lands in its mapped DB and filtered keys / "
            "black-listed DBs are absent (independent prefix + bitwise HASH_SLOT decision); monitor = target double's interpreter reconstructs the keyspace and compares with the dataset (type, "
            "content incl. order/scores/fields/stream entries+ids+groups+PEL, TTL = expireAt-now or expired-at-once, DB "
            "mapping, RESTORE payload = type+serialization+0x0006+CRC64 by the independent CRC). "
            "Clock: the bubble starts the replay at the odd instant 946684923457 ms; in half of the cases (one lane) every request "
            "lets 1 ms of virtual time pass, the model computes each entry's clock from the request count, and the double "
            "judges the ABSOLUTE expiry each PEXPIRE/RESTORE establishes (target clock at the entry's first request + ttl) "
            "against the dataset's. The double refuses RESTORE payloads of a type newer than the target version with "
            "`Bad data format` (fallback to expansion with probe/DEL/PEXPIRE is in the model). float64 arguments are rendered with "
            "the client's real proto.Writer and must parse back to the same double. Also generated: elements of ~16 KiB (1/8 of "
            "files) and one of ~2 MiB per run (listpack back-length steps), module values (type 7) and module aux data with both "
            "policies (expected failures are checked as such), the same key name in several source DBs, the empty key, "
            "IDLETIME/FREQ expectations taken from the dataset. "
            "Round 2: containers of 99/100/101/200/201/250 elements (the 100-command pipeline batches of the expansion path), one "
            "listpack set and one listpack hash of >= 65535 elements per run (count field 65535 = unknown), LZF strings of "
            "9-12 KiB with back references 2048-8192 bytes back, a ReplaceHashTag lane (1/4 of cases + every 8th file with "
            "{tagged} keys and streams with groups/PEL: XGROUP/XCLAIM/XSETID key positions). Expiry oracle: the double records "
            "the absolute expiry each PEXPIRE / PEXPIREAT / RESTORE [ABSTTL] really establishes (target clock AT the request + "
            "ttl); the monitor accepts it when it is not early and late by at most the time the entry's own requests had taken "
            "(max observed lateness is in the stats: max_expiry_lateness_ms), so a more exact implementation is not flagged. "
            "A parse has no wall-clock limit while it makes progress (bytes read / entries / commands); only 120 s without "
            "any progress on a well-formed file is reported (parser-hang). "
            "Session 4: every generated stream that passes the VERIFIED soundness test (Lean StreamE.soundB, "
            "sound_test_sound) is additionally compared with the SPECIFICATION side of the new theorems: op `svc` (C03dec) = "
            "the real StreamParser.ExecCmd output of the key vs Lean StreamE.cmds (XADD / MAXLEN-0 trick / XSETID / XGROUP "
            "CREATE [ENTRIESREAD] / XCLAIM ... TIME RETRYCOUNT JUSTID FORCE), op `svv` (C03replay) = the stream the real "
            "replay (sendRdb -> rdbrestore -> target double) leaves, entries / last id / counters / groups in creation order / "
            "pending entries in XCLAIM order, vs Lean StreamE.xval - the value stream_roundtrip and full_sync_streams end in. "
            "The stream generator now also produces groups whose entries-read is unknown (-1, saved as 2^64-1), groups whose "
            "last-delivered id lies beyond the stream's last id, and counts its shapes (stream_ver_*, stream_empty, "
            "stream_with_deleted_entries, stream_ids_above_2^63, stream_with_pending_entries, "
            "stream_with_consumer_without_pending, stream_group_entries_read_unknown, ...; replayed_* = the ones that went "
            "through the expansion path of the real replay). Routing: the l2 model routes an entry by the key it is REPLAYED "
            "to (dstKey; /repo 630424b). "
            "Session 5: zipmaps (type 9) with items on both sides of the one-byte / five-byte length form (252..257, 300, 1000, "
            "70000 bytes) and with 253..300 pairs (<zmlen> saturated: counting walk) - kinds hzm_biglen / hzm_manypairs; "
            "old-format sorted sets (type 3) whose scores are arbitrary decimal texts (kind zs1_decimal_text: `%.17g` of random "
            "doubles, shortest form, fixed / exponent forms with too few or too many digits, texts exactly half way between two "
            "doubles and one digit beside, subnormals, the largest double): the real ReadFloat (strconv.ParseFloat) against the "
            "Lean model's exact rational rounding (Model/Rdb/Float.lean parseF64), bit pattern by bit pattern; a module value of "
            "the old format (type 6) is refused by code and model alike (corpus m6); the C03dec loader is built with "
            "rdb.WithStreamIdleConsumers like the production call sites (source facts idle_consumer_option_sites / "
            "rdb_parse_sites: every non-test rdb.ParseRdb / rdb.NewLoader site and where the option is passed); since /repo "
            "e867911 (another owner's fix) rdbReplay also withholds an entry whose TARGET key under ReplaceHashTag lies in the "
            "tool's own namespaces: part of the filterKey parameter the driver builds (Drive/C03.lean targetReserved) and of the "
            "monitor's independent decision (vfc03.FilterSpec.RHT); a consumer "
            "without pending entries missing on a 6.2+ target is the violation stream-idle-consumer-missing. "
            "Dimension audit (session 5, last round): one counter per option value that selects a branch (cfg_*: chunk threshold, "
            "target version 4 / 5 / 6.0 / 6.2 / 7.0 / 7.2 / 8.0 / 8.2 written as M, M.m, M.m.0, M.m.14, functionExists, module aux "
            "policy, restore on/off, MaxProtoBulkLen, parallel, replaceHashTag, TargetDb, TargetDbMap, each filter list; keyExists is "
            "fixed to replace and the target to stand-alone: declared). Forced degenerate-but-legal shapes, one per third file in turn "
            "(dim_forced_*): the empty key as first key of a database, an empty string value, database numbers 16 .. 100000 in every "
            "length form, a selected-and-sized but EMPTY database between used ones, FUNCTION LIBRARIES (type 245, never generated "
            "before: before the first database and between keys; monitor function-libraries: one FUNCTION RESTORE with the policy's "
            "option word per library on a 7+ target, none below), LFU and LRU info on one key. Expiry DURING the replay: keys that "
            "expire 1..40 ms after the start and, as first key of every fourth file, a hash table of >= 6 pairs under chunk threshold "
            "1 / 20 / 100 that expires 3..12 requests in - between two of its bins when the clock advances per request; the target "
            "double now removes a key whose expiry (set by a request of this replay) its clock has reached when the next request "
            "touches it, the monitor demands that such a key is gone or left expired (expired-key-survives otherwise; counters "
            "keys_expiring_during_the_replay, keys_removed_by_the_target_clock_reaching_their_expiry). Only RdbTypeHash is ever "
            "split by the loader (source: the one use of maxBinEntryBuffer), so `split x every collection type` has one member. "
            "Source facts c03_pkg_vars / c03_pkg_var_writes: the package-level variables of pkg/rdb, rdbrestore, redis/types, digest "
            "and every assignment to one outside its declaration (none). "
            "distinct_nontrivial = (kind, value-shape) classes seen",
    "trusted": [
        "RDB on-disk encodings as transcribed in Model/Rdb/{Str,Ziplist,Listpack,Stream,Enc}.lean (encoders = specification: "
        "length forms, int/LZF strings, ziplist, listpack, intset, zipmap, quicklist v1/v2, stream listpacks v1-v4, file frame); "
        "cross-checked against the Redis-produced fixture blobs the repo carries (decoder model = real decoder on all 22)",
        "CRC-64/Jones bitwise definition (check value 0xe9c6d914c4b8d9ca proved) and Redis verifyDumpPayload as transcribed",
        "Redis command semantics used as replay oracle (Model/RedisSem.lean) and the Go target double pkg/vfc03/target.go "
        "(SET/RPUSH/SADD/ZADD/HSET/XADD/XSETID/XGROUP CREATE/XCLAIM/DEL/PEXPIRE/RESTORE incl. BUSYKEY, integer-argument parsing); "
        "stream commands follow t_stream.c (review r4: oracle and double made faithful, rules cited in Model/RedisSem.lean "
        "and pkg/vfc03/target.go): XADD with an explicit id needs an id above the stream's last id (0-0 for a new key) and at "
        "least one field pair, MAXLEN 0 leaves no entry; XSETID: strict ids, ENTRIESADDED a non-negative long long, id >= "
        "MAXDELETEDID, on a non-empty stream id >= top entry and ENTRIESADDED >= length, a 0-0 MAXDELETEDID leaves the field; "
        "XGROUP CREATE: strict id, BUSYGROUP, ENTRIESREAD a long long >= -1; XGROUP CREATECONSUMER (6.2+); XCLAIM key group "
        "consumer 0 id TIME t RETRYCOUNT n JUSTID FORCE [LASTID id] with the option words inspected: for an id that is NOT an "
        "entry of the stream no pending entry is created (all versions) and an existing one is dropped (7.0+), otherwise the "
        "pending entry is (re)created with owner / time / count and the consumer is created on demand. The double also clamps "
        "a TIME above its clock to now (counted); the Lean oracle has no clock and stores the argument (see assumptions). "
        "Forms the tool never sends (other min-idle-time, several ids, IDLE, no JUSTID/FORCE) are outside the oracle (none)",
        "the version-aware oracle RedisSem.applyCmdsV (Model/Rdb/TargetV.lean): RESTORE of a value type the target cannot "
        "load = error reply without effect (typeLoadable, a transcription)",
        "strconv.ParseFloat(s, 64) on an old-format zset score (session 5, stated in Model/Rdb/Float.lean): correctly rounded - "
        "the nearest binary64, ties to even, subnormals included - on the grammar [+-]digits[.digits][(e|E)[+-]digits] and "
        "[+-]inf / [+-]infinity / nan (any case); a magnitude that rounds to 2^1024 or more is an ERROR (ErrRange: the read "
        "fails), underflow is not. The model parseF64 computes exactly that with rational arithmetic and is compared with "
        "the real strconv on every generated text; NOT modelled (model: error): hexadecimal floats and `_` digit separators, "
        "which no Redis writes. float64 formatting of ZADD scores: carried by bit pattern, rendered by the client's real "
        "proto.Writer and parsed back. Go channel FIFO order per worker, testing/synctest virtual clock",
    ],
    "assumptions": [
        "decoder/expansion/replay models are hand-written and tied by correspondence (not regenerated) except: CRC64 table, "
        "RDB constants (regenerated each run) and - by the gofn owner, checks/p/x_C03_gofn.py - digest.update, lpEncodeBacklen "
        "and Listpack.Next, regenerated and proved equal to the hand model; the ziplist / intset / zipmap / length readers work "
        "on *util.SliceBuffer / *RdbReader (stateful readers that panic), outside the translator's subset: asked for in the report",
        "zipmaps below 2 GiB - 255 bytes: SliceBuffer.Seek refuses positions >= 2^31, the model keeps the rest of the buffer, "
        "not the position (Model/Rdb/Ziplist.lean); a zipmap is the layout Redis 2.2 .. 8.x read (ZIPMAP_BIGLEN 254, 4 bytes "
        "little endian) - the Redis 2.0 layout (253 / 254 = empty space) is not read by any Redis the property names",
        "the stream expansion is modelled for a loader built with rdb.WithStreamIdleConsumers (repair of C03-F1): both "
        "production call sites pass it (source fact); the library default without the option (what the repo's own "
        "TestStream runs) expands without XGROUP CREATECONSUMER and is not modelled",
        "models are of the REPAIRED behaviour for D8, D9, D10, D11, N1, N2, Z1/Z2 (zipmap, 5c537f6), F1 (idle consumers, ecb288f) "
        "(own fix: commits) and for the C04/C20 fixes they "
        "depend on (Loader.End, listpack invalid encoding = error, Bad-data-format fallback keeps policy and expiry, empty "
        "key routed by hash); witnesses in corpus/C03",
        "a worker that hits an error cancels the sync: the model does not describe the requests other workers issue after that",
        "the filter DECISION functions (trie, range list) are C10's subject; here their effect on the replay (SELECT order, "
        "absence of filtered keys) is tied with the decision given as prefix/any-range membership",
        "a key replayed with TTL 1 ms (already past its expiry) is taken to be gone before the next entry touches it "
        "(logical clock of the target double and of the model's existence table); on a real server this is a 1 ms race",
        "fixed in the harness, absent from the model: KeyExistsLog=false, standalone target "
        "(cluster targets: SELECT is a no-op, RESTORE through the cluster client), NewRedisConn (auth, initial DB), the PING "
        "rdbReplay sends after 3 s of filtered entries",
        "RDB types 22-25 (hashes with field TTL, Redis 7.4/8.x) are unknown to NewParser: a snapshot containing one ends the "
        "sync with an error; they are outside the encodings the property enumerates",
        "the request-by-request diff of the worker logs against the Lean model is the TIE (it fails on any request-level "
        "change, also a harmless one, and is then reported as `no-failing-input-found`); the property itself is judged by "
        "the keyspace monitor",
        "generated datasets are what a Redis server can hold: stream entry ids above 0-0, strictly increasing, none above the "
        "last id (enforced by the Lean description's wf: an input violating it - also a replayed one - is skipped and "
        "counted, not judged); under replaceHashTag the rewritten keys are kept distinct per target DB (colliding target "
        "keys are the user's responsibility)",
        "which value types a target version can RESTORE (double: 4.x <= 14, 5/6 <= 15, 7.x <= 21, 8.x all) is a transcription",
        "delivery times of pending entries are not in the future of the target's clock (then XCLAIM's TIME clamp is the "
        "identity; the generator's times lie before the replay instant, the double counts clamped ones: "
        "xclaim_time_above_target_clock_clamped = 0)",
        "streams: stream_roundtrip / full_sync_streams assume `sound` (tested per input by the verified StreamE.soundB; a generated "
        "stream that fails it - in practice: an id delta that wraps modulo 2^64 inside one listpack, i.e. sequence numbers 2^63 "
        "apart - is skipped by the svc/svv ops and counted stream_not_sound_skipped; the model's wrap64 and the l1/l2 diff + "
        "monitor still cover it); the entries-read value sent for a type-15 stream (Redis 5/6 source, target >= 7) is the tool's "
        "ESTIMATE as the spec transcribes it (first id taken as 0-0: a group at 0-0 of a non-empty stream gets 1 where a server "
        "loading the same file computes 0) - entries-read is not named by the property; the target double refuses ENTRIESREAD / "
        "XSETID counters from a target < 7 (as Redis 5/6 do)",
    ],
    "partial": [
        "stream_roundtrip (CLOSED, was stream_roundtrip_stmt): for every well-formed and `sound` stream description of RDB "
        "type 15/19/21/26, every target version: ExecCmd on the serialization = StreamE.cmds (XADD per live entry, MAXLEN-0 "
        "trick iff empty, XSETID [ENTRIESADDED MAXDELETEDID], per group XGROUP CREATE [ENTRIESREAD signed] + one XCLAIM per "
        "consumer PEL entry with TIME/RETRYCOUNT of the group's PEL, JUSTID FORCE) and the FAITHFUL oracle (r4) turns them, in "
        "any keyspace not holding the key, into exactly StreamE.xval: entries+ids, last id, entries-added, max-deleted id, "
        "groups with last-delivered id, entries-read, consumers, and the pending entries with owner/time/count RESTRICTED TO "
        "THE IDS THAT ARE STILL ENTRIES OF THE STREAM. LOST on the expansion path, kept by RESTORE, stated by the shape of "
        "xval: (a) pending ids whose entry was deleted/trimmed - ordinary production data; XCLAIM FORCE is a no-op for them, "
        "no command recreates them, Redis' own AOF rewrite loses them the same way (generated now: "
        "stream_with_pending_id_of_deleted_or_trimmed_entry, observation counter xclaim_for_an_id_that_is_not_an_entry...); "
        "(b) a consumer all of whose pending ids are such; (c) a consumer with an EMPTY PEL on a target OLDER THAN 6.2 (no command exists; on "
        "6.2+ it is recreated by XGROUP CREATECONSUMER since session 5: known finding C03-F1 REPAIRED, /repo ecb288f, behind "
        "the loader option rdb.WithStreamIdleConsumers both production call sites pass, which is what keeps the repo's own "
        "TestStream - it builds its loader without the option - passing; model streamConsumers cc, spec consumersIdeal, "
        "stream_roundtrip / full_sync_streams / expand_path_existing / restore_fallback_path re-proved for it); (d) "
        "consumer seen-time/active-time, the first-id field (recomputed by the target), the IDMP state of type 26; LASTID "
        "is not sent with XCLAIM. `sound` = what a Redis server guarantees (ids without 64-bit wrap, increasing, above 0-0, "
        "none above the last id; length = live entries; every entry has a field; entries-added a long long >= length; "
        "max-deleted id <= last id; entries-read >= -1; delivery times long longs; distinct group and consumer names; a "
        "pending id owned by one consumer; counts < 2^64) - a hypothesis, tested per generated input by the verified "
        "StreamE.soundB; the reviewer's counter-instance (entries-added 1 < length 3, max-deleted 9-9 > last 1-4) is not "
        "`sound`, its dangling pending ids are handled by the restriction. expand_path_existing (NEW): the same onto a key "
        "the target ALREADY holds (probe + DEL + expansion + PEXPIRE, any value kind incl. streams): the old value - a stream "
        "with a higher last id, groups, TTL - is gone (entry level; generator: pre_existing_stream_with_group_at_a_stream_key; "
        "the whole-file composition with pre-existing keys stays C20's). The PEL is stated as a list in consumer "
        "order (the order the XCLAIMs are issued; a server keeps it sorted by id): stream_pel_logical proves it a permutation "
        "of the group's PEL as the description gives it (every record with time, count and its one owner), given "
        "pelPartition (one record per id; the consumers' PELs partition the group's)",
        "full_sync_streams (PROVED, session 4): full_sync_partial's conclusion for datasets WITH stream values (types "
        "15/19/21/26, RESTORE payload byte-exact or expanded into StreamE.xval), module values of type 7 (RESTORE only; a "
        "module value that cannot be RESTOREd makes the tool refuse the sync by design and is excluded by carriedS) and module "
        "aux items under the skip policy (Next lemma for skipModuleValue over modulePayload: next_skips_module_aux; under the "
        "fail policy the snapshot is refused by design). Its remaining hypotheses are those of full_sync_partial: hload, "
        "htick, hrht, hdb, hdistinct, hpar. restore_fallback_path (PROVED, entry level): the `Bad data format` fall-back "
        "for one unsplit value of any string/list/set/zset/hash encoding or a stream, on the version-aware oracle applyCmdsV "
        "(the refused RESTORE has no effect, then probe + expansion + PEXPIRE leave value and TTL). STILL OPEN = def "
        "full_sync_stmt: the whole-file theorem WITHOUT hload on applyReqsV (HoldsV: a refused value arrives expanded) - the "
        "composition of restore_fallback_path over a file is not proved; also open: ReplaceHashTag, advancing clock, streams "
        "under more than one worker (fanout_parallel carries the other kinds only)",
        "full_sync_partial (PROVED for the datasets below; kept as the statement the parallel theorems build on): ONE theorem over a "
        "whole file - sendRdb(parseRdb(rdbFile f)) with one worker, its request log applied to the multi-database oracle "
        "(RedisSem.applyReqs: SELECT, SCRIPT/FUNCTION = no keyspace effect, keyspace commands on the selected DB) from empty "
        "databases leaves in every target DB exactly the unfiltered keys of f mapped there, in file order, each with its value "
        "(expanded logical value, or the object RESTORE creates from the byte-exact payload) and the TTL of its absolute "
        "expiry - for any RDB version 1..13, any number of DBs, AUX / SELECTDB / RESIZEDB / slot-info / function items "
        "between keys, EXPIRETIME(_MS)/IDLE/FREQ, every string/list/set/zset/hash encoding, hash tables split into chunks at "
        "ANY threshold, any target version/fnExists/RESTORE on-off/MaxProtoBulkLen/TargetDb/DbMap/clock reading/DB-key-slot "
        "filter. NOT carried by THIS theorem (see full_sync_streams for them): stream values, module values (type 7), module "
        "aux items; hypotheses: the `Bad data format` fall-back (hload: with RESTORE on the target loads the value types); "
        "ReplaceHashTag (hrht); a clock that advances during the replay (htick: tick = 0; "
        "ttl_absolute holds for every reading); DB maps that send a DB to a negative index (hdb) or merge DBs holding the "
        "same key (hdistinct); more than one worker (hpar, see fanout_parallel_partial). Those stay covered by "
        "correspondence and the keyspace monitor",
        "fanout_parallel (PROVED for the datasets of full_sync_partial; listed here for what it leaves open): for the target "
        "with one connection per worker (RedisSem.MState/applySched: own selected DB per connection, shared keyspaces, "
        "atomic requests) and parallel = n >= 1, EVERY schedule of the n request logs that keeps each worker's own order "
        "succeeds and leaves under every key of every DB the value and TTL of the snapshot-order result, which holds exactly "
        "the expected keyspace (fanout_workers_irrelevant: worker count irrelevant for ANY entries; oracle_keys_commute: "
        "plain commands on different keys commute; fanout_parallel_partial: the snapshot-order schedule; fanout_parallel: "
        "all interleavings). Session 4: fanout_workers_irrelevant now holds for entries of EVERY kind, streams included "
        "(execStream_names: on any buffer the stream expansion emits XADD/XSETID/XGROUP/XCLAIM only), and "
        "fanout_parallel_streams gives the snapshot-order schedule for datasets with streams / module values / module aux "
        "(full_sync_streams for parallel = n). Open: ALL interleavings for streams (XGROUP / XCLAIM are not in plainNames: no "
        "commutation lemma for them); the model "
        "computes all logs in ONE sequential fold with a shared existence table (what the key-exists probes would answer) - "
        "that the replies a worker really gets under an interleaving equal that table is argued (a key belongs to one "
        "worker) but not part of the theorem; a worker that fails cancels the others (not modelled); fanOut_keeps_order / "
        "fanOut_same_key stay close to the definition of the model's fan-out",
        "existing_key_partial: expand_path / expand_path_final / expand_roundtrip_frame are for a key that does not exist on "
        "the target; for a key the target already holds: expand_path_existing (entry level, C03's oracle) and - session 5 - "
        "C20's whole-run theorems (replace / ignore / error) applied to C03's loader model: Props/C20Loader.lean discharges "
        "C20's Group / Value from C03's Next theorems for strings / lists / sets / zsets / hashes, and C03's NEW "
        "stream_cmds_name_key (every command of a stream expansion, on ANY buffer, names the key at its key position) "
        "discharges C20's open loader_stream_stmt (Props/C20StreamS5.lean loader_stream_from_c03, registered through "
        "checks/p/x_C20_c03.py) - imported, not restated; raw_is_encode has no counterpart for streams and modules "
        "(CLOSED session 4: raw_is_encode_opaque - ReadBuffer consumes exactly the serialization of a stream / module value, "
        "so their RESTORE payload is byte for byte type + serialization + footer)",
        "zset_v1_scores (CLOSED session 5, was zset_v1_scores_partial): RDB_TYPE_ZSET (type 3) ASCII scores are modelled for "
        "EVERY decimal text and inf / infinity / nan (zset_v1_score_roundtrip, zset_v1_expand_roundtrip over Score1.wf = "
        "`parseF64 accepts the text`); what remains is TRUSTED, not partial: that strconv.ParseFloat rounds correctly (see "
        "trusted) - no theorem says that `%.17g` of a double reads back to it (17 digits suffice: a property of binary64, not "
        "of the tool); hex floats / underscores not modelled",
        "zipmap (CLOSED session 5, was zipmap_partial): type 9 modelled and proved for ANY number of pairs (<zmlen> exact "
        "below 254, counting walk above) and item lengths below 2^32 (one-byte and 254 + 4-byte little-endian forms): "
        "zipmap_roundtrip, zipmap_expand_roundtrip; lifting the bound found two defects of the reader (Z1 item lengths >= 253, "
        "Z2 maps of >= 254 pairs; /repo 5c537f6)",
        "module values: type 7 is carried by full_sync_streams on the RESTORE path (expansion refused by the code = sync "
        "fails, excluded); type 6 (module v1) is refused by the parser (`does not support module type 1`): now theorems about "
        "the parser model - module_v1_refused (Next fails at such a key item whatever follows the type byte, any expiry / idle "
        "/ freq prefix) and module_v1_ends_parse (no entry for it or any later key, Done is not reached) - tied by corpus "
        "m6_module_v1; module aux skipped/refused per policy (skip proved, fail = refused)",
    ],
    "driver": "drv_C03",
}

MANIFEST = {
    "text": "Lean theorems: table CRC64 (regenerated table) = CRC-64/Jones; DUMP payload = type+serialization+version+CRC64 and "
            "passes verifyDumpPayload; ReadString inverts every string encoding incl. LZF; ziplist/listpack/intset/zipmap blobs "
            "decode to their contents for every entry encoding, width and sign; for every string/list/set/zset/hash encoding "
            "the expansion replayed into an empty key rebuilds the source value (expand_roundtrip); teed bytes = "
            "serialization (raw_is_encode); hash tables split at ANY threshold rebuild the same hash, every chunk keeps "
            "key/DB/expiry (chunked_roundtrip); TTL = absolute expiry; DB mapping; streams: ExecCmd = XADD/XSETID/XGROUP/XCLAIM as specified and the oracle "
            "rebuilds entries, last id, counters, groups and PELs (stream_roundtrip); ReadBuffer consumes exactly a stream / "
            "module payload (raw_is_encode_opaque); full sync over whole files with streams, module values, module aux items "
            "(full_sync_streams); Bad-data-format fall-back per entry (restore_fallback_path). Decoder, expansion and replay models are "
            "tied to pkg/rdb, pkg/redis/types, pkg/rdbrestore and syncer.sendRdb by differential correspondence on snapshots "
            "the Lean encoder generates + the repo's Redis-produced fixtures, with a keyspace-reconstructing monitor. "
            "Session 5: zipmaps of any size, old-format zset scores for every decimal text (exact rational rounding model of "
            "strconv.ParseFloat), module v1 refusal, stream expansion names the key (discharges C20's loader_stream_stmt). "
            "Defects found by the check and fixed: D8, D9, D10, D11, N1, N2, Z1/Z2 (zipmap lengths / >= 254 pairs); known "
            "finding C03-F1 (idle stream consumers) repaired.",
    "note": "trusted: Lean kernel, RDB format + Redis command semantics as transcribed, target double, extractor, harness; "
            "session 4: streams (stream_roundtrip), module values / module aux and the whole-file composition with them "
            "(full_sync_streams) are theorems; the Bad-data-format fall-back is proved per entry (restore_fallback_path), its "
            "whole-file composition is open (full_sync_stmt); session 5: zipmap and zset-v1 bounds lifted, C03-F1 repaired "
            "(ecb288f), strconv.ParseFloat's correct rounding is trusted and differentially tested against an exact model",
    "technique": "Lean 4 proof (induction over encodings, GF(2)-linearity + 256-case kernel decide for CRC64) + generated-input "
                 "differential correspondence + independent Go oracle",
}
