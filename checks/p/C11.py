EXPECTED_SLOT_SITES = [
    "pkg/filter/range.go:IsSlotInList:KeyToSlot",
    "pkg/rdb/rdb_object.go:ExecCmd:hash",
    "pkg/redis/checkpoint/bisync.go:initBisyncSlotTags:KeyToSlot",
    "pkg/redis/client/cluster/cluster.go:GetSlot:hash",
    "pkg/redis/client/cluster/cluster.go:getNodeByKey:GetSlot",
    "pkg/redis/client/cluster/cluster.go:hash:Crc16",
    "pkg/redis/client/cluster/cluster.go:hash:Crc16",
    "pkg/redis/client/cluster/cluster.go:hash:Crc16",
    "pkg/redis/client/cluster/cluster.go:pinBatchRoute:hash",
    "pkg/redis/client/cluster/multi.go:multiGet:hash",
    "pkg/redis/client/cluster/multi.go:multiSet:hash",
    "pkg/redis/client/cluster/txn_batcher.go:Put:hash",
    "pkg/redis/client/cluster/txn_batcher.go:Put:hash",
    "pkg/redis/slot.go:KeyToSlot:Crc16",
    "pkg/redis/slot.go:KeyToSlot:Crc16",
    "syncer/bisync.go:buildBisyncReplayUnitWithMode:KeyToSlot",
    "syncer/bisync_rdb.go:buildBisyncRdbReplayUnit:KeyToSlot",
    "syncer/syncer.go:pickSuffixDfs:KeyToSlot",
]


PROP = {
        "lean_modules": ["GunYu.Props.C11"],
        "audit_namespaces": ["GunYu.Props.C11"],
        "required_theorems": [
            "GunYu.Props.C11.crc16Tab_eq_xmodem",
            "GunYu.Props.C11.keyToSlot_eq_spec",
            "GunYu.Props.C11.clusterHash_eq_spec",
            "GunYu.Props.C11.keyToSlot_eq_clusterHash",
        ],
        "expected_facts": {"crc16tab_len": 256, "slot_call_sites": EXPECTED_SLOT_SITES},
        "harness": [{"name": "C11", "pkg": "./pkg/redis/", "test": "TestVerifC11"}],
        "rule": "keys: corpus, all strings of length<=5 (quick) / <=8 (thorough) over {'{','}','a',0xff}, brace-grammar "
                "generator (0-4 braces in any arrangement, empty tags, random/non-UTF-8 filler), random bytes up to 300; "
                "each key evaluated by redis.KeyToSlot, cluster.hash, cluster.GetSlot and compared with the Lean model "
                "(keyToSlot, clusterHash, hashSlotSpec) and an independent bitwise oracle. "
                "distinct_nontrivial = distinct keys containing at least one '{' and one '}'",
        "trusted": ["Redis Cluster HASH_SLOT and CRC16/XMODEM as transcribed in Model/Slot.lean (hashTagSpec, crc16Spec); check value 0x31C3 proved"],
        "assumptions": ["scanner models tied by correspondence (not regenerated); table regenerated from pkg/digest/crc16.go",
                        "every slot-computing call site goes through KeyToSlot/hash (call-site list compared with expectation)"],
    "driver": "drv_C11",
    "gens": ["crc16", "slotsites"],
}

MANIFEST = {
        "text": "Lean theorems for ALL byte strings: table-driven CRC16 (table regenerated from pkg/digest/crc16.go each run) = bitwise CRC16/XMODEM; "
                "the models of redis.KeyToSlot and cluster.hash both equal the HASH_SLOT specification. The scanner models are tied to the Go functions "
                "by differential correspondence (exhaustive short brace strings + generators) and every slot-computing call site is listed and compared.",
        "note": "trusted: Lean kernel (propext, Classical.choice, Quot.sound only), HASH_SLOT/XMODEM transcription, extractor, harness; scanner functions modelled by hand (correspondence), table regenerated",
        "technique": "Lean 4 proof (induction, GF(2)-linearity, 256-case kernel decide over regenerated table) + differential correspondence",
}
