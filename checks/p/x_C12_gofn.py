# session 5, gofn owner (answers reviews/gofn-r4.md "C12Gen: not wired into any check"): the regenerated
# cluster-reply length parser (pkg/redis/client/cluster/conn.go parseLen, Gen/FnParseLen.lean) and its theorems
# are now part of C12's proof obligations, so that a parseLen that leaves the subset, or an edit that breaks
# Props/C12Gen.lean, is C12's broken tie. (The decoder C12's property text is about - pkg/redis/client/decoder.go -
# has no pure function of its own: it reads lines through bufio and parses with strconv.ParseInt; see reviews/gofn-s5.md.)
EXTRA = {
    "gens": ["gofn_parselen"],
    "lean_modules": ["GunYu.Props.C12Gen"],
    "required_theorems": [
        "GunYu.Props.C12.gen_parseLen_digits",
        "GunYu.Props.C12.gen_parseLen_loop_bad",
        "GunYu.Props.C12.gen_parseLen_null",
        "GunYu.Props.C12.gen_parseLen_wraps",
    ],
    "trusted": [
        "gofn: the translator's reading of cluster.parseLen (Basic/GoSem.lean); NO differential test runs the real parseLen "
        "(the cluster client's reply reader is exercised only through C19's doubles) - the generated definition is tied to the "
        "source by the translator alone",
    ],
}
