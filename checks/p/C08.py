PROP = {
    "lean_modules": ["GunYu.Props.C08", "GunYu.Props.C08Faults", "GunYu.Props.C08Verify", "GunYu.Props.C08Root", "GunYu.Props.C08Commit", "GunYu.Props.C08Open", "GunYu.Props.C08Snap"],
    "audit_namespaces": ["GunYu.Props.C08"],
    "required_theorems": [
        "GunYu.Props.C08.reopen_range_contiguous",
        "GunYu.Props.C08.reopen_range_covered",
        "GunYu.Props.C08.gap_segments_discarded",
        "GunYu.Props.C08.reopen_snapshot_aligned",
        "GunYu.Props.C08.tmp_snapshot_not_offered",
        "GunYu.Props.C08.snapshot_committed_only_when_complete",
        "GunYu.Props.C08.crash_snapshot_complete",
        "GunYu.Props.C08.ghost_matches_index",
        "GunYu.Props.C08.crash_snapshot_true",
        "GunYu.Props.C08.reopen_cache_wf",
        "GunYu.Props.C08.reopened_cache_wf",
        "GunYu.Props.C08.reopened_cache_holds",
        "GunYu.Props.C08.reopened_cache_ok",
        "GunYu.Props.C08.script_ops_true",
        "GunYu.Props.C08.crash_bytes_true",
        "GunYu.Props.C08.reopen_bytes_true",
        "GunYu.Props.C08.crash_images_truthful",
        "GunYu.Props.C08.crc_mismatch_refused",
        "GunYu.Props.C08.corrupt_segment_never_served",
        "GunYu.Props.C08.altered_crc_refused",
        "GunYu.Props.C08.closed_segment_verifies",
        "GunYu.Props.C08.altered_data_accepted_iff",
        "GunYu.Props.C08.altered_size_refused",
        # session 4 — torn header rewrites, faults (Props/C08Faults.lean)
        "GunYu.Props.C08.crash_bytes_true_torn",
        "GunYu.Props.C08.crash_snapshot_true_torn",
        "GunYu.Props.C08.fault_ops_true",
        "GunYu.Props.C08.fault_crash_bytes_true",
        "GunYu.Props.C08.fault_crash_snapshot_true",
        "GunYu.Props.C08.fault_crash_snapshot_complete",
        # verification while the process lives (Props/C08Verify.lean)
        "GunYu.Props.C08.verify_restart_nothing_live",
        "GunYu.Props.C08.live_segment_accepted",
        "GunYu.Props.C08.altered_closed_segment_never_served",
        "GunYu.Props.C08.altered_closed_segment_never_served_live",
        "GunYu.Props.C08.live_bytes_true",
        "GunYu.Props.C08.closed_segment_file_exact",
        "GunYu.Props.C08.closed_segment_file_exact_plain",
        "GunYu.Props.C08.closed_segment_verifies_live",
        "GunYu.Props.C08.accepted_iff_consistent",
        "GunYu.Props.C08.version_reserved_ignored",
        "GunYu.Props.C08.accepted_alteration_cases",
        "GunYu.Props.C08.burst_alteration_refused",
        "GunYu.Props.C08.live_burst_never_served",
        # life after the restart, several id directories (Props/C08Root.lean)
        "GunYu.Props.C08.resume_crash_bytes_true",
        "GunYu.Props.C08.resume_crash_snapshot_complete",
        "GunYu.Props.C08.resume_image_reopenable",
        "GunYu.Props.C08.rootOk_bytes_true",
        "GunYu.Props.C08.del_run_id_crash_true",
        "GunYu.Props.C08.set_run_id_crash_true",
        "GunYu.Props.C08.set_run_id_rename_agree",
        "GunYu.Props.C08.verify_run_id_right_id",
        "GunYu.Props.C08.root_bytes_true",
        "GunYu.Props.C08.root_snapshot_complete",
        # session 5 — the snapshot commit failing at sync / close / rename (Props/C08Commit.lean)
        "GunYu.Props.C08.commit_fail_dropped",
        "GunYu.Props.C08.commit_fail_crash_not_offered",
        "GunYu.Props.C08.commit_fail_script_snapshot_true",
        "GunYu.Props.C08.reopen_snapshot_sized",
        "GunYu.Props.C08.wrong_size_snapshot_not_offered",
        "GunYu.Props.C08.changeReplId_second_branch_unreachable",
        "GunYu.Props.C08.placeholder_id_ignored",
        # a stream writer left open across SetRunId / DelRunId (Props/C08Open.lean)
        "GunYu.Props.C08.open_writer_switch_crash_true",
        "GunYu.Props.C08.open_writer_del_crash_true",
        # verification of a cached snapshot file (Props/C08Snap.lean; seeded round 8)
        "GunYu.Props.C08.altered_snapshot_never_served",
        "GunYu.Props.C08.altered_snapshot_accepted_iff",
        "GunYu.Props.C08.zero_trailer_refused",
        "GunYu.Props.C08.altered_payload_accepted_iff",
        "GunYu.Props.C08.footered_verifies",
    ],
    "expected_facts": {"crc64tab_len": 256},
    "harness": [
        {"name": "C08", "pkg": "./pkg/store/", "test": "TestVerifC08"},
    ],
    "driver": "drv_C08",
    "rule": "scripts of writer-level operations (snapshot writers: complete, cut short and closed, a chunk received but the writer "
            "stopped before writing it, a chunk whose file write fails — last or middle chunk; stream writers with chunks of any size "
            "crossing the rotation limit 24..64, short writes (RLIMIT_FSIZE: only the first k bytes of a chunk reach the file, then the "
            "writer ends), writer close/replacement, collector passes with size limits, new snapshots over existing data) with bytes from "
            "a per-case source function, plus per run at least one production-size script (rotation limit > 3 x 4096, snapshot > 3 x 8192 "
            "with a valid CRC64 footer, so every 4096/8192-byte loop of the code runs several iterations); two thirds of all snapshots "
            "carry a valid checksum footer (a verifying reader accepts them). FAULTS (session 4; in the random scripts and in two fault scripts "
            "per run that contain every kind once, each followed by further steps): the header rewrite failing after k = 0..15 bytes at close "
            "and at a rotation (RLIMIT_FSIZE set by the writer's own write observer between the data write and the rotation), the open of the "
            "next segment failing at a rotation, os.Remove failing at the close of an empty live segment / at an incomplete snapshot / for every "
            "RemoveAll of a collector pass, or for SOME of its segments only (dgcp: those files immutable) (immutable attribute on the directory: create, unlink, rename fail with EPERM; counter "
            "fault_injection_immutable_dir, or note_..._unsupported when the file system cannot); SESSION 5: the COMMIT of a completely received snapshot failing (drdbaf; in the random scripts, "
            "three per fault script — each followed by the same snapshot received again — and a corpus script): at the fsync (a pipe dup2'ed over the writer's descriptor right after the LAST data write, from inside "
            "RdbWriter.write through the writer's own byte counter: fsync EINVAL, no rename attempted) with the temporary file removed (s) or not removable (S), at the close(2) ALONE (c: a seccomp filter on the descriptor number, EIO after a successful fsync), at the rename (immutable directory: EPERM) with the "
            "temporary file removed (r: the attribute is cleared by the writer's observer between Close(left,size,true) and os.Remove) or left behind (R); at RUNTIME the child checks that Wait returns the commit "
            "error (commit-failure-not-reported) and that GetRdb does not offer the snapshot (failed-commit-offered); counters fault_commit_{s,c,S,r,R}. The REAL RdbWriter/AofRotater/resetDataSet/gcLogs run in a "
            "child process under strace; the syscalls on the cache directory — successful AND failed attempts (fail create <flags> / fail remove / fail write @offset <bytes>) — are "
            "(1) compared op for op with the Lean model (scriptOps for fault-free scripts AND xScriptOps, which must agree; xrun with faults): name(s), "
            "open flags of every create (O_WRONLY|O_CREAT|O_TRUNC), offset and bytes of every write (append @size, header rewrite @0), rename source and "
            "target, order of the unlinks (the reset's walk over what the directory really holds, orphans of failed removals included), and a line `hyp wf=1 src=1`: the driver CHECKS on every script (c8w and c8d) that it "
            "meets the theorems' hypotheses (wfXB = decide wfX; srcOkXB with the harness' source function, proved sound: srcOkXB_sound) — a script outside them is a DIFF, counter scripts_hypotheses_checked; (1b) the MODEL's "
            "crash image crashImageX [] ops n k is compared with the image built from the real syscalls for every prefix and every torn write; "
            "(2) replayed prefix by prefix (every instant the process could have died) plus each multi-byte write — appends AND header rewrites — torn at 1, n/2, n-1 bytes into fresh "
            "directories that the real NewStorer/SetRunId/GetReader re-open with verification off and on (every prefix); range, snapshot, "
            "validity of the offsets around every boundary, the set of files initDataSet unlinked (removed=), every stream byte read and every snapshot byte read through the real "
            "RdbReader are compared with the model and, independently, with the source bytes; (3) each closed segment of the final image "
            "is altered (data bit anywhere, data bit in the last 4 KiB piece, recorded size, recorded crc, truncated, extended) and each "
            "footer-carrying snapshot (data bit, last piece, footer) and re-opened with verification; (3b, session 5) each committed snapshot of the final image one byte short / halved / one byte longer: must not be offered (counter snapshot_wrong_size_images); (4) random subsets of the final "
            "image (os.RemoveAll order is not lexical) are re-opened; (5) life after the restart: the real writer resumes at "
            "LatestOffset on the re-opened Storer, appends, the collector runs with a small limit; VERIFYING readers on the live index (c8v: segments the resumed "
            "writer closed pass, what the crash left torn is refused, the writer's own segment is not verified; then one closed segment is altered on disk; then the writer's close fails its header rewrite "
            "(descriptor closed underneath it: the close observer never runs), a new writer goes on and a verifying reader passes through that segment) are "
            "compared with serveLive — the function the live_* theorems are about — on XDisk.ofImage (directory, writer's segment, segments whose close observer never ran); a write fails (descriptor closed), the process dies again and is re-opened (monitors: every byte served is the source's, the reported end never "
            "exceeds what was written); (6) SEVERAL REPLICATION-ID DIRECTORIES (two id scripts per run): lives of the writers in directories a, b (two independent sources), a new process choosing "
            "with VerifyRunId among ?, a missing id, a, b; an id change (SetRunId renames the directory), switches between existing ids (re-scan), DelRunId of the current id, a directory "
            "re-created, DelRunId of another / a missing id — the directory-level syscalls (mkdir, rename, the unlinks of RemoveAll as a set, rmdir) and the writers' operations of the "
            "resumed lives are compared op for op with the model (c8d: setRunIdSys / verifyRunId / delRunIdSys / XDisk.reopened + xstep); every prefix (and torn write) of them is a base "
            "directory whose every id directory is re-opened by the real code (compared with the model, monitored against ITS id's source), and a new process' real VerifyRunId(ids) on it "
            "is compared with the model's (c8V: id taken, current id, offset returned). Retention, writer liveness and 'a deleted cache is gone' (C06/C16) are counted as notes. At RUNTIME after a "
            "short write the reported range must equal the bytes in the files. Scripts reach the child through a file (no size limit). distinct_nontrivial = distinct directory images re-opened. "
            "DIMENSION AUDIT (session 5, last round; every value has a coverage counter): cfg_verifyCrc_{true,false} for both reader kinds on every re-opened image; cfg_flush_{-,e,d,t} (channel.storer.flush: EveryWrite / "
            "DirtySize / Duration — drawn per random script; fsync is not compared); cfg_logSize_<n> incl. FORCED 16 (= header size: every append rotates) and 17; cfg_maxSize_{zero,1,…}; FORCED edge scripts on every run "
            "(genEdgeScripts): snapshots of 1 / 8 bytes (never verified), 9 bytes with / without a valid footer / all zero, offset 0 (snapshot at 0 + stream from 0, a stream alone from 0), an empty live segment at the death, a "
            "writer replaced on an empty live segment, maxSize 1 with a snapshot held; per CLOSED segment of the final image (position counted: only / oldest / middle / newest): data bit, last piece, size, crc, truncated, "
            "extended, tail zeroed, payload zeroed, all zeroed, cut to the header (-> a gap: TruncateGap), halved, and the BENIGN alterations version byte / reserved bytes (accepted, every byte still the source's: "
            "version_reserved_ignored); segments the crash left LIVE (with data: a data bit with verification; empty: counted); a .rdb.tmp of other bytes NEXT TO the committed snapshot of the same offsets plus stray files "
            "(stray.txt, 12x.aof, 7_.rdb, _7.rdb, 1_2_3.rdb): answers and bytes unchanged; a SECOND re-opening after every first one that deleted files (monitor reopen-not-idempotent); source fact: pkg/store has 4 "
            "package-level variables, none written after init (go/ast in the harness: a written one is a broken tie)",
    "trusted": [
        "strace's rendering of the syscalls and the harness' parser of it (harness/overlay/pkg/store/vf_c08_test.go; any of "
        "write/writev/pwrite64/pwritev/ftruncate/O_APPEND/O_TRUNC is turned into 'bytes at an offset of a file'; failed calls (= -1 E…) on the directory are "
        "kept as attempts, the several syscalls of one os.Remove/os.RemoveAll on one name counted once; sanity check of trace AND parser: "
        "the parsed operations applied to an empty directory must reproduce, byte for byte, the directory (multi-id scripts: the whole base directory) the child left behind — otherwise "
        "(and when strace or the child cannot run) the case is retried and then reported as a broken tie (test failure -> BROKEN [tie], "
        "no-failing-input-found), never as a violation with a failing input)",
        "process-death semantics of the file system: a crash leaves a prefix of the issued syscalls, the last write possibly torn "
        "(power-loss reordering of unsynced writes is outside the property); a directory rename is atomic",
        "the fault injection stands for the faults it imitates: RLIMIT_FSIZE (EFBIG after k bytes) for a failing write, the immutable directory attribute (EPERM) for "
        "failing create / unlink / rename of the directory's entries, a pipe dup2'ed over the snapshot writer's descriptor (fsync EINVAL) for an fsync that reports lost writes, a seccomp filter (close -> EIO) for a close that reports an error; the code under test does not look at the errno",
        "file-name classification (strconv.ParseInt / ParseRdbFile on names the writers produce) is done by the driver, not the model "
        "(the model's names are an inductive type; the second conjunct of tmp_snapshot_not_offered is therefore definitional)",
        "CRC64 burst detection: PROVED (burst_alteration_refused, from the regenerated table: GF(2)-linearity + injectivity of the register step + the folding identity) for every change "
        "confined to 8 consecutive bytes, i.e. every burst of at most 57 bits wherever it starts and every byte-aligned 64-bit burst; still TRUSTED (standard CRC fact): a burst of 58..64 bits that "
        "straddles 9 bytes. For everything else the theorems say: accepted only if length equal and CRC64 collides, or header bytes 1..12 rewritten consistently (accepted_alteration_cases)",
    ],
    "assumptions": [
        "syscall-level tie chosen over directory snapshots: strace works in the sandbox, so every syscall prefix of the real writers is a crash image (no hooks)",
        "SrcOk / SrcOkX (hypothesis of script_ops_true / crash_bytes_true / fault_crash_bytes_true / resume_crash_bytes_true / live_bytes_true): the chunks handed to the stream writer are the source's bytes at the "
        "offsets they are appended at — that the CALLERS hand over what they received is C05 (pipe/ingest, harness C05chan) and C06",
        "several ids (Props/C08Root.lean): srcOf id = the history of replication id id. The one hypothesis about ids: when SetRunId RENAMES the current directory to a new id (changeReplId), "
        "what the directory holds is history of the new id too (RenOk; the source continued the stream under a new replication id — which offsets that covers is C06's). "
        "The hypothesis is asked only when the operation really renames (setRunIdRenames) and follows from PSYNC2's Agree (the new id's history equals the old one's below the switch offset x) plus "
        "'the directory holds nothing at or beyond x' (set_run_id_rename_agree / renOk_of_agree; C06: Agree, cache_consistent_after — cited, composed by this lemma, C06 is not imported). "
        "VerifyRunId, DelRunId and SetRunId on an existing directory need no hypothesis (they never rename: verifyRunId_spec, delRunIdSys_no_rename); VerifyRunId's choice is the code's rule (Chosen, verifyRunId_rule: an iff)",
        "an id switch and a DelRunId find the writers closed (the callers' protocol, Disk.okOp); a new process' index is reopen(directory) — the id-level model builds the index of a resumed life "
        "with XDisk.reopened (proved to satisfy the writers' invariants for ANY truthful directory with distinct names and complete committed snapshots: xinv_reopened)",
        "CRC64 table regenerated from pkg/digest/crc64.go each run (Gen/Crc64Table.lean)",
    ],
    "partial": [
        "fault_crash_bytes_true / crash_bytes_true(_torn) / crash_snapshot_true(_torn) / resume_* quantify over the MODEL's operation lists (all scripts with faults anywhere, all crash instants, all torn "
        "lengths of appends and header rewrites, any truthful start directory); that the real writers issue exactly these file operations — names, flags, offsets, bytes, order, failed attempts — is the "
        "syscall-level correspondence (compared op for op on every script run), not a theorem; the Go code is not translated",
        "faults modelled and injected: header rewrite failing after k<16 bytes (close, rotation), open failing at rotation, os.Remove failing (empty live segment, temporary snapshot, every removal of a "
        "collector pass or any subset of its segments), short write; SESSION 5: the snapshot COMMIT failing (XOp.rdbCommitFail chunk ren rmOk: last chunk written; Sync/Close failed = no rename attempted, or the rename failed; "
        "Close(left,size,true); os.Remove(tmp) succeeding or failing) — a constructor of XOp, so EVERY theorem over scripts with faults (fault_*, resume_*, root_*, live_*, closed_segment_file_exact) covers failing commits "
        "anywhere in a script, cut at every syscall; commit_fail_dropped / commit_fail_crash_not_offered say what is specific to the step. Sync and Close are not directory operations: under process-death semantics the cuts "
        "before/after them are the image after the last write (no FsOp for them; fsync/close are not compared in the trace). Injected: fsync failure and rename failure, each with removable / unremovable temporary file. "
        "a failing close(2) ALONE after a successful fsync (stage c: a seccomp filter installed from the write hook makes close of that descriptor number return EIO in every thread; the model has one `ren = false` case for "
        "sync and close — the attempted FILE operations are the same — but the injection is separate: a change that ignores only the close error gives `rename` for `remove` + failed-commit-offered). NOT modelled / injected: "
        "the fixHeader write of a new segment failing after its creation, os.Remove failing inside resetDataSet's walk or inside initDataSet (property-neutral: the file is cut again at the next "
        "re-opening), Sync/Close errors, a short write that crosses the rotation limit is modelled (no rotation) but the harness only injects k below the limit",
        "snapshot content: crash_snapshot_true / fault_crash_snapshot_true prove that an offered snapshot file holds exactly the bytes the ghost `received` records for that announcement "
        "(every byte handed to the snapshot writer since it was created, computed from the operation list alone; ghost_matches_index ties it to the index), complete and "
        "in order, for every script / fault / crash instant / torn length; after a restart (resume_crash_snapshot_complete, root_snapshot_complete): complete (length = announced size) — content = "
        "'what the directory held or what this life received' (resume_received). NOT said: which source snapshot these bytes are (C06's World.snap)",
        "verification: 'a segment FAILS THE CHECK' = segVerifyOk false (recorded size/CRC64 vs data); altered_closed_segment_never_served(_live) say what a failing check does to the reader "
        "(the reader reads the FILES: serveFromL; `_live`: ONE closed segment's file replaced, the others as they are). WHICH changes fail the check: closed_segment_file_exact (in every reachable state the "
        "file of a closed segment is closedHeader data ++ data, except segments whose header rewrite failed in the script — taintRun — and those a re-opened life began with), then "
        "altered_data_accepted_iff (header kept: iff same length and CRC64 collision), accepted_iff_consistent / accepted_alteration_cases (header and data changed together: accepted iff bytes 1..12 are "
        "the fields of the new data — a CONSISTENT REPLACEMENT of a whole segment file is accepted, inherently), version_reserved_ignored (bytes 0, 13..15 are read by nobody, as the code), "
        "burst_alteration_refused (8-byte window, proved). No false refusal while the process lives: closed_segment_verifies_live. NOT covered: a reader that is ALREADY inside a segment when it is "
        "altered is not re-verified (neither in the code); closed_segment_file_exact is stated for lives from the empty store (cinv_run is general: for a re-opened life the segments it began with are excluded)",
        "OBSERVATION for the C05/C06 owners (not a C08 statement, no C08 finding): after a failed header rewrite in closeAof (Seek/Write error) the close observer never runs; the index entry keeps size == -1 "
        "and its writer reference (rwRef) for ever, so (a) hasWriter stays true: verifying readers never verify that segment while the process lives (modelled: zombies ⊆ unverifiedOf; tied: c8v resumed_zombie), "
        "(b) gcLogs stops at it permanently (`aof.Ref() > 0 → break`): nothing at or after it is ever collected, the cache grows without bound until the next reset / restart (modelled: gcZ; tied op for op, "
        "corpus header_rewrite_faults.txt: 'dgc removes nothing'). A restart cures both (initDataSet re-builds the entry with its size; the torn header is then refused by a verifying reader). "
        "DECIDED (session 5), concrete scenario for C05/C06: `dnew 32 96 ; daofw 100 ; daofa <10 bytes> ; daofcf 5 ; daofw 110 ; daofa … ; dgc` — after the failed close the segment [100,110) stays indexed with size -1: "
        "every offset in it is valid AND readable (the reader opens the file, skips verification because hasWriter, and moves on to 110.aof at EOF because 100 is not lastSeg), every byte served is the source's "
        "(live_bytes_true; tied: c8v resumed_zombie, runtime monitor range-claims-unwritten-bytes) — NO property of C05/C06/C08 is violated ('valid offsets never readable' does not happen); what is lost is "
        "verification of that one segment and ALL collection from it on until the next reset / restart (unbounded growth: a resource defect outside the 20 properties)",
        "id level: root_bytes_true covers any interleaving of lives and id-level operations cut at any syscall (RootReach); the tie runs two id scripts per run. A STREAM writer left OPEN across an id switch / "
        "DelRunId is MODELLED AND SCRIPTED since session 5 (Model/StoreRoot.lean lateCloseOp / lateCloseTarget / lateCloseRoot; Props/C08Open.lean): newRunId scans the new directory first and closes the old index afterwards, "
        "DelRunId removes the directory and then resets — the writer's closeAof runs AFTER the directory-level syscalls: its header rewrite goes through the open DESCRIPTOR (into <base>/<new>/<left>.aof after a rename, into an "
        "unlinked inode after DelRunId: no effect), the removal of an EMPTY live segment goes by the OLD path (fails after a rename: the 16-byte file stays in the new directory, ignored by the scan). open_writer_switch_crash_true / "
        "open_writer_del_crash_true: cut at every syscall of the switch, the late header rewrite torn at every length, every id serves its own bytes (hypotheses: RootOk, the rename hypothesis, the live file has its 16-byte header "
        "where the close finds it — checked by the driver on every instance: hyp wf). Tie: the id scripts leave writers open before a rename (also an empty live segment), a switch, DelRunId of the current and of another id "
        "(counter id_op_finds_writer_open_*); the trace parser follows open descriptors into renamed directories and drops those of unlinked files. These two theorems are stated on the base-directory level (RootOk), "
        "not yet as constructors of RootReach; a SNAPSHOT writer left open across a switch (its os.Remove(tmp) by the old path fails after a rename, the temporary file stays) and VerifyRunId with an open writer are not scripted; changeReplId's second branch "
        "(RemoveAll(new) + MkdirAll(old)) is MODELLED (session 5: changeReplIdSys) and PROVED unreachable from SetRunId (changeReplId_second_branch_unreachable: whenever SetRunId calls changeReplId the new id has no "
        "directory, the rename is what is issued; reaching it needs another process creating <base>/<new> between ExistReplId and Stat — one process owns the base directory); SetRunId(\"\") / SetRunId(\"?\") issue no "
        "syscall (placeholder_id_ignored; the model was STALE against /repo 02e084c — it still renamed the current directory to <base>/? — and no script called SetRunId(\"?\") with a current directory: now the id "
        "scripts do, and reverting 02e084c gives `rendir a ?` + served-wrong-byte with a replay); after DelRunId the Storer's dir is \"\" — a writer created before the next SetRunId would write to the "
        "process' working directory (not scripted, the callers set an id first)",
        "bridge to C06 (reopen_cache_wf for ANY image, reopened_cache_wf / reopened_cache_ok for every script and crash instant; definitions imported from Model/Psync.lean): "
        "the re-opened cache satisfies C06's CacheWF and CacheOK. Remaining hypotheses: offsets fit int64 (the model's offsets are naturals), the label id is a real id, and for "
        "CacheOK the callers' SrcOk (the chunks appended are history id's bytes). C06's theorems are not re-stated here (Props/C06 is not imported: a broken C06 must not break C08); "
        "the bridge theorems are stated for the fault-free scripts (crashImage), not re-stated for xScriptOps",
        "a committed snapshot NAME whose file has another size than announced (power loss with the rename on disk before the data or the directory never fsynced, a copy cut short, a file-system repair) is not a process-death "
        "image (fault_crash_snapshot_complete) but is COVERED since session 5: initDataSet compares info.Size() with the size in the name (/repo a4935cf, found by the extended check: harness step 4b re-opens the final image "
        "with each committed snapshot one byte short / halved / one byte longer) and the model's scanRdb does the same: reopen_snapshot_sized (ANY image: an offered snapshot's file holds exactly the announced number of "
        "bytes — the length part of SnapOk for the offered snapshot is a theorem now), wrong_size_snapshot_not_offered. STILL outside: lost pages INSIDE a full-length snapshot file (only the optional CRC footer "
        "detects them, with verification on), power-loss reordering of stream segment writes; SnapOk stays a hypothesis of resume_* / root_* for committed names that are NOT offered (the invariant speaks of all of them); "
        "the wrong-sized file is not unlinked (it goes with the next reset)",
        "SNAPSHOT verification (session 5, seeded round 8 missed by the committed check): RdbReader.checkHeader = StoreFs.rdbFooterOk (files of at most 8 bytes pass; else the last 8 bytes are the CRC64 of the payload AND not "
        "zero); altered_snapshot_never_served (ANY image, verification on: what a snapshot reader delivers is a right-length file that passes the check), altered_snapshot_accepted_iff / altered_payload_accepted_iff (accepted iff "
        "the trailer is non-zero and the CRC64 of the payload: a collision, as for segments), zero_trailer_refused (/repo 98e548e, found by the new alterations on the UNCHANGED tree: the CRC64 of an all-zero payload is zero, a "
        "right-length file reading back as zeros passed). Tie: every footer-carrying snapshot of the final image is re-opened with verification after: a data bit, a bit in the last piece, a footer bit, the trailer zeroed, "
        "a random tail zeroed, the last 4096-byte block zeroed, everything zeroed (monitors altered-snapshot-accepted, snapshot-bytes-wrong; compared with the model). NOT covered: snapshots of at most 8 bytes and snapshots "
        "the source sent WITHOUT a valid footer (rdbchecksum no) are refused by every verifying reader, as the code does — verification on makes such a cache useless, an availability matter outside the property; a reader "
        "already open when the file is altered is not re-verified",
        "dimension audit, NOT drawn (stated): file names with a sign (strconv.ParseInt accepts '+5.aof' / '-5.aof'; the model's names are naturals; the writers never produce them; 23dcc75 closed the one path that wrote "
        "'-1.aof'), offsets near max int64, a stray regular FILE in the BASE directory asked for as an id, FlushPolicy.Auto; a snapshot of at most 8 bytes that is ALTERED is served by a verifying reader (no checksum can be "
        "recorded in it — inherent, as the code); VerifyRunId takes an EMPTY directory asked first with offset -1 (model = code: `newest == 0` is the only 'nothing held' answer it skips; which id is right is C06's)",
        "the literal syscall list is compared with the model: a rewrite that coalesces or splits writes, opens with other flags or writes the header with pwrite gives a DIFF (tie failure), not a violation; "
        "the crash images themselves are always built from the syscalls that really occurred",
        "crc_mismatch_refused for arbitrary alterations is 'refused unless length equal and CRC64 collides' (altered_data_accepted_iff); "
        "the burst-error detection property of CRC64 itself is not re-proved; the version/reserved header bytes are checked by neither code nor model",
        "read() ignores tryReadNextFile's error: a corrupt NEXT segment ends the reader with os.ErrInvalid (openFile's closeAof sets r.file = nil, the next r.file.Read fails), a corrupt ENTRY segment fails GetReader with "
        "pkg/common.ErrCorrupted (tied: c8r `read N other` / `err corrupt`) — a refusal either way, which is all the property says. FOLLOWED TO THE CALLER (session 5, by reading; not run at syncer level): RedisInput.Run drops the cache only on syncer.ErrCorrupted "
        "(= fmt.Errorf(\"%w corrupted\", ErrBreak)), another sentinel than pkg/common.ErrCorrupted: before /repo feb3ca9 a damaged ENTRY segment made every run fail with an error that is not ErrBreak, the loop slept 2 s and "
        "retried from the same position for ever (the tool stalled; no wrong byte served). feb3ca9 (another owner, during this session) joins syncer.ErrCorrupted in readChannel for the ENTRY case. STILL there: a damaged NEXT "
        "segment ends the reader with os.ErrInvalid (read() drops tryReadNextFile's error), which is neither sentinel — the run is retried, and only once the target's position has reached the damaged segment (it is then the "
        "entry segment of the next reader) is the cache dropped; a reader that delivered nothing new before the boundary retries at the same position (liveness, outside the 20 properties; repair sketch: read() returns "
        "tryReadNextFile's ErrCorrupted)",
    ],
}

MANIFEST = {
    "text": "Lean theorems about re-opening ANY directory image (reopen = initDataSet + repaired TruncateGap): indexed segments are contiguous and "
            "cover the reported range, older segments behind a gap are discarded together with the snapshot, an offered snapshot is a committed "
            "file aligned with the first segment (temporary files never offered). UNCONDITIONAL over all writer scripts respecting the callers' "
            "protocol — WITH FAULTS anywhere (header rewrite failing after k bytes at close / rotation, open failing at rotation, removals failing, short writes) — all crash instants and torn lengths "
            "(appends and header rewrites): an offered snapshot holds exactly the announced number of bytes "
            "and exactly the bytes the snapshot writer received, in order (fault_crash_snapshot_true, ghost `received`), and every byte a reader of the re-opened cache delivers is the source's byte at that offset "
            "(fault_crash_bytes_true; hypothesis: the chunks appended are the source's bytes). LIFE AFTER THE RESTART: the same from ANY truthful directory a new process re-opens, any number of times "
            "(resume_*), and above the directory: SetRunId (rename on an id change), VerifyRunId among several ids, DelRunId (RemoveAll in any order) cut at any syscall — what is served under an id is that id's "
            "(root_bytes_true). A snapshot COMMIT that fails at the fsync, the close or the rename (scripts with XOp.rdbCommitFail anywhere; injected: fsync failure, close(2) failure ALONE after a successful fsync (seccomp filter on the descriptor), rename failure, temporary file removable or not) is dropped, reported by Wait and never "
            "offered, at run time and at every cut of the commit sequence (commit_fail_dropped, commit_fail_crash_not_offered); beyond process death: for ANY image a committed NAME whose file has another size than announced is not offered "
            "(reopen_snapshot_sized, wrong_size_snapshot_not_offered; /repo a4935cf). A stream writer left OPEN across SetRunId / DelRunId (closed by the code AFTER the directory-level syscalls: header rewrite through the "
            "descriptor into the renamed directory, removal by the old path) is modelled and scripted (open_writer_switch_crash_true, open_writer_del_crash_true). Checksum verification: no byte at or "
            "beyond a closed segment that FAILS THE CHECK is delivered wherever it is in the chain, after a restart and while a writer is attached (its own segment is not verified: 99a0b20; the reader reads the files); in every reachable state a closed segment's file is exactly closedHeader data ++ data (closed_segment_file_exact), so: an altered recorded CRC or size is refused, altered data is "
            "accepted only if length is equal and CRC64 collides (never for a change within 8 consecutive bytes: proved from the table), header and data rewritten consistently are accepted (inherent). Tie: the real writers run under strace (incl. production-size segments and "
            "snapshots, injected faults); the syscall list — flags, offsets, bytes, order, failed attempts — is compared op for op with the model, the model's crash images with the real ones, and every prefix / torn "
            "write / alteration / random subset is re-opened by the real code (answers, bytes, files unlinked compared with the model); id-level syscalls and resumed lives in several directories likewise. "
            "Bridge: the re-opened cache satisfies C06's CacheWF / CacheOK (reopened_cache_wf, reopened_cache_ok), so C06's theorems apply to whatever survives a crash.",
    "note": "trusted: Lean kernel, strace + trace parser, process-death (not power-loss) file-system semantics, name classification in the driver, fault injection (RLIMIT_FSIZE, immutable dir) standing for I/O errors; "
            "partial: real-writers-issue-the-model's-operations is correspondence not theorem, a failing close(2) alone / fixHeader / reset-walk faults not injected, CRC burst detection proved for 8-byte windows (58..64-bit unaligned bursts trusted), "
            "rename on an id change needs the new id to continue the history held (C06). D15 fixed (9091dc9), snapshot size defence (a4935cf).",
    "technique": "Lean 4 proof (structural induction over arbitrary directory images, operation lists with faults and writer scripts with a file-level invariant, re-established from any truthful directory) + "
                 "syscall-trace correspondence (strace, failed attempts included) with exhaustive crash-prefix replay",
}
