PROP = {
    "lean_modules": ["GunYu.Props.C08", "GunYu.Props.C08Faults", "GunYu.Props.C08Verify", "GunYu.Props.C08Root"],
    "audit_namespaces": ["GunYu.Props.C08"],
    "required_theorems": [
        "GunYu.Props.C08.reopen_range_contiguous",
        "GunYu.Props.C08.reopen_range_covered",
        "GunYu.Props.C08.gap_segments_discarded",
        "GunYu.Props.C08.reopen_snapshot_aligned",
        "GunYu.Props.C08.tmp_snapshot_not_offered",
        "GunYu.Props.C08.snapshot_committed_only_when_complete",
        "GunYu.Props.C08.crash_snapshot_complete",
        "GunYu.Props.C08.ghost_matches_index",
        "GunYu.Props.C08.crash_snapshot_true",
        "GunYu.Props.C08.reopen_cache_wf",
        "GunYu.Props.C08.reopened_cache_wf",
        "GunYu.Props.C08.reopened_cache_holds",
        "GunYu.Props.C08.reopened_cache_ok",
        "GunYu.Props.C08.script_ops_true",
        "GunYu.Props.C08.crash_bytes_true",
        "GunYu.Props.C08.reopen_bytes_true",
        "GunYu.Props.C08.crash_images_truthful",
        "GunYu.Props.C08.crc_mismatch_refused",
        "GunYu.Props.C08.corrupt_segment_never_served",
        "GunYu.Props.C08.altered_crc_refused",
        "GunYu.Props.C08.closed_segment_verifies",
        "GunYu.Props.C08.altered_data_accepted_iff",
        "GunYu.Props.C08.altered_size_refused",
        # session 4 — torn header rewrites, faults (Props/C08Faults.lean)
        "GunYu.Props.C08.crash_bytes_true_torn",
        "GunYu.Props.C08.crash_snapshot_true_torn",
        "GunYu.Props.C08.fault_ops_true",
        "GunYu.Props.C08.fault_crash_bytes_true",
        "GunYu.Props.C08.fault_crash_snapshot_true",
        "GunYu.Props.C08.fault_crash_snapshot_complete",
        # verification while the process lives (Props/C08Verify.lean)
        "GunYu.Props.C08.verify_restart_nothing_live",
        "GunYu.Props.C08.live_segment_accepted",
        "GunYu.Props.C08.altered_closed_segment_never_served",
        "GunYu.Props.C08.altered_closed_segment_never_served_live",
        "GunYu.Props.C08.live_bytes_true",
        "GunYu.Props.C08.closed_segment_file_exact",
        "GunYu.Props.C08.closed_segment_file_exact_plain",
        "GunYu.Props.C08.closed_segment_verifies_live",
        "GunYu.Props.C08.accepted_iff_consistent",
        "GunYu.Props.C08.version_reserved_ignored",
        "GunYu.Props.C08.accepted_alteration_cases",
        "GunYu.Props.C08.burst_alteration_refused",
        "GunYu.Props.C08.live_burst_never_served",
        # life after the restart, several id directories (Props/C08Root.lean)
        "GunYu.Props.C08.resume_crash_bytes_true",
        "GunYu.Props.C08.resume_crash_snapshot_complete",
        "GunYu.Props.C08.resume_image_reopenable",
        "GunYu.Props.C08.rootOk_bytes_true",
        "GunYu.Props.C08.del_run_id_crash_true",
        "GunYu.Props.C08.set_run_id_crash_true",
        "GunYu.Props.C08.set_run_id_rename_agree",
        "GunYu.Props.C08.verify_run_id_right_id",
        "GunYu.Props.C08.root_bytes_true",
        "GunYu.Props.C08.root_snapshot_complete",
    ],
    "expected_facts": {"crc64tab_len": 256},
    "harness": [
        {"name": "C08", "pkg": "./pkg/store/", "test": "TestVerifC08"},
    ],
    "driver": "drv_C08",
    "rule": "scripts of writer-level operations (snapshot writers: complete, cut short and closed, a chunk received but the writer "
            "stopped before writing it, a chunk whose file write fails — last or middle chunk; stream writers with chunks of any size "
            "crossing the rotation limit 24..64, short writes (RLIMIT_FSIZE: only the first k bytes of a chunk reach the file, then the "
            "writer ends), writer close/replacement, collector passes with size limits, new snapshots over existing data) with bytes from "
            "a per-case source function, plus per run at least one production-size script (rotation limit > 3 x 4096, snapshot > 3 x 8192 "
            "with a valid CRC64 footer, so every 4096/8192-byte loop of the code runs several iterations); two thirds of all snapshots "
            "carry a valid checksum footer (a verifying reader accepts them). FAULTS (session 4; in the random scripts and in two fault scripts "
            "per run that contain every kind once, each followed by further steps): the header rewrite failing after k = 0..15 bytes at close "
            "and at a rotation (RLIMIT_FSIZE set by the writer's own write observer between the data write and the rotation), the open of the "
            "next segment failing at a rotation, os.Remove failing at the close of an empty live segment / at an incomplete snapshot / for every "
            "RemoveAll of a collector pass, or for SOME of its segments only (dgcp: those files immutable) (immutable attribute on the directory: create, unlink, rename fail with EPERM; counter "
            "fault_injection_immutable_dir, or note_..._unsupported when the file system cannot). The REAL RdbWriter/AofRotater/resetDataSet/gcLogs run in a "
            "child process under strace; the syscalls on the cache directory — successful AND failed attempts (fail create <flags> / fail remove / fail write @offset <bytes>) — are "
            "(1) compared op for op with the Lean model (scriptOps for fault-free scripts AND xScriptOps, which must agree; xrun with faults): name(s), "
            "open flags of every create (O_WRONLY|O_CREAT|O_TRUNC), offset and bytes of every write (append @size, header rewrite @0), rename source and "
            "target, order of the unlinks (the reset's walk over what the directory really holds, orphans of failed removals included), and a line `hyp wf=1 src=1`: the driver CHECKS on every script (c8w and c8d) that it "
            "meets the theorems' hypotheses (wfXB = decide wfX; srcOkXB with the harness' source function, proved sound: srcOkXB_sound) — a script outside them is a DIFF, counter scripts_hypotheses_checked; (1b) the MODEL's "
            "crash image crashImageX [] ops n k is compared with the image built from the real syscalls for every prefix and every torn write; "
            "(2) replayed prefix by prefix (every instant the process could have died) plus each multi-byte write — appends AND header rewrites — torn at 1, n/2, n-1 bytes into fresh "
            "directories that the real NewStorer/SetRunId/GetReader re-open with verification off and on (every prefix); range, snapshot, "
            "validity of the offsets around every boundary, the set of files initDataSet unlinked (removed=), every stream byte read and every snapshot byte read through the real "
            "RdbReader are compared with the model and, independently, with the source bytes; (3) each closed segment of the final image "
            "is altered (data bit anywhere, data bit in the last 4 KiB piece, recorded size, recorded crc, truncated, extended) and each "
            "footer-carrying snapshot (data bit, last piece, footer) and re-opened with verification; (4) random subsets of the final "
            "image (os.RemoveAll order is not lexical) are re-opened; (5) life after the restart: the real writer resumes at "
            "LatestOffset on the re-opened Storer, appends, the collector runs with a small limit; VERIFYING readers on the live index (c8v: segments the resumed "
            "writer closed pass, what the crash left torn is refused, the writer's own segment is not verified; then one closed segment is altered on disk; then the writer's close fails its header rewrite "
            "(descriptor closed underneath it: the close observer never runs), a new writer goes on and a verifying reader passes through that segment) are "
            "compared with serveLive — the function the live_* theorems are about — on XDisk.ofImage (directory, writer's segment, segments whose close observer never ran); a write fails (descriptor closed), the process dies again and is re-opened (monitors: every byte served is the source's, the reported end never "
            "exceeds what was written); (6) SEVERAL REPLICATION-ID DIRECTORIES (two id scripts per run): lives of the writers in directories a, b (two independent sources), a new process choosing "
            "with VerifyRunId among ?, a missing id, a, b; an id change (SetRunId renames the directory), switches between existing ids (re-scan), DelRunId of the current id, a directory "
            "re-created, DelRunId of another / a missing id — the directory-level syscalls (mkdir, rename, the unlinks of RemoveAll as a set, rmdir) and the writers' operations of the "
            "resumed lives are compared op for op with the model (c8d: setRunIdSys / verifyRunId / delRunIdSys / XDisk.reopened + xstep); every prefix (and torn write) of them is a base "
            "directory whose every id directory is re-opened by the real code (compared with the model, monitored against ITS id's source), and a new process' real VerifyRunId(ids) on it "
            "is compared with the model's (c8V: id taken, current id, offset returned). Retention, writer liveness and 'a deleted cache is gone' (C06/C16) are counted as notes. At RUNTIME after a "
            "short write the reported range must equal the bytes in the files. Scripts reach the child through a file (no size limit). distinct_nontrivial = distinct directory images re-opened",
    "trusted": [
        "strace's rendering of the syscalls and the harness' parser of it (harness/overlay/pkg/store/vf_c08_test.go; any of "
        "write/writev/pwrite64/pwritev/ftruncate/O_APPEND/O_TRUNC is turned into 'bytes at an offset of a file'; failed calls (= -1 E…) on the directory are "
        "kept as attempts, the several syscalls of one os.Remove/os.RemoveAll on one name counted once; sanity check of trace AND parser: "
        "the parsed operations applied to an empty directory must reproduce, byte for byte, the directory (multi-id scripts: the whole base directory) the child left behind — otherwise "
        "(and when strace or the child cannot run) the case is retried and then reported as a broken tie (test failure -> BROKEN [tie], "
        "no-failing-input-found), never as a violation with a failing input)",
        "process-death semantics of the file system: a crash leaves a prefix of the issued syscalls, the last write possibly torn "
        "(power-loss reordering of unsynced writes is outside the property); a directory rename is atomic",
        "the fault injection stands for the faults it imitates: RLIMIT_FSIZE (EFBIG after k bytes) for a failing write, the immutable directory attribute (EPERM) for "
        "failing create / unlink of the directory's entries; the code under test does not look at the errno",
        "file-name classification (strconv.ParseInt / ParseRdbFile on names the writers produce) is done by the driver, not the model "
        "(the model's names are an inductive type; the second conjunct of tmp_snapshot_not_offered is therefore definitional)",
        "CRC64 burst detection: PROVED (burst_alteration_refused, from the regenerated table: GF(2)-linearity + injectivity of the register step + the folding identity) for every change "
        "confined to 8 consecutive bytes, i.e. every burst of at most 57 bits wherever it starts and every byte-aligned 64-bit burst; still TRUSTED (standard CRC fact): a burst of 58..64 bits that "
        "straddles 9 bytes. For everything else the theorems say: accepted only if length equal and CRC64 collides, or header bytes 1..12 rewritten consistently (accepted_alteration_cases)",
    ],
    "assumptions": [
        "syscall-level tie chosen over directory snapshots: strace works in the sandbox, so every syscall prefix of the real writers is a crash image (no hooks)",
        "SrcOk / SrcOkX (hypothesis of script_ops_true / crash_bytes_true / fault_crash_bytes_true / resume_crash_bytes_true / live_bytes_true): the chunks handed to the stream writer are the source's bytes at the "
        "offsets they are appended at — that the CALLERS hand over what they received is C05 (pipe/ingest, harness C05chan) and C06",
        "several ids (Props/C08Root.lean): srcOf id = the history of replication id id. The one hypothesis about ids: when SetRunId RENAMES the current directory to a new id (changeReplId), "
        "what the directory holds is history of the new id too (RenOk; the source continued the stream under a new replication id — which offsets that covers is C06's). "
        "The hypothesis is asked only when the operation really renames (setRunIdRenames) and follows from PSYNC2's Agree (the new id's history equals the old one's below the switch offset x) plus "
        "'the directory holds nothing at or beyond x' (set_run_id_rename_agree / renOk_of_agree; C06: Agree, cache_consistent_after — cited, composed by this lemma, C06 is not imported). "
        "VerifyRunId, DelRunId and SetRunId on an existing directory need no hypothesis (they never rename: verifyRunId_spec, delRunIdSys_no_rename); VerifyRunId's choice is the code's rule (Chosen, verifyRunId_rule: an iff)",
        "an id switch and a DelRunId find the writers closed (the callers' protocol, Disk.okOp); a new process' index is reopen(directory) — the id-level model builds the index of a resumed life "
        "with XDisk.reopened (proved to satisfy the writers' invariants for ANY truthful directory with distinct names and complete committed snapshots: xinv_reopened)",
        "CRC64 table regenerated from pkg/digest/crc64.go each run (Gen/Crc64Table.lean)",
    ],
    "partial": [
        "fault_crash_bytes_true / crash_bytes_true(_torn) / crash_snapshot_true(_torn) / resume_* quantify over the MODEL's operation lists (all scripts with faults anywhere, all crash instants, all torn "
        "lengths of appends and header rewrites, any truthful start directory); that the real writers issue exactly these file operations — names, flags, offsets, bytes, order, failed attempts — is the "
        "syscall-level correspondence (compared op for op on every script run), not a theorem; the Go code is not translated",
        "faults modelled and injected: header rewrite failing after k<16 bytes (close, rotation), open failing at rotation, os.Remove failing (empty live segment, temporary snapshot, every removal of a "
        "collector pass or any subset of its segments), short write. NOT modelled / injected: a failing os.Rename / fsync at the snapshot commit (repaired in /repo 679f548 / 45f65ae and injected by C16's harness: the snapshot is then dropped like an incomplete one), "
        "the fixHeader write of a new segment failing after its creation, os.Remove failing inside resetDataSet's walk or inside initDataSet (property-neutral: the file is cut again at the next "
        "re-opening), Sync/Close errors, a short write that crosses the rotation limit is modelled (no rotation) but the harness only injects k below the limit",
        "snapshot content: crash_snapshot_true / fault_crash_snapshot_true prove that an offered snapshot file holds exactly the bytes the ghost `received` records for that announcement "
        "(every byte handed to the snapshot writer since it was created, computed from the operation list alone; ghost_matches_index ties it to the index), complete and "
        "in order, for every script / fault / crash instant / torn length; after a restart (resume_crash_snapshot_complete, root_snapshot_complete): complete (length = announced size) — content = "
        "'what the directory held or what this life received' (resume_received). NOT said: which source snapshot these bytes are (C06's World.snap)",
        "verification: 'a segment FAILS THE CHECK' = segVerifyOk false (recorded size/CRC64 vs data); altered_closed_segment_never_served(_live) say what a failing check does to the reader "
        "(the reader reads the FILES: serveFromL; `_live`: ONE closed segment's file replaced, the others as they are). WHICH changes fail the check: closed_segment_file_exact (in every reachable state the "
        "file of a closed segment is closedHeader data ++ data, except segments whose header rewrite failed in the script — taintRun — and those a re-opened life began with), then "
        "altered_data_accepted_iff (header kept: iff same length and CRC64 collision), accepted_iff_consistent / accepted_alteration_cases (header and data changed together: accepted iff bytes 1..12 are "
        "the fields of the new data — a CONSISTENT REPLACEMENT of a whole segment file is accepted, inherently), version_reserved_ignored (bytes 0, 13..15 are read by nobody, as the code), "
        "burst_alteration_refused (8-byte window, proved). No false refusal while the process lives: closed_segment_verifies_live. NOT covered: a reader that is ALREADY inside a segment when it is "
        "altered is not re-verified (neither in the code); closed_segment_file_exact is stated for lives from the empty store (cinv_run is general: for a re-opened life the segments it began with are excluded)",
        "OBSERVATION for the C05/C06 owners (not a C08 statement, no C08 finding): after a failed header rewrite in closeAof (Seek/Write error) the close observer never runs; the index entry keeps size == -1 "
        "and its writer reference (rwRef) for ever, so (a) hasWriter stays true: verifying readers never verify that segment while the process lives (modelled: zombies ⊆ unverifiedOf; tied: c8v resumed_zombie), "
        "(b) gcLogs stops at it permanently (`aof.Ref() > 0 → break`): nothing at or after it is ever collected, the cache grows without bound until the next reset / restart (modelled: gcZ; tied op for op, "
        "corpus header_rewrite_faults.txt: 'dgc removes nothing'). A restart cures both (initDataSet re-builds the entry with its size; the torn header is then refused by a verifying reader)",
        "id level: root_bytes_true covers any interleaving of lives and id-level operations cut at any syscall (RootReach); the tie runs two id scripts per run. A writer left OPEN across an id switch / "
        "DelRunId (old.Close() after the rename: header rewrite through the open descriptor, os.Remove with the old path) is outside Disk.okOp and not scripted; changeReplId's second branch "
        "(RemoveAll(new) + MkdirAll(old)) is unreachable from SetRunId and not modelled; after DelRunId the Storer's dir is \"\" — a writer created before the next SetRunId would write to the "
        "process' working directory (not scripted, the callers set an id first)",
        "bridge to C06 (reopen_cache_wf for ANY image, reopened_cache_wf / reopened_cache_ok for every script and crash instant; definitions imported from Model/Psync.lean): "
        "the re-opened cache satisfies C06's CacheWF and CacheOK. Remaining hypotheses: offsets fit int64 (the model's offsets are naturals), the label id is a real id, and for "
        "CacheOK the callers' SrcOk (the chunks appended are history id's bytes). C06's theorems are not re-stated here (Props/C06 is not imported: a broken C06 must not break C08); "
        "the bridge theorems are stated for the fault-free scripts (crashImage), not re-stated for xScriptOps",
        "a committed snapshot NAME with fewer bytes than announced (copy, file-system repair, power loss after an unsynced rename) is outside the quantifier "
        "(process death + alterations of closed segments): initDataSet trusts the name and does not compare info.Size(); such an image is not generated (SnapOk is a hypothesis of resume_*)",
        "the literal syscall list is compared with the model: a rewrite that coalesces or splits writes, opens with other flags or writes the header with pwrite gives a DIFF (tie failure), not a violation; "
        "the crash images themselves are always built from the syscalls that really occurred",
        "crc_mismatch_refused for arbitrary alterations is 'refused unless length equal and CRC64 collides' (altered_data_accepted_iff); "
        "the burst-error detection property of CRC64 itself is not re-proved; the version/reserved header bytes are checked by neither code nor model",
        "read() ignores tryReadNextFile's error: a corrupt NEXT segment ends the reader with os.ErrInvalid, not ErrCorrupted (the caller only drops "
        "the cache on ErrCorrupted) — a refusal either way, outside the property's wording",
    ],
}

MANIFEST = {
    "text": "Lean theorems about re-opening ANY directory image (reopen = initDataSet + repaired TruncateGap): indexed segments are contiguous and "
            "cover the reported range, older segments behind a gap are discarded together with the snapshot, an offered snapshot is a committed "
            "file aligned with the first segment (temporary files never offered). UNCONDITIONAL over all writer scripts respecting the callers' "
            "protocol — WITH FAULTS anywhere (header rewrite failing after k bytes at close / rotation, open failing at rotation, removals failing, short writes) — all crash instants and torn lengths "
            "(appends and header rewrites): an offered snapshot holds exactly the announced number of bytes "
            "and exactly the bytes the snapshot writer received, in order (fault_crash_snapshot_true, ghost `received`), and every byte a reader of the re-opened cache delivers is the source's byte at that offset "
            "(fault_crash_bytes_true; hypothesis: the chunks appended are the source's bytes). LIFE AFTER THE RESTART: the same from ANY truthful directory a new process re-opens, any number of times "
            "(resume_*), and above the directory: SetRunId (rename on an id change), VerifyRunId among several ids, DelRunId (RemoveAll in any order) cut at any syscall — what is served under an id is that id's "
            "(root_bytes_true). Checksum verification: no byte at or "
            "beyond a closed segment that FAILS THE CHECK is delivered wherever it is in the chain, after a restart and while a writer is attached (its own segment is not verified: 99a0b20; the reader reads the files); in every reachable state a closed segment's file is exactly closedHeader data ++ data (closed_segment_file_exact), so: an altered recorded CRC or size is refused, altered data is "
            "accepted only if length is equal and CRC64 collides (never for a change within 8 consecutive bytes: proved from the table), header and data rewritten consistently are accepted (inherent). Tie: the real writers run under strace (incl. production-size segments and "
            "snapshots, injected faults); the syscall list — flags, offsets, bytes, order, failed attempts — is compared op for op with the model, the model's crash images with the real ones, and every prefix / torn "
            "write / alteration / random subset is re-opened by the real code (answers, bytes, files unlinked compared with the model); id-level syscalls and resumed lives in several directories likewise. "
            "Bridge: the re-opened cache satisfies C06's CacheWF / CacheOK (reopened_cache_wf, reopened_cache_ok), so C06's theorems apply to whatever survives a crash.",
    "note": "trusted: Lean kernel, strace + trace parser, process-death (not power-loss) file-system semantics, name classification in the driver, fault injection (RLIMIT_FSIZE, immutable dir) standing for I/O errors; "
            "partial: real-writers-issue-the-model's-operations is correspondence not theorem, rename/fixHeader/reset-walk faults not injected, CRC burst detection proved for 8-byte windows (58..64-bit unaligned bursts trusted), "
            "rename on an id change needs the new id to continue the history held (C06). D15 fixed (9091dc9).",
    "technique": "Lean 4 proof (structural induction over arbitrary directory images, operation lists with faults and writer scripts with a file-level invariant, re-established from any truthful directory) + "
                 "syscall-trace correspondence (strace, failed attempts included) with exhaustive crash-prefix replay",
}
