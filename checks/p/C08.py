PROP = {
    "lean_modules": ["GunYu.Props.C08"],
    "audit_namespaces": ["GunYu.Props.C08"],
    "required_theorems": [
        "GunYu.Props.C08.reopen_range_contiguous",
        "GunYu.Props.C08.reopen_range_covered",
        "GunYu.Props.C08.gap_segments_discarded",
        "GunYu.Props.C08.reopen_snapshot_aligned",
        "GunYu.Props.C08.tmp_snapshot_not_offered",
        "GunYu.Props.C08.snapshot_committed_only_when_complete",
        "GunYu.Props.C08.reopen_bytes_true",
        "GunYu.Props.C08.crash_images_truthful",
        "GunYu.Props.C08.crc_mismatch_refused",
        "GunYu.Props.C08.closed_segment_verifies",
        "GunYu.Props.C08.altered_data_accepted_iff",
        "GunYu.Props.C08.altered_size_refused",
    ],
    "expected_facts": {"crc64tab_len": 256},
    "harness": [
        {"name": "C08", "pkg": "./pkg/store/", "test": "TestVerifC08"},
    ],
    "driver": "drv_C08",
    "rule": "scripts of writer-level operations (snapshot writers complete/cut short, stream writers with chunks of any size "
            "crossing the rotation limit 24..64, writer close/replacement, collector passes with size limits, new snapshots over "
            "existing data) with bytes from a per-case source function; the REAL RdbWriter/AofRotater/resetDataSet/gcLogs run in a "
            "child process under strace; the file-level syscalls on the cache directory (create/append/header rewrite/rename/remove) "
            "are (1) compared op for op with the Lean model's scriptOps and (2) replayed prefix by prefix (every instant the process "
            "could have died) plus each multi-byte write torn at 1, n/2, n-1 bytes into fresh directories that the real "
            "NewStorer/SetRunId/GetReader re-open with verification off and on; range, snapshot, validity of the offsets around every "
            "boundary and every byte read are compared with the model and, independently, with the source bytes; (3) each closed "
            "segment of the final image is altered (data bit, recorded size, recorded crc, truncated, extended) and re-opened with "
            "verification. distinct_nontrivial = distinct directory images re-opened",
    "trusted": [
        "strace's rendering of the syscalls and the harness' parser of it (harness/overlay/pkg/store/vf_c08_test.go)",
        "process-death semantics of the file system: a crash leaves a prefix of the issued syscalls, the last write possibly torn "
        "(power-loss reordering of unsynced writes is outside the property)",
        "file-name classification (strconv.ParseInt / ParseRdbFile on names the writers produce) is done by the driver, not the model",
        "CRC64 detects every burst error of at most 64 bits (standard CRC fact; the theorems say: accepted only if length equal and CRC64 collides)",
    ],
    "assumptions": [
        "syscall-level tie chosen over directory snapshots: strace works in the sandbox, so every syscall prefix of the real writers is a crash image (no hooks)",
        "one replication id per script (DelRunId's os.RemoveAll order and directory renames are not part of the crash scripts)",
        "CRC64 table regenerated from pkg/digest/crc64.go each run (Gen/Crc64Table.lean)",
    ],
    "partial": [
        "crash_images_truthful is proved for every operation list whose operations are each truthful (OpTrue) where applied, for every "
        "prefix and torn last append; that the writers' own operation lists (scriptOps) satisfy OpTrue for every script is tied by the "
        "syscall-level correspondence + monitor, not proved as a theorem",
        "crc_mismatch_refused for arbitrary alterations is 'refused unless length equal and CRC64 collides' (altered_data_accepted_iff); "
        "the burst-error detection property of CRC64 itself is not re-proved",
    ],
}

MANIFEST = {
    "text": "Lean theorems about re-opening ANY directory image (reopen = initDataSet + repaired TruncateGap): indexed segments are contiguous and "
            "cover the reported range, older segments behind a gap are discarded together with the snapshot, an offered snapshot is a committed "
            "file aligned with the first segment (temporary files never offered; the committed name is given only in the step that writes the last "
            "byte), every byte served from a truthful directory is the source's byte at that offset, truthfulness survives every crash prefix with a "
            "torn last append, and checksum verification refuses any altered closed segment unless length is equal and CRC64 collides. Tie: the real "
            "writers run under strace; the syscall list is compared with the model and every prefix / torn write is re-opened by the real code.",
    "note": "trusted: Lean kernel, strace + trace parser, process-death (not power-loss) file-system semantics, name classification in the driver; "
            "partial: OpTrue of the writers' own scripts tied by correspondence, CRC burst detection not re-proved. D15 fixed (9091dc9).",
    "technique": "Lean 4 proof (structural induction over arbitrary directory images and operation lists) + syscall-trace correspondence (strace) with exhaustive crash-prefix replay",
}
