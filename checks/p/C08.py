PROP = {
    "lean_modules": ["GunYu.Props.C08"],
    "audit_namespaces": ["GunYu.Props.C08"],
    "required_theorems": [
        "GunYu.Props.C08.reopen_range_contiguous",
        "GunYu.Props.C08.reopen_range_covered",
        "GunYu.Props.C08.gap_segments_discarded",
        "GunYu.Props.C08.reopen_snapshot_aligned",
        "GunYu.Props.C08.tmp_snapshot_not_offered",
        "GunYu.Props.C08.snapshot_committed_only_when_complete",
        "GunYu.Props.C08.crash_snapshot_complete",
        "GunYu.Props.C08.ghost_matches_index",
        "GunYu.Props.C08.crash_snapshot_true",
        "GunYu.Props.C08.reopen_cache_wf",
        "GunYu.Props.C08.reopened_cache_wf",
        "GunYu.Props.C08.reopened_cache_holds",
        "GunYu.Props.C08.reopened_cache_ok",
        "GunYu.Props.C08.script_ops_true",
        "GunYu.Props.C08.crash_bytes_true",
        "GunYu.Props.C08.reopen_bytes_true",
        "GunYu.Props.C08.crash_images_truthful",
        "GunYu.Props.C08.crc_mismatch_refused",
        "GunYu.Props.C08.corrupt_segment_never_served",
        "GunYu.Props.C08.altered_crc_refused",
        "GunYu.Props.C08.closed_segment_verifies",
        "GunYu.Props.C08.altered_data_accepted_iff",
        "GunYu.Props.C08.altered_size_refused",
    ],
    "expected_facts": {"crc64tab_len": 256},
    "harness": [
        {"name": "C08", "pkg": "./pkg/store/", "test": "TestVerifC08"},
    ],
    "driver": "drv_C08",
    "rule": "scripts of writer-level operations (snapshot writers: complete, cut short and closed, a chunk received but the writer "
            "stopped before writing it, a chunk whose file write fails — last or middle chunk; stream writers with chunks of any size "
            "crossing the rotation limit 24..64, short writes (RLIMIT_FSIZE: only the first k bytes of a chunk reach the file, then the "
            "writer ends), writer close/replacement, collector passes with size limits, new snapshots over existing data) with bytes from "
            "a per-case source function, plus per run at least one production-size script (rotation limit > 3 x 4096, snapshot > 3 x 8192 "
            "with a valid CRC64 footer, so every 4096/8192-byte loop of the code runs several iterations); two thirds of all snapshots "
            "carry a valid checksum footer (a verifying reader accepts them). The REAL RdbWriter/AofRotater/resetDataSet/gcLogs run in a "
            "child process under strace; the file-level syscalls on the cache directory (create/append/header rewrite/rename/remove; "
            "short writes cut to the returned length) are (1) compared op for op with the Lean model's scriptOps and (2) replayed prefix "
            "by prefix (every instant the process could have died) plus each multi-byte write torn at 1, n/2, n-1 bytes into fresh "
            "directories that the real NewStorer/SetRunId/GetReader re-open with verification off and on (every prefix); range, snapshot, "
            "validity of the offsets around every boundary, every stream byte read and every snapshot byte read through the real "
            "RdbReader are compared with the model and, independently, with the source bytes; (3) each closed segment of the final image "
            "is altered (data bit anywhere, data bit in the last 4 KiB piece, recorded size, recorded crc, truncated, extended) and each "
            "footer-carrying snapshot (data bit, last piece, footer) and re-opened with verification; (4) random subsets of the final "
            "image (os.RemoveAll order is not lexical) are re-opened; (5) life after the restart (monitor only): the real writer resumes at "
            "LatestOffset on the re-opened Storer, appends, the collector runs with a small limit, a write fails (descriptor closed), the "
            "process dies again and is re-opened, the replication id changes (directory renamed by SetRunId), VerifyRunId finds it "
            "among several ids, DelRunId deletes it; demanded there is SAFETY only (every byte served is the source's, the reported end never "
            "exceeds what was written); retention, writer liveness and 'a deleted cache is gone' (C06/C16) are counted as notes. At RUNTIME after a "
            "short write the reported range must equal the bytes in the files. Scripts reach the child through a file (no size limit). distinct_nontrivial = distinct directory images re-opened",
    "trusted": [
        "strace's rendering of the syscalls and the harness' parser of it (harness/overlay/pkg/store/vf_c08_test.go; any of "
        "write/writev/pwrite64/pwritev/ftruncate/O_APPEND/O_TRUNC is turned into 'bytes at an offset of a file'; sanity check of trace AND parser: "
        "the parsed operations applied to an empty directory must reproduce, byte for byte, the directory the child left behind — otherwise "
        "(and when strace or the child cannot run) the case is retried and then reported as a broken tie (test failure -> BROKEN [tie], "
        "no-failing-input-found), never as a violation with a failing input)",
        "process-death semantics of the file system: a crash leaves a prefix of the issued syscalls, the last write possibly torn "
        "(power-loss reordering of unsynced writes is outside the property)",
        "file-name classification (strconv.ParseInt / ParseRdbFile on names the writers produce) is done by the driver, not the model "
        "(the model's names are an inductive type; the second conjunct of tmp_snapshot_not_offered is therefore definitional)",
        "CRC64 detects every burst error of at most 64 bits (standard CRC fact; the theorems say: accepted only if length equal and CRC64 collides)",
    ],
    "assumptions": [
        "syscall-level tie chosen over directory snapshots: strace works in the sandbox, so every syscall prefix of the real writers is a crash image (no hooks)",
        "SrcOk (hypothesis of script_ops_true / crash_bytes_true): the chunks handed to the stream writer are the source's bytes at the "
        "offsets they are appended at — that the CALLERS hand over what they received is C05 (pipe/ingest, harness C05chan) and C06",
        "the crash scripts of the model use one replication id; the id-level operations (rename on id change, VerifyRunId among several "
        "ids, DelRunId, any subset of files surviving a RemoveAll) are exercised on the real code with the monitor only, not modelled",
        "CRC64 table regenerated from pkg/digest/crc64.go each run (Gen/Crc64Table.lean)",
    ],
    "partial": [
        "crash_bytes_true / crash_snapshot_complete quantify over the MODEL's scriptOps (all scripts, all crash instants, all torn lengths); "
        "that the real writers issue exactly these file operations is the syscall-level correspondence, not a theorem",
        "the model tears appends only; a torn 16-byte header rewrite is not a model crash image (harmless for truth: the header is unused "
        "without verification and refused with it) — the harness does tear header writes (every multi-byte write) and re-opens them",
        "snapshot content: crash_snapshot_true proves that an offered snapshot file holds exactly the bytes the ghost `received` records for that announcement "
        "(every byte handed to the snapshot writer since it was created, computed from the operation list alone; ghost_matches_index ties it to the index), complete and "
        "in order, for every script / crash instant / torn length; the monitor snapshot-bytes-wrong is its tie to the real writers. NOT said: which source snapshot these "
        "bytes are (C06's World.snap) — CacheOK only needs the offset the file is filed under",
        "stream-side faults: short writes are modelled and injected; a failing header rewrite at close, a failing open at rotation and failing "
        "os.Remove calls are NOT injected (review mutation 8 — close observer called or not after a failed header write — stays uncaught; "
        "its effect is on the runtime index, not on what a re-opened cache serves)",
        "the files initDataSet unlinks at re-opening (Reopened.removed in the model) are not compared with the real unlinks (property-neutral: "
        "a surviving cut file is cut again at the next re-opening)",
        "bridge to C06 (reopen_cache_wf for ANY image, reopened_cache_wf / reopened_cache_ok for every script and crash instant; definitions imported from Model/Psync.lean): "
        "the re-opened cache satisfies C06's CacheWF and CacheOK. Remaining hypotheses: offsets fit int64 (the model's offsets are naturals), the label id is a real id, and for "
        "CacheOK the callers' SrcOk (the chunks appended are history id's bytes). C06's theorems are not re-stated here (Props/C06 is not imported: a broken C06 must not break C08)",
        "a committed snapshot NAME with fewer bytes than announced (copy, file-system repair, power loss after an unsynced rename) is outside the quantifier "
        "(process death + alterations of closed segments): initDataSet trusts the name and does not compare info.Size(); such an image is not generated",
        "the literal syscall list is compared with the model's scriptOps: a rewrite that coalesces or splits writes gives a DIFF (tie failure), not a violation; "
        "the crash images themselves are always built from the syscalls that really occurred",
        "crc_mismatch_refused for arbitrary alterations is 'refused unless length equal and CRC64 collides' (altered_data_accepted_iff); "
        "the burst-error detection property of CRC64 itself is not re-proved; the version/reserved header bytes are checked by neither code nor model",
        "read() ignores tryReadNextFile's error: a corrupt NEXT segment ends the reader with os.ErrInvalid, not ErrCorrupted (the caller only drops "
        "the cache on ErrCorrupted) — a refusal either way, outside the property's wording",
    ],
}

MANIFEST = {
    "text": "Lean theorems about re-opening ANY directory image (reopen = initDataSet + repaired TruncateGap): indexed segments are contiguous and "
            "cover the reported range, older segments behind a gap are discarded together with the snapshot, an offered snapshot is a committed "
            "file aligned with the first segment (temporary files never offered). UNCONDITIONAL over all writer scripts respecting the callers' "
            "protocol, all crash instants and torn lengths: an offered snapshot holds exactly the announced number of bytes "
            "(crash_snapshot_complete) and exactly the bytes the snapshot writer received, in order (crash_snapshot_true, ghost `received`), and every byte a reader of the re-opened cache delivers is the source's byte at that offset "
            "(script_ops_true + crash_bytes_true; hypothesis: the chunks appended are the source's bytes). Checksum verification: no byte at or "
            "beyond a failing segment is delivered wherever it is in the chain, an altered recorded CRC or size is refused, altered data is "
            "accepted only if length is equal and CRC64 collides. Tie: the real writers run under strace (incl. production-size segments and "
            "snapshots, short writes, write faults on the snapshot side); the syscall list is compared with the model and every prefix / torn "
            "write / alteration / random subset is re-opened by the real code; resumed writers, collector, second crash, id change and DelRunId "
            "are monitored on the real code. Bridge: the re-opened cache satisfies C06's CacheWF / CacheOK (reopened_cache_wf, reopened_cache_ok), so C06's theorems apply to whatever survives a crash.",
    "note": "trusted: Lean kernel, strace + trace parser, process-death (not power-loss) file-system semantics, name classification in the driver; "
            "partial: real-writers-issue-scriptOps is correspondence not theorem, header-rewrite/rotation-open/"
            "remove faults not injected, CRC burst detection not re-proved. D15 fixed (9091dc9).",
    "technique": "Lean 4 proof (structural induction over arbitrary directory images, operation lists and writer scripts with a file-level invariant) + "
                 "syscall-trace correspondence (strace) with exhaustive crash-prefix replay",
}
