PROP = {
    "lean_modules": ["GunYu.Props.C04", "GunYu.Props.C04X", "GunYu.Props.C04F", "GunYu.Props.C04L", "GunYu.Props.C04B", "GunYu.Props.C04S", "GunYu.Props.C04G"],
    "audit_namespaces": ["GunYu.Props.C04"],
    "required_theorems": [
        "GunYu.Props.C04.no_checkpoint_unless_terminated",
        "GunYu.Props.C04.no_checkpoint_unless_all_applied",
        "GunYu.Props.C04.ok_only_if_all_applied",
        "GunYu.Props.C04.parse_total_gen",
        "GunYu.Props.C04.truncation_errors_gen",
        "GunYu.Props.C04.done_ends_with_footer_gen",
        "GunYu.Props.C04.alteration_detected_gen",
        "GunYu.Props.C04.readBytes_alloc_bounded",
        "GunYu.Props.C04.readBytes_ok",
        "GunYu.Props.C04.alloc_bounded_partial",
        "GunYu.Props.C04.readBytes_requests_bounded",
        "GunYu.Props.C04.lzfAlloc32_bounded",
        # RETIRED from the required list in session 5 (still in Props/C04.lean, still compiled and axiom-audited by the namespace
        # audit): the instances for the OLD frame grammar `parse` (LZF / streams / modules / text floats = 'unsup') and its
        # error-reading itemT - parse_total, truncation_errors, done_ends_with_footer, alteration_needs_crc_collision,
        # alteration_detected, zero_footer_exception, alteration_is_error_gen, itemT_good, itemT_total,
        # recorded_only_if_parsed_and_applied, truncated_never_recorded, altered_never_recorded, altered_never_recorded_model,
        # bodyChan_agrees, chanFeed_is_feed, recorded_only_if_parsed_and_applied_chan. Each has a counterpart below with suffix
        # _x / _s / chanFeedS stating the same for the extended grammar, which decides every input the old one decides and more
        # (no agreement THEOREM between the two models: both are tied to the real parser by their own sweeps, c04parse/c04xor
        # and c04xparse/c04xset; the claim of C04 now rests on the extended one only). The reader-generic lemmas *_gen stay.
        # session 4 — extended grammar (LZF, streams, modules, module-aux, text floats, split hashes): Props/C04X.lean
        "GunYu.Props.C04.itemX_good",
        "GunYu.Props.C04.itemX_total",
        "GunYu.Props.C04.parse_total_s",
        "GunYu.Props.C04.truncation_errors_s",
        "GunYu.Props.C04.done_ends_with_footer_s",
        "GunYu.Props.C04.altered_breaks_footer",
        "GunYu.Props.C04.alteration_detected_s",
        "GunYu.Props.C04.alteration_is_error_s",
        "GunYu.Props.C04.parse_total_x",
        "GunYu.Props.C04.truncation_errors_x",
        "GunYu.Props.C04.done_ends_with_footer_x",
        "GunYu.Props.C04.alteration_detected_x",
        "GunYu.Props.C04.alteration_is_error_x",
        "GunYu.Props.C04.zero_footer_exception_x",
        "GunYu.Props.C04.recorded_only_if_parsed_and_applied_x",
        "GunYu.Props.C04.truncated_never_recorded_x",
        "GunYu.Props.C04.altered_never_recorded_x",
        "GunYu.Props.C04.chanFeedS_is_feed",
        "GunYu.Props.C04.recorded_only_if_parsed_and_applied_chan_x",
        # the LZF output buffer (D33)
        "GunYu.Props.C04.lzf_buffer_follows_output",
        "GunYu.Props.C04.lzf_buffer_linear_in_input",
        "GunYu.Props.C04.lzf_ok_length",
        # multiplicity and the global lane: Props/C04F.lean
        "GunYu.Props.C04.applied_at_most_once",
        "GunYu.Props.C04.checkpoint_exactly_once",
        "GunYu.Props.C04.ok_exactly_once",
        "GunYu.Props.C04.recorded_exactly_once_x",
        "GunYu.Props.C04.withGlobal_route",
        "GunYu.Props.C04.global_lane_routing",
        "GunYu.Props.C04.no_checkpoint_unless_terminated_global",
        "GunYu.Props.C04.recorded_only_if_parsed_and_applied_global",
        # loops driven by count fields: Props/C04L.lean
        "GunYu.Props.C04.count_loop_linear",
        "GunYu.Props.C04.walked_count_is_backed",
        "GunYu.Props.C04.pel_loop_linear",
        "GunYu.Props.C04.consumer_pel_loop_linear",
        "GunYu.Props.C04.string_loop_linear",
        # the LZF decision of the frame model is the decision of C03's content-producing decoder: Props/C04B.lean
        "GunYu.Props.C04.lzf_decision_is_full_buffer_decision",
        "GunYu.Props.C04.lzf_frame_decision",
        # session 5 — leftovers of an aborted replay, a later replay beside them: Props/C04S.lean
        "GunYu.Props.C04.ret_is_final",
        "GunYu.Props.C04.checkpoint_only_with_ok",
        "GunYu.Props.C04.aborted_stays_unrecorded",
        "GunYu.Props.C04.recorded_stays_recorded",
        "GunYu.Props.C04.stale_parser_holds_at_most_pipe",
        "GunYu.Props.C04.later_replay_independent",
        "GunYu.Props.C04.later_replay_recorded_exactly_once",
        "GunYu.Props.C04.earlier_abort_stays_unrecorded",
        # session 5 — the listpack walks of ExecCmd on the REGENERATED Listpack.Next (Gen/FnListpack.lean): Props/C04G.lean
        "GunYu.Props.C04.gen_lpNext_past_end",
        "GunYu.Props.C04.gen_lp_walk_bounded",
        "GunYu.Props.C04.gen_lp_count_over_bytes_fails",
        "GunYu.Props.C04.gen_lp_appended_le_bytes",
    ],
    "expected_facts": {
        # session 4 (harness/extract/c04.go): source pins of what Model/RdbLzf.lean / Model/RdbFrameX.lean transcribe by hand
        'c04_lzfDecompress': '{ defer func() { if x := recover(); x != nil { err = errors.Errorf("decompress exception: %v", x) } }() if outlen < 0 || outlen > len(in)*264 { return nil, errors.Errorf("decompress length %d is impossible for %d compressed bytes", outlen, len(in)) } n := outlen if n > readBytesStep { n = readBytesStep } out = make([]byte, n) i, o := 0, 0 for i < len(in) { ctrl := int(in[i]) i++ if ctrl < 32 { out = lzfRoom(out, o+ctrl+1, outlen) for x := 0; x <= ctrl; x++ { out[o] = in[i] i++ o++ } } else { length := ctrl >> 5 if length == 7 { length = length + int(in[i]) i++ } ref := o - ((ctrl & 0x1f) << 8) - int(in[i]) - 1 i++ out = lzfRoom(out, o+length+2, outlen) for x := 0; x <= length+1; x++ { out[o] = out[ref] ref++ o++ } } } if o != outlen { return nil, errors.Errorf("decompress length is %d != expected %d", o, outlen) } return out, nil }',
        'c04_lzfRoom': '{ if need <= len(out) || need > outlen { return out } n := need + readBytesStep if n > outlen { n = outlen } return append(out, make([]byte, n-len(out))...) }',
        'c04_consts': {'maxBinEntryBuffer': '16 * 1024 * 1024', 'readBytesStep': '64 * 1024 * 1024'},
        'c04_readBytesP_args': ['16', '16', '8'],
        'c04_hash_chunk_cond': 'hp.buf.Len() > maxBinEntryBuffer && i != int(n-1)',
        # session 5: what makes 'two replays of one RedisOutput share nothing' (Props/C04S.lean) the right model: every channel /
        # parser sendRdb creates is bound to a name declared in sendRdb (whatever the names), rdbPipe is a fresh ParseRdb over the reader handed in, ParseRdb's
        # channel is a local make, its body mentions one package-level variable (RdbVersion, never written), all its sends are
        # inside its goroutine, and every run of the input obtains a new reader
        'c04_sendRdb_nonlocal_channels': [],
        'c04_sendRdb_unbound_makers': 0,
        'c04_rdbPipe_source': 'rdb.ParseRdb(reader.IoReader(), &readBytes, config.RdbPipeSize, ro.rdbParseOptions()...)',
        'c04_parseRdb_pipe': 'make(chan *BinEntry, size)',
        'c04_parseRdb_pkg_vars': ['RdbVersion'],
        # dimension audit: process-global state - no package-level variable of pkg/rdb or pkg/rdbrestore is assigned by any function
        'c04_pkg_vars_written': [],
        'c04_parseRdb_sends': [5, 5],
        'c04_reader_per_run': {'readChannel': 'ri.channel.NewReader(readerOffset.ToOffset())', 'run': 'ri.readChannel(runScope, startPoint)'},
    },
    "harness": [
        {"name": "C04", "pkg": "./syncer/", "test": "TestVerifC04", "timeout_quick": "15m", "timeout_thorough": "60m"},
    ],
    "driver": "drv_C04",
    "rule": "real code: RedisOutput.SendRdb (rdb.ParseRdb -> distributor -> 1..4 workers -> setCheckpoint) in a testing/synctest "
            "bubble against the shared target double; rdb.ParseRdb alone for the frame-model correspondence. Inputs: 3 generated "
            "valid checksummed snapshots <= 400 B (AUX, RESIZEDB, 3 DBs, raw/int strings, 14-bit length, linked list, set, hash, "
            "expiry; one with an EOF opcode + 8 zero bytes inside a value, D19 bait) + 1 'oom bait' (binary key starting 00 00 01 00..). "
            "(1) parser vs Lean frame model: EVERY truncation length and EVERY single-byte XOR (255 masks x every position) of the 4 "
            "files, outcome d<n>/e<n>, 'u' where the Go-side walker says the parse path leaves the modelled grammar (LZF, text floats, "
            "streams, modules); inputs whose length fields ask for > 4 GiB (64-bit length form) are parsed in a child process (memory limit, 60 s budget) "
            "and a dying child is the violation 'oom'/'hang'/'crash'; (2) the whole pipeline on every truncation and 4 XOR masks per "
            "position (thorough: 11 masks + 200 generated files with random alterations), parallel 1-4, pipe sizes 1/2/8/1024, "
            "plain/bidirectional, restore on/off, checkpoint on target / in memory; (2b) a snapshot with a STREAM value (hand-built listpack, "
            "type 15): truncations and 4 (thorough 13) XOR masks per position incl. masks that produce invalid listpack element bytes, "
            "expansion path so the value decoder runs in the workers, executed in a supervised child process (6 GiB address-space "
            "limit, 40 s per case: a silent or dying child is the violation 'hang'/'oom'/'crash' for that input, the child is restarted "
            "behind it); (3) on 2 files x parallel 1-4 x pipe sizes x "
            "plain/bidirectional: intact run, cancel before start, and for EVERY request k of the run: target error at k (FailAt), "
            "cancel at k (Hook), and the D6 window - hold request k inside the double, synctest.Wait until parser, distributor and "
            "other workers are quiescent, cancel, wait, release (x2, thorough x6). Monitor: whenever not every snapshot key is on "
            "the target with the generator's value and expiry, SendRdb returned an error AND no checkpoint for the snapshot's offset "
            "was written (target log / checkpointInMem / bisyncOffset); truncated or altered input never parses to Done (except the "
            "footer altered to eight zero bytes); no hang (synctest deadlock, 120 s wall-clock watchdog). Fan-out scenario results "
            "(ok/err, checkpoint 0/1) are compared with the Lean event system run on a deterministic schedule of the same scenario. "
            "Added after review: (0) canary - the first file's truncations/alterations parsed in ONE child process first: a parser whose "
            "panic escapes kills the process (SafeGo with nil handler) and is reported as 'crash' with the input, a channel closed "
            "without Done/Err as 'parser-no-terminal'; (2a) truncations through the REAL disk-cache reader chain StoreChannel -> "
            "Storer.GetReader -> store.RdbReader.pump -> Reader.Start (finished file <left>_<size>.rdb holding k bytes): SendRdb "
            "not back after 10 virtual minutes = 'hang'; (2c) the 34 Redis-produced snapshots embedded in pkg/rdb/loader_test.go "
            "(ziplist/listpack/intset/quicklist containers, LZF strings, FUNCTION2, streams with groups, expiries): truncations and "
            "XOR masks on the expansion path in the supervised child, monitor 'no hang/oom/crash' and 'damaged => SendRdb errors'; "
            "(3) per scenario (now also a snapshot with an AUX lua script, in-memory checkpoint in a third of the scenarios, and "
            "bidirectional replay onto a CLUSTER target = one more result-sending goroutine) and per request k: single-shot error "
            "(EXEC included), PERSISTENT failure from k on, an error INSIDE the EXEC reply of a queued command (bisync), cancel at k, "
            "hold-cancel-release, and hold-release WITHOUT cancel (a slow worker must be awaited). "
            "Added after the second review: (1) per file 150 (thorough 2000) alterations drawn from VERIF_SEED (two bytes, a written "
            "length/count-making value, a byte removed / inserted) through parser and model; (2)(2b)(2c) besides XOR masks every "
            "position is OVERWRITTEN with values that make a length / count field large (F1..F4 listpack integers, F0/EF string "
            "lengths, 80/81/C3/7F RDB length forms, ...): 3 fixed + seed-chosen ones per file in the quick tier, all 14 in the "
            "thorough tier; the quick tier's extra masks, written values and the offsets of the fixture sweep depend on VERIF_SEED; "
            "(2b) a second stream file whose master field name has five bytes plus an LZF string; in (2b)/(2c) the snapshot's "
            "footer is delivered only after parser and workers have quiesced on the rest (TailLate: a snapshot of realistic length "
            "is decoded and replayed long before its checksum is reached - otherwise the checksum error of a tiny file wins the race "
            "against the value decoder and hides what the decoder does); (3) error replies carry real refusal texts in rotation "
            "(OOM, READONLY, WRONGTYPE; inside EXEC: Bad data format, BUSYKEY, OOM); the target DROPS the connection that sends "
            "request k (per connection, the checkpoint connection lives on); the AUX lua script must be loaded on EVERY primary of "
            "the cluster target (per-connection log of the double, a queued SCRIPT LOAD counts when its EXEC was executed); "
            "(3b) a list of 260 elements (expansion = 260 pipelined commands, flushed every 100): error reply / persistent failure / "
            "dropped connection / failure inside EXEC at the edges and inside of every batch plus seed-chosen positions. "
            "(1c) channel transcripts: op c04chan, see partial. (2b) third stream file (entry with its own field list, consumer "
            "group, pending entry, consumer). (3c) the real ReadBytes(n) over a source of `avail` bytes (n up to 2^62, also "
            "100 MiB .. 4 GiB over <= 100 bytes) and the real LZF string reader (declared length vs compressed bytes, incl. 2^32-1 "
            "over 16.3 MB in a fresh worker) in the worker child: ok/err + length on success against Model/RdbAlloc (op c04alloc), "
            "len / cap / allocated bytes against the property's bounds (monitor alloc-unbounded). "
            "Session 4: (x1) the EXTENDED frame model (Model/RdbFrameX.parseX) against the real parser, NO Go-side walker deciding "
            "'inside the model' any more — every outcome is compared: 6 generated files that CONTAIN the constructs (LZF strings as "
            "value / key / list element, a hash split into chunks by a lowered maxBinEntryBuffer, a text-float sorted set, zset2, "
            "int-encoded set members; streams of all four layouts 15/19/21/26 with group, PELs, consumer, IDMP; a module value with "
            "every opcode + an unknown one + an LZF field; a module-aux section parsed with and without failOnModuleAux): every "
            "truncation, every position overwritten with the 14 length/count/encoding-making values + 4 XOR masks + seed-chosen "
            "values (thorough: all 255 others), 120 (thorough 1500) seeded alterations per file (two bytes, byte removed / inserted, "
            "run duplicated), the whole channel transcript on the intact file / cuts / altered footers; strconv.ParseFloat's verdict "
            "on every text of the input that could be a float travels with the op (the model's only parameter). (x2) the real "
            "LZF string reader vs Model/RdbLzf.run: ok/err, output length, and the bytes it allocated "
            "(runtime.MemStats.TotalAlloc) judged by the MODEL's requests (first make + per growth a chunk and a re-allocation "
            "of at most twice the need) + compressed bytes + 256 KiB: valid / damaged / over- and under-declaring inputs, 12 "
            "seed-drawn streams, 1 MiB declaring 256 MiB, an input whose output crosses the 64 MiB step (thorough: two steps; "
            "past one step then declaring 1 GiB; 4 MiB declaring 1 GiB). (x3) the pipeline on an LZF + split-hash file "
            "(threshold 12 bytes): every truncation, 3 overwritten values per position. (3)(3b) error replies now rotate through "
            "14 real refusal texts incl. the 'temporarily unavailable' families (LOADING, BUSY, TRYAGAIN, CLUSTERDOWN, MISCONF, "
            "NOAUTH, MOVED, ASK, NOREPLICAS, MASTERDOWN), the keyExists policy rotates replace / ignore / error over the scenarios, "
            "and in (3b) every selected request of the 260-command value fails once with a family text under EACH policy (the "
            "target healthy afterwards); cluster bidirectional scenarios are tied to the event system with the global lane (c04fang). "
            "NOTE on the tie c04fan[g] scen=fail:k: the model answers res=err for ANY single refused request, whatever the reply text "
            "(LOADING, BUSY, MOVED ...): that is the behaviour of the code today and STRICTER than C04 - a correct transient retry "
            "(one that re-applies the whole entry) would DIFF. A DIFF alone is printed as 'no-failing-input-found' (tie to be "
            "revisited), never as a violation with a replay: violations with replay come only from the Go monitors "
            "(incomplete-reported-ok / incomplete-checkpointed judge the VALUES on the target, not the error). "
            "(x1) steered values in every tier: each position is also overwritten with its neighbours' values and with its own +-1 "
            "(inlen := outlen, count +- 1 ...), an LZF string with inlen == outlen intact and with a reference before the start, "
            "and a stream with a count >= 2^63 (0x81 0x80 ...) at each of the four int() loop counts. "
            "Session 5: (s1) ENUMERATED schedules of the real sendRdb instead of repeated runs: the double gates every replay worker at "
            "the first request of each snapshot entry (Hook), after each decision everything else runs to quiescence (synctest.Wait), "
            "the controller takes ONE decision - release worker i (it applies the entry it holds), answer the held request with an "
            "error (HookFail, real refusal texts in rotation), cancel the parent context - and ALL decision sequences are enumerated "
            "(odometer over the decision tree; 11 configurations in the quick tier: 1-3 workers x 2-4 entries x pipe sizes 1/2/3/1024, "
            "plain and bidirectional, restore on/off, two with the parser's INPUT gated (decision p = the bytes of the next entry are "
            "released to rdb.ParseRdb: a worker that comes back to its select after a cancellation finds its pipe EMPTY or NOT as "
            "the schedule says, so both outcomes of that select - leave on ctx.Done / take another entry - are forced, and x is also "
            "taken while the parser waits for bytes = lost source), two onto a CLUSTER target with bidirectional replay (the AUX lua "
            "script goes through the global lane = worker n of Model/RdbFanoutG.withGlobal and is gated at its first SCRIPT LOAD; "
            "loaded on every primary is its 'applied'); 18 in the thorough tier up to 4 workers / 5 entries; budget 500 / 2500 runs "
            "per tree, counters sched_trees_exhausted / _cut_by_budget, sched_after_cancel_a_worker_went_on / _no_worker_went_on; "
            "where both select cases ARE ready Go decides and the tree is followed as the runtime makes it). AUX fields the replay "
            "skips without a request (redis-ver, ctime ...) are not entries of the traced system. Each run is judged by the values monitor (incomplete-reported-ok / "
            "incomplete-checkpointed, replay = file + configuration + decision list + trace) and its trace w<i>:<entry> / f<i>:<entry> / "
            "x is FOLLOWED by the Lean event system (op c04trace): every step must be enabled in the model (before it parse/dist run "
            "until that entry is the head of that worker's pipe: real traces are traces of the model, else diverged@k), then result, "
            "checkpoint and the number of times EACH entry was applied must be the model's - counted per COMMAND: for every rendered "
            "keyed request (command, key, arguments: one RPUSH of one element is one command) the double's executed requests against "
            "the undisturbed run: 0 = some command of the entry missing, 1 = each exactly as often, 2 = some command more often or one "
            "the undisturbed run never sends (lists with equal elements make a repeated push differ from two pushes). (s2) the fan-out scenarios of (3) carry mult=1: twice (some key got "
            "more requests than one application needs) and, for a replay that returned nil, once (every key exactly one application) "
            "of the real run against the model. (s3) a SECOND SendRdb on the same RedisOutput and target, fresh reader, after a first "
            "one aborted by a target error / cancellation with rdbPipe so small that rdb.ParseRdb stays blocked (5 scenarios, the stale "
            "goroutine still there): same monitors; tied to the model's clean run. A trace / multiplicity DIFF alone is a broken tie "
            "(no-failing-input-found), violations with replay come from the Go monitors. "
            "Dimension audit (session 5, last round) - options and degenerate inputs now DRAWN, each value counted in the evidence "
            "(cfg_<option>_<value>): replayRdbParallel 1 / 2 / 3-4 / 8 / 16 (more workers than entries) x RdbPipeSize 1 / 2 / 3-4 / "
            "5-99 / 1024; bisync; replayRdbEnableRestore; resumeFromBreakPoint; keyExists replace / ignore / error; cluster; "
            "replaceHashTag on (keys with a brace pair, the key '{}' that becomes the empty key; routing and the expected target key "
            "follow the rewritten key); maxProtoBulkLen small (restore on, the long value expanded); targetDb set; dbBlacklist set "
            "(filtered entries are not required on the target, the others are); AUX lua. New scenario file 'edge' in (3) - the EMPTY "
            "key, an empty string value, tagged keys, equal list elements, database 3, an expiry - under every fault of (3); an "
            "empty-key entry in two s1 trees (2 and 8 workers over a pipe of 1). (3) the FINAL CHECKPOINT WRITE refused once "
            "(setCheckpoint retries: recorded) and for good (monitor checkpoint-counted-though-refused; the checkpoint scan no "
            "longer counts an HSET the target refused). (3f) the 34 Redis-produced fixtures <= 700 B (thorough 2000 B) - among them "
            "FUNCTION libraries: the function-load path - plain and bidirectional under a target error at EVERY request, reply "
            "families in rotation; data set unknown, so: a replay that returns nil / writes the checkpoint must have executed every "
            "request the undisturbed replay of that file executes (incomplete-reported-ok / incomplete-checkpointed). (sd) degenerate "
            "snapshots through the whole pipeline: no entry at all (with checksum and with the zero footer), one entry with the empty "
            "key and the empty value, the mixed file with the checksum DISABLED; intact = recorded and complete, and every cut of "
            "each - 0 bytes, exactly the 9 header bytes, 10 bytes, the EOF opcode without / with part of the footer - is an error in "
            "parser and pipeline (monitors truncation-accepted, truncation-replayed-ok). Source fact c04_pkg_vars_written = []: no "
            "package-level variable of pkg/rdb / pkg/rdbrestore is assigned by any function (process-global state: none). "
            "distinct_nontrivial = distinct (file, position) alteration rows + distinct fan-out scenario points + distinct enumerated traces",
    "trusted": [
        "RDB framing (opcodes, length forms, string forms, per-type value layout) as transcribed in Model/RdbFrame.lean / "
        "Model/RdbFrameX.lean (LZF, streams, modules, module-aux, text floats, chunk continuation) / Model/RdbLzf.lean and as "
        "written by the harness's snapshot writer pkg/vfc20 and the assembler of vf_c04x_test.go; CRC64 as in Model/Rdb/Crc64.lean (table regenerated; C03's crc64TabStep_eq_specStep is used by Proofs/Crc64Burst.lean)",
        "goroutine scheduling inside testing/synctest; the target double",
        "strconv.ParseFloat (Go standard library): the model's float predicate IS its verdict (computed by the harness with "
        "strconv itself, carried in the op); runtime.MemStats.TotalAlloc as the measure of what a reader allocated",
    ],
    "assumptions": [
        "fan-out model: distributor receive+send is one step; applying an entry is atomic; a failing worker drops its entry - each "
        "coarser than the code (more behaviours), so the safety theorem carries over",
        "frame model, session 4: the extended grammar (parseX) has NO 'unsup' outcome left except through its parameter "
        "floatOk (a text score of a type-3 sorted set that strconv.ParseFloat's verdict is not supplied for); the chunk "
        "threshold is a parameter (the theorems hold for every value, the tie runs with 10 / 12 bytes and the production "
        "16 MiB); the OLD grammar (parse, the theorems without suffix) keeps 'unsup' for LZF, text floats, streams, modules. "
        "Chunk continuation exists in the code for RDB type 4 only (HashPaser): that is what is modelled",
        "global lane (cluster bidirectional replay): modelled as worker number n of the same event system (withGlobal) — its "
        "loop has the shape of the keyed workers' (one entry at a time, error of a failed entry, nil on closed pipe, nil on "
        "ctx.Done()); that ONE global entry is replayed to EVERY primary (execBisyncRdbGlobalUnit) is below the model's "
        "granularity (applying an entry is atomic) — the harness monitors it (script loaded on every primary)",
        "rdb.ParseRdb sends Done or Err before closing its channel (guaranteed by `defer util.Xrecover(&err)` in Loader.Next; the "
        "fan-out theorem no_checkpoint_unless_terminated makes the other case explicit: a channel closed without terminal IS taken "
        "for a complete snapshot by distributeTask (`!ok -> return nil`) - a hardening candidate; the harness reports it as "
        "'parser-no-terminal' / 'crash')",
        "frame theorems *_gen / *_s hold for ANY (stateful) item reader that is sequential (reads only forward through the tee'd "
        "reader), consumes at least a byte and reports EOF only for byte 0xFF - PROVED for the extended grammar incl. LZF, "
        "streams, modules, module-aux, text floats and the chunk continuation (itemX_good); what remains trusted of the real "
        "Loader.Next is that it IS that grammar (the x1 sweep compares every outcome)",
        "fan-out, session 5: the trace tie (c04trace) reads the model's pipe capacities as capacity + 1 (a real worker / the "
        "distributor holds one entry in its hand besides the channel; the model keeps a held entry at the head of the pipe) and "
        "lets parse / dist run lazily (only as far as the next traced step needs): both only decide which real traces the model "
        "is asked to follow, the theorems hold for every capacity and schedule",
        "two replays of one RedisOutput are modelled as a PRODUCT of two event systems (Props/C04S.lean): nothing is shared. On the "
        "code that rests on the source facts c04_sendRdb_nonlocal_channels = [] / c04_sendRdb_unbound_makers = 0 (every channel and "
        "parser sendRdb creates is bound to a name declared in sendRdb), c04_rdbPipe_source (a fresh ParseRdb over the reader handed "
        "in), c04_parseRdb_pipe / _sends (ParseRdb's channel is a local make, all sends inside its goroutine), c04_parseRdb_pkg_vars "
        "(only RdbVersion, never written outside tests), c04_reader_per_run (every run obtains a new reader) and on the scenario s3; "
        "fields of RedisOutput that a replay writes (bisyncOffset, counters, checkpointInMem) are written by sendRdb's own goroutine "
        "after all workers returned, not by the leftover parser",
        "fan-out, session 4: multiplicity is stated (checkpoint_exactly_once: the applied entries are a permutation of the "
        "snapshot's entries; applied_at_most_once in every state) at the model's granularity: ONE apply step per entry. The code "
        "applies an entry as several commands (probe, DEL, RESTORE or n pipelined commands); 'the entry failed' means its "
        "worker returns an error and the replay is not recorded - what a failed entry has already written to the target is "
        "not undone and not modelled (the next full sync rewrites it: keyExists policies, C20)",
        "MemoryReader (memory channel) is not driven by the harness (closes its pipe after copyFunc, by reading)",
        "D19's contract 'the reader ends exactly at the snapshot' holds for the store pump (writes `size` bytes, closes) and the memory "
        "reader; `cmd=rdb` (documented input: an RDB file) on an appendonly file with an RDB preamble now prints / loads every key of "
        "the preamble and then fails with 'unexpected data after the rdb footer' (checked: exit status 2) where it used to stop "
        "silently, ignoring the commands behind the preamble - accepted, not a supported input",
    ],
    "partial": [
        "memory on damaged input, session 4: the LZF output buffer after f4eb5a7 IS modelled (Model/RdbLzf.lean: lzfRoom's growth "
        "policy in the decompression loop) and bounded: lzf_buffer_follows_output - when lzfDecompress stops, by success or any "
        "error, len(out) <= produced + 264 + step, produced <= 264 x compressed bytes, len(out) <= declared, and with an append "
        "that at most doubles no single request exceeds 2 x (produced + 264 + step): no bound mentions the declared length "
        "(lzf_buffer_linear_in_input - NOTE: that input-only corollary is the GUARD outlen <= 264 x len(in) restated and held "
        "before the D33 fix too; the content of the fix is lzf_buffer_follows_output, the bound by the bytes produced); the growth policy does not change the decision: the walk accepts exactly what C03's "
        "full-buffer decoder Model/Rdb/Str.lzfDecompress accepts (lzf_decision_is_full_buffer_decision). Tied: op c04lzfx/c04lzfseg (x2) compares ok/err + length and judges the measured "
        "allocation by the model's own request sum. The constant factor 2 of the re-allocation bound is an assumption on Go's "
        "append (GrowOK), so a regression that allocates less than ~2 x (produced + step) beyond the model is not seen",
        "loops driven by unguarded counts, session 4 (Props/C04L.lean): proved for EVERY round reader that reads >= k bytes when "
        "it succeeds: completed rounds x k <= bytes present, whatever the count (count_loop_linear); a count a walk accepted was "
        "backed by k bytes per unit (walked_count_is_backed - about the walk; it carries over to ExecCmd only where ExecCmd reads "
        "the count the same way: numConsumer is 32-bit in ReadBuffer and 64-bit in ExecCmd, and counts >= 2^63 skip ReadBuffer's "
        "int(n) loops but not ExecCmd's uint64 loops - there only count_loop_linear applies); instances: global PEL (25 bytes/round: <= 2 x bytes/25 map "
        "insertions, pel_loop_linear), consumer PEL (16), strings (1). All count loops of the ReadBuffer walks are inside the "
        "extended frame model (parse_total_x: the whole parse ends within |input| rounds). PROVED in session 5 on the "
        "REGENERATED Listpack.Next (Gen/FnListpack.lean via x_C04_gofn.py; Props/C04G.lean): n consecutive returning calls consume "
        ">= n bytes behind the cursor (gen_lp_walk_bounded), a count larger than the bytes left makes the walk panic = an error "
        "(gen_lp_count_over_bytes_fails), what a count-driven loop appended is <= the listpack's bytes (gen_lp_appended_le_bytes) - "
        "the rounds of StreamParser.ExecCmd through Listpack.Next (entry-num-fields: 2 slots appended per round, D32's field array); "
        "that ExecCmd's loops ARE such walks (lpWalk) is read off the code, not regenerated; ExecCmd compares "
        "pelSize as uint64 where ReadBuffer's loop uses int(n) (a count >= 2^63 makes ReadBuffer skip its loop and ExecCmd run "
        "until the bytes end: bounded by the same lemma, ends in an error); ReadBytesP(n) stays unguarded (callers pass 16 / 8)",
        "memory / wall-clock on damaged input, earlier: proved (alloc_bounded_partial, Model/RdbAlloc.lean): ReadBytes (D22) returns at most "
        "avail + step bytes (readBytes_alloc_bounded) and - under the stated assumption on Go's append (GrowOK: a re-allocation at "
        "most doubles) - no single request it makes of the allocator (initial capacity, chunk, re-allocation) exceeds 2 x (avail + "
        "step) (readBytes_requests_bounded); the stream master entry's field array (D32) is bounded by the listpack's bytes; the "
        "LZF guard admits a declared length up to min(264 x compressed bytes, 2^32 - 1) (lzfAlloc32_bounded) - which let 16.3 MB "
        "of input ask for 4 GiB in one piece: D33, fixed f4eb5a7: the output buffer now follows the bytes really produced, one step "
        "ahead (modelled since session 4, see above; section 3c keeps its coarse monitor). Tie (3c, worker child): ok/err and the length on success vs the model; "
        "MONITORS on the real readers: len <= avail + step, cap <= 2 x (avail + step), bytes allocated (runtime.MemStats.TotalAlloc) "
        "<= 8 x (avail + step) + 16 MiB, LZF: bytes allocated <= 1024 x compressed bytes + 8 MiB, incl. lengths between one step "
        "and 4 GiB over a nearly empty source (a regression there does not kill the child). NOT proved / not modelled: that these "
        "are ALL input-sized allocations - by grep they are the only make() sized by a field, but ReadBytesP(n) is unguarded (its "
        "three callers pass constants), and the decoder's loops driven by UNGUARDED counts (entry-num-fields: 2 slots appended per "
        "element; PEL sizes: two map insertions per 25 input bytes) end only because the next read fails at the end of the bytes - "
        "linear in the bytes present, swept by the stream3 file (own-fields entry, group, PEL, consumer), not proved; the "
        "bytes.Buffer behind every tee'd reader and the copies held per in-flight entry x RdbPipeSize (memory of the pipeline); the "
        "allocator's rounding; wall-clock time: parse_total bounds the steps of the frame MODEL by the input length, a value "
        "decoder's loop that does not advance (D23) is outside it - child processes with an address-space limit and watchdogs carry that part",
        "real goroutine interleavings, session 5: the orders in which the replay workers apply their entries, the position of a "
        "target error and of a cancellation among them are now ENUMERATED on the real code for small snapshots (s1: all decision "
        "sequences of 1-3 workers x 3-4 entries, thorough up to 4 x 5) and every observed trace is followed by the event system; "
        "NOT enumerated: the interleavings of parser / distributor relative to the workers beyond 'run to quiescence between two "
        "decisions' (a decision is only taken when everything else is blocked), Go's choice in `select` after a cancellation "
        "(followed as it falls, not forced both ways), the global lane and cluster targets (scenario runs of (3) only), larger "
        "snapshots; since the coordinator's second round: the global lane on a cluster target IS in the enumeration (two trees, "
        "thorough three) and the select after a cancellation is forced both ways by gating the parser's input; still followed "
        "as it falls: a select with BOTH cases ready (distributor and worker). The theorems cover all of these, the tie samples them",
        "the rdb.ParseRdb goroutine left blocked after an aborted sendRdb (ParseRdb has no context, nobody drains the channel when the "
        "rest of the snapshot does not fit rdbPipe): DECIDED in session 5 - it cannot violate C04. Proved on the event system "
        "(Props/C04S.lean): the verdict is final (ret_is_final: after sendRdb returned no event of any leftover goroutine changes "
        "result or checkpoint; aborted_stays_unrecorded), the leftover parser pins at most RdbPipeSize items + the one in its hand "
        "(stale_parser_holds_at_most_pipe), and a later replay beside it is the replay of its own events alone "
        "(later_replay_independent, later_replay_recorded_exactly_once) - the product model is tied by source facts (see "
        "assumptions) and by scenario s3 (second SendRdb on the same RedisOutput with the stale goroutine present). What remains is "
        "a LEAK, outside C04: one goroutine + <= RdbPipeSize parsed entries + the reader per aborted replay of a snapshot larger "
        "than the pipe (counted: observed_parser_goroutine_left_blocked_after_abort, ~200 per quick run; once the run scope closes "
        "the store reader is closed, the parser's next read fails and it exits IF the pipe has room for the Err entry, else it "
        "stays). Repair would be small (ParseRdb(ctx, ...) with select on ctx.Done(), or drain in sendRdb); not applied",
        "exactly-once (checkpoint_exactly_once, applied_at_most_once) is since session 5 OBSERVED on the real code: the double's log "
        "gives, per snapshot key, the requests it executed; against the undisturbed run of the same configuration that is how often "
        "the entry was applied (0 = not completely, 1, 2 = more than one application needs). c04trace compares the whole vector "
        "with the model's on every enumerated schedule; c04fan / c04fang (mult=1) compare twice / once on every scenario of (3). "
        "Granularity: per rendered COMMAND where the double can tell (a push sent twice, a command the undisturbed run never sends, "
        "one command missing while another is doubled); commands whose arguments depend on the time of sending would make the "
        "comparison spurious - none in the tied scenarios (virtual clock). A second "
        "application is a DIFF of the tie, not a violation - C04 does not forbid a correct retry; the values monitor judges the "
        "result (a list pushed twice differs). The global lane's routing (global_lane_routing) stays a theorem + the scenario runs",
        "Part 2 -> Part 1 is a theorem (recorded_only_if_parsed_and_applied[_chan], truncated_never_recorded, altered_never_recorded); "
        "it rests on the transcript model of ParseRdb's goroutine (Model/RdbFeed.lean: Err / Done / after a footer error Err AND "
        "THEN Done - rdb.go falls through; chanFeed_is_feed: an instance of `feed`, so never recorded), which is now TIED: op c04chan "
        "compares the whole channel transcript of the real ParseRdb (entries before the first terminal, every terminal in order, "
        "closed) with the model on the intact files, cuts, every altered footer / EOF-opcode byte and bytes appended behind the footer "
        "(Err-then-Done observed on the real code, monitors 'parser-no-terminal' and 'anything after Done'). How much of real "
        "snapshots the theorem speaks about: since session 4 the decidable instance is the extended grammar "
        "(recorded_only_if_parsed_and_applied_x / _chan_x, truncated_never_recorded_x, altered_never_recorded_x, "
        "recorded_exactly_once_x): snapshots with LZF strings, streams, modules, module-aux and split hashes are inside; "
        "text-float sorted sets are inside for every float predicate (altered_never_recorded_x needs one that decides: "
        "strconv.ParseFloat does); the value decoders that run in the workers (ExecCmd) are C03's subject, here they are "
        "'applying an entry' (may fail)",
        "alteration_is_error_x is the operative statement (extended grammar, every item kind: its in-file universal instance exFileX "
        "contains an LZF string, a split hash, a stream with group / PEL / consumer, a module value, a module-aux section and a "
        "text-float sorted set; no 'outside the model' outcome exists there once the float predicate decides, and strconv.ParseFloat "
        "decides). alteration_is_error_gen remains only as the combinator lemma for STATELESS readers; its single instance is still "
        "the old grammar with unsup read as an error (itemT) - nothing rests on it any more. NOT done: a theorem that the old "
        "grammar and the extended one agree wherever the old one decides (both are tied to the real parser separately)",
        "dimension audit, what is still NOT drawn by C04's harness: targetDbMap and the key / slot filters (prefix black list, "
        "FilterSlot) - C20 draws them for the replay's values; here only targetDb and dbBlacklist; a CLUSTER target with PLAIN "
        "(non-bidirectional) replay (the double speaks per-connection stand-alone only; cluster is drawn with bidirectional replay, "
        "which dials the primaries one by one); Redis.Version other than 7.0.0 on the target side (RESTORE with IDLETIME/FREQ "
        "needs >= 5; the parse options WithTargetRedisVersion / WithFunctionExists are not varied in the pipeline runs, "
        "failOnModuleAux is, in x1); an altered byte under a DISABLED checksum is by the statement not detectable and is not "
        "judged; a non-empty target before the FIRST replay (leftovers are drawn only by s3's second replay and by the keyExists "
        "policies of (3b))",
        "gofn (regenerated definitions) for the allocation-sizing readers: NOT done. ReadLength / ReadBytes / the LZF string reader "
        "read through an io.Reader receiver and return errors, lzfRoom uses append(out, make([]byte, k)...), lzfDecompress a "
        "deferred recover: all outside gofn's pure subset (needs: a state-passing reading of r.readFull / ReadByte over List UInt8, "
        "make/append-of-make with a length model, errors as opaque values, defer-recover as 'panic = error'). They stay hand "
        "models (Model/RdbAlloc, Model/RdbLzf) tied by the body pins c04_lzfDecompress / c04_lzfRoom and the ops c04alloc / c04lzfx",
    ],
}

MANIFEST = {
    "text": "Lean theorems: (1) in the event-system model of sendRdb's fan-out, for ALL worker counts, pipe sizes, routings and ALL "
            "schedules of parse/distribute/apply/fail/cancel/collect events (cancellation at any position, in particular after the "
            "distributor finished while workers hold queued entries), the checkpoint is written / nil is returned only if the parser "
            "ended with Done and every entry was applied; (2) in the frame-level model of ParseRdb (input must be exhausted after the "
            "footer) parsing is total within |input| steps, every truncation of an accepted file is an error, Done implies EOF opcode "
            "+ footer are the last 9 bytes and the footer is zero or the CRC64 of everything before; every single-byte alteration "
            "of a covered byte is refused (CRC-64/Jones separates strings differing in one byte, proved), an altered footer is "
            "refused unless it becomes all-zero ('checksum disabled'); (3) composition: from the BYTES of the input to the checkpoint - "
            "for every input, worker count, routing and schedule the checkpoint is written / nil returned only if the input parses to "
            "Done and every entry was applied; a truncated or (checksummed, one byte) altered snapshot is recorded in NO schedule; "
            "(4, partial) the three buffers pkg/rdb sizes by an input field are bounded by the bytes actually present; "
            "(session 4) all of (2)(3) for the EXTENDED grammar - LZF strings, streams, modules, module-aux, text floats, hashes split "
            "into chunks - with the item reader's sequentiality PROVED; the LZF output buffer follows the bytes produced (never the "
            "declared length); exactly-once: the checkpoint is written only when the applied entries are a permutation of the "
            "snapshot's entries, also with the cluster-only global lane; count-driven loops complete at most bytes/k rounds; (session 5) the verdict of a "
            "replay is final whatever its leftover goroutines do, the blocked parser of an aborted replay holds at most RdbPipeSize "
            "items, and a later replay beside it is recorded only on its own input and entries (product of event systems, tied by "
            "source facts). Tie: enumerated decision sequences of the real sendRdb (release / fail / cancel at every quiescent point) "
            "whose traces the event system follows, with the per-entry multiplicity observed on the target; exhaustive truncation/XOR sweep of small files "
            "through the real parser (vs model) and the real SendRdb against the target double with fault injection, cancellation at "
            "every request and the hold-cancel-release schedule under synctest; independent Go monitor of the property.",
    "note": "trusted: Lean kernel, RDB framing transcription, target double, synctest; models of the REPAIRED code (D6, D19 fixed; D22, D23, D26, D32, D33 are crash/hang repairs outside the models)",
    "technique": "Lean 4 proof (12-clause inductive invariant over an event system; sequential-reader combinator lemmas) + exhaustive "
                 "small-scope differential correspondence + fault/cancellation schedule exploration + monitor; session 4: stateful "
                 "sequential readers (chunk continuation), fuel-independent loop combinator (module opcodes), permutation invariant "
                 "(exactly-once), refinement by instance (global lane = worker n), content-free walk of the LZF loop with its buffer; "
                 "session 5: stateless-model-checking style enumeration of the real goroutines under synctest with trace inclusion "
                 "into the Lean event system, product construction for consecutive replays",
}
