PROP = {
    "lean_modules": ["GunYu.Props.C04"],
    "audit_namespaces": ["GunYu.Props.C04"],
    "required_theorems": [
        "GunYu.Props.C04.no_checkpoint_unless_terminated",
        "GunYu.Props.C04.no_checkpoint_unless_all_applied",
        "GunYu.Props.C04.ok_only_if_all_applied",
        "GunYu.Props.C04.parse_total",
        "GunYu.Props.C04.truncation_errors",
        "GunYu.Props.C04.done_ends_with_footer",
        "GunYu.Props.C04.alteration_needs_crc_collision",
        "GunYu.Props.C04.alteration_detected",
        "GunYu.Props.C04.zero_footer_exception",
        "GunYu.Props.C04.parse_total_gen",
        "GunYu.Props.C04.truncation_errors_gen",
        "GunYu.Props.C04.done_ends_with_footer_gen",
        "GunYu.Props.C04.alteration_detected_gen",
        "GunYu.Props.C04.alteration_is_error_gen",
        "GunYu.Props.C04.itemT_good",
        "GunYu.Props.C04.itemT_total",
        "GunYu.Props.C04.recorded_only_if_parsed_and_applied",
        "GunYu.Props.C04.truncated_never_recorded",
        "GunYu.Props.C04.altered_never_recorded",
        "GunYu.Props.C04.altered_never_recorded_model",
        "GunYu.Props.C04.readBytes_alloc_bounded",
        "GunYu.Props.C04.readBytes_ok",
        "GunYu.Props.C04.alloc_bounded_partial",
        "GunYu.Props.C04.readBytes_requests_bounded",
        "GunYu.Props.C04.lzfAlloc32_bounded",
        "GunYu.Props.C04.bodyChan_agrees",
        "GunYu.Props.C04.chanFeed_is_feed",
        "GunYu.Props.C04.recorded_only_if_parsed_and_applied_chan",
    ],
    "expected_facts": {},
    "harness": [
        {"name": "C04", "pkg": "./syncer/", "test": "TestVerifC04", "timeout_quick": "15m", "timeout_thorough": "60m"},
    ],
    "driver": "drv_C04",
    "rule": "real code: RedisOutput.SendRdb (rdb.ParseRdb -> distributor -> 1..4 workers -> setCheckpoint) in a testing/synctest "
            "bubble against the shared target double; rdb.ParseRdb alone for the frame-model correspondence. Inputs: 3 generated "
            "valid checksummed snapshots <= 400 B (AUX, RESIZEDB, 3 DBs, raw/int strings, 14-bit length, linked list, set, hash, "
            "expiry; one with an EOF opcode + 8 zero bytes inside a value, D19 bait) + 1 'oom bait' (binary key starting 00 00 01 00..). "
            "(1) parser vs Lean frame model: EVERY truncation length and EVERY single-byte XOR (255 masks x every position) of the 4 "
            "files, outcome d<n>/e<n>, 'u' where the Go-side walker says the parse path leaves the modelled grammar (LZF, text floats, "
            "streams, modules); inputs whose length fields ask for > 4 GiB (64-bit length form) are parsed in a child process (memory limit, 60 s budget) "
            "and a dying child is the violation 'oom'/'hang'/'crash'; (2) the whole pipeline on every truncation and 4 XOR masks per "
            "position (thorough: 11 masks + 200 generated files with random alterations), parallel 1-4, pipe sizes 1/2/8/1024, "
            "plain/bidirectional, restore on/off, checkpoint on target / in memory; (2b) a snapshot with a STREAM value (hand-built listpack, "
            "type 15): truncations and 4 (thorough 13) XOR masks per position incl. masks that produce invalid listpack element bytes, "
            "expansion path so the value decoder runs in the workers, executed in a supervised child process (6 GiB address-space "
            "limit, 40 s per case: a silent or dying child is the violation 'hang'/'oom'/'crash' for that input, the child is restarted "
            "behind it); (3) on 2 files x parallel 1-4 x pipe sizes x "
            "plain/bidirectional: intact run, cancel before start, and for EVERY request k of the run: target error at k (FailAt), "
            "cancel at k (Hook), and the D6 window - hold request k inside the double, synctest.Wait until parser, distributor and "
            "other workers are quiescent, cancel, wait, release (x2, thorough x6). Monitor: whenever not every snapshot key is on "
            "the target with the generator's value and expiry, SendRdb returned an error AND no checkpoint for the snapshot's offset "
            "was written (target log / checkpointInMem / bisyncOffset); truncated or altered input never parses to Done (except the "
            "footer altered to eight zero bytes); no hang (synctest deadlock, 120 s wall-clock watchdog). Fan-out scenario results "
            "(ok/err, checkpoint 0/1) are compared with the Lean event system run on a deterministic schedule of the same scenario. "
            "Added after review: (0) canary - the first file's truncations/alterations parsed in ONE child process first: a parser whose "
            "panic escapes kills the process (SafeGo with nil handler) and is reported as 'crash' with the input, a channel closed "
            "without Done/Err as 'parser-no-terminal'; (2a) truncations through the REAL disk-cache reader chain StoreChannel -> "
            "Storer.GetReader -> store.RdbReader.pump -> Reader.Start (finished file <left>_<size>.rdb holding k bytes): SendRdb "
            "not back after 10 virtual minutes = 'hang'; (2c) the 34 Redis-produced snapshots embedded in pkg/rdb/loader_test.go "
            "(ziplist/listpack/intset/quicklist containers, LZF strings, FUNCTION2, streams with groups, expiries): truncations and "
            "XOR masks on the expansion path in the supervised child, monitor 'no hang/oom/crash' and 'damaged => SendRdb errors'; "
            "(3) per scenario (now also a snapshot with an AUX lua script, in-memory checkpoint in a third of the scenarios, and "
            "bidirectional replay onto a CLUSTER target = one more result-sending goroutine) and per request k: single-shot error "
            "(EXEC included), PERSISTENT failure from k on, an error INSIDE the EXEC reply of a queued command (bisync), cancel at k, "
            "hold-cancel-release, and hold-release WITHOUT cancel (a slow worker must be awaited). "
            "Added after the second review: (1) per file 150 (thorough 2000) alterations drawn from VERIF_SEED (two bytes, a written "
            "length/count-making value, a byte removed / inserted) through parser and model; (2)(2b)(2c) besides XOR masks every "
            "position is OVERWRITTEN with values that make a length / count field large (F1..F4 listpack integers, F0/EF string "
            "lengths, 80/81/C3/7F RDB length forms, ...): 3 fixed + seed-chosen ones per file in the quick tier, all 14 in the "
            "thorough tier; the quick tier's extra masks, written values and the offsets of the fixture sweep depend on VERIF_SEED; "
            "(2b) a second stream file whose master field name has five bytes plus an LZF string; in (2b)/(2c) the snapshot's "
            "footer is delivered only after parser and workers have quiesced on the rest (TailLate: a snapshot of realistic length "
            "is decoded and replayed long before its checksum is reached - otherwise the checksum error of a tiny file wins the race "
            "against the value decoder and hides what the decoder does); (3) error replies carry real refusal texts in rotation "
            "(OOM, READONLY, WRONGTYPE; inside EXEC: Bad data format, BUSYKEY, OOM); the target DROPS the connection that sends "
            "request k (per connection, the checkpoint connection lives on); the AUX lua script must be loaded on EVERY primary of "
            "the cluster target (per-connection log of the double, a queued SCRIPT LOAD counts when its EXEC was executed); "
            "(3b) a list of 260 elements (expansion = 260 pipelined commands, flushed every 100): error reply / persistent failure / "
            "dropped connection / failure inside EXEC at the edges and inside of every batch plus seed-chosen positions. "
            "(1c) channel transcripts: op c04chan, see partial. (2b) third stream file (entry with its own field list, consumer "
            "group, pending entry, consumer). (3c) the real ReadBytes(n) over a source of `avail` bytes (n up to 2^62, also "
            "100 MiB .. 4 GiB over <= 100 bytes) and the real LZF string reader (declared length vs compressed bytes, incl. 2^32-1 "
            "over 16.3 MB in a fresh worker) in the worker child: ok/err + length on success against Model/RdbAlloc (op c04alloc), "
            "len / cap / allocated bytes against the property's bounds (monitor alloc-unbounded). "
            "distinct_nontrivial = distinct (file, position) alteration rows + distinct fan-out scenario points",
    "trusted": [
        "RDB framing (opcodes, length forms, string forms, per-type value layout) as transcribed in Model/RdbFrame.lean and as "
        "written by the harness's snapshot writer pkg/vfc20; CRC64 as in Model/Rdb/Crc64.lean (table regenerated; C03's crc64TabStep_eq_specStep is used by Proofs/Crc64Burst.lean)",
        "goroutine scheduling inside testing/synctest; the target double",
    ],
    "assumptions": [
        "fan-out model: distributor receive+send is one step; applying an entry is atomic; a failing worker drops its entry - each "
        "coarser than the code (more behaviours), so the safety theorem carries over",
        "frame model: values below the 16 MiB chunk threshold; outcome 'unsup' (LZF string, text-float zset, stream, module, "
        "module-aux on the parse path) is outside the theorems and only monitored on the real code by the sweep",
        "standalone target (the cluster-only bisync global lane for functions/AUX is not modelled)",
        "rdb.ParseRdb sends Done or Err before closing its channel (guaranteed by `defer util.Xrecover(&err)` in Loader.Next; the "
        "fan-out theorem no_checkpoint_unless_terminated makes the other case explicit: a channel closed without terminal IS taken "
        "for a complete snapshot by distributeTask (`!ok -> return nil`) - a hardening candidate; the harness reports it as "
        "'parser-no-terminal' / 'crash')",
        "frame theorems *_gen hold for ANY item reader that is sequential (reads only forward through the tee'd reader), consumes its "
        "opcode and reports EOF only for byte 0xFF - trusted for the real ReadBuffer of the encodings outside the modelled grammar "
        "(LZF, text floats, streams, modules, chunk continuation); for the modelled grammar it is proved (item_good)",
        "fan-out conclusion is membership (every entry of the snapshot is among the applied ones): with entries = positions of the "
        "snapshot that is 'every entry applied'; multiplicity is not stated",
        "MemoryReader (memory channel) is not driven by the harness (closes its pipe after copyFunc, by reading)",
        "D19's contract 'the reader ends exactly at the snapshot' holds for the store pump (writes `size` bytes, closes) and the memory "
        "reader; `cmd=rdb` (documented input: an RDB file) on an appendonly file with an RDB preamble now prints / loads every key of "
        "the preamble and then fails with 'unexpected data after the rdb footer' (checked: exit status 2) where it used to stop "
        "silently, ignoring the commands behind the preamble - accepted, not a supported input",
    ],
    "partial": [
        "memory / wall-clock on damaged input: proved (alloc_bounded_partial, Model/RdbAlloc.lean): ReadBytes (D22) returns at most "
        "avail + step bytes (readBytes_alloc_bounded) and - under the stated assumption on Go's append (GrowOK: a re-allocation at "
        "most doubles) - no single request it makes of the allocator (initial capacity, chunk, re-allocation) exceeds 2 x (avail + "
        "step) (readBytes_requests_bounded); the stream master entry's field array (D32) is bounded by the listpack's bytes; the "
        "LZF guard admits a declared length up to min(264 x compressed bytes, 2^32 - 1) (lzfAlloc32_bounded) - which let 16.3 MB "
        "of input ask for 4 GiB in one piece: D33, fixed f4eb5a7: the output buffer now follows the bytes really produced, one step "
        "ahead (not modelled in Lean; section 3c measures it). Tie (3c, worker child): ok/err and the length on success vs the model; "
        "MONITORS on the real readers: len <= avail + step, cap <= 2 x (avail + step), bytes allocated (runtime.MemStats.TotalAlloc) "
        "<= 8 x (avail + step) + 16 MiB, LZF: bytes allocated <= 1024 x compressed bytes + 8 MiB, incl. lengths between one step "
        "and 4 GiB over a nearly empty source (a regression there does not kill the child). NOT proved / not modelled: that these "
        "are ALL input-sized allocations - by grep they are the only make() sized by a field, but ReadBytesP(n) is unguarded (its "
        "three callers pass constants), and the decoder's loops driven by UNGUARDED counts (entry-num-fields: 2 slots appended per "
        "element; PEL sizes: two map insertions per 25 input bytes) end only because the next read fails at the end of the bytes - "
        "linear in the bytes present, swept by the stream3 file (own-fields entry, group, PEL, consumer), not proved; the "
        "bytes.Buffer behind every tee'd reader and the copies held per in-flight entry x RdbPipeSize (memory of the pipeline); the "
        "allocator's rounding; wall-clock time: parse_total bounds the steps of the frame MODEL by the input length, a value "
        "decoder's loop that does not advance (D23) is outside it - child processes with an address-space limit and watchdogs carry that part",
        "real goroutine interleavings are explored by synctest schedules and repeated runs, not exhaustively",
        "Part 2 -> Part 1 is a theorem (recorded_only_if_parsed_and_applied[_chan], truncated_never_recorded, altered_never_recorded); "
        "it rests on the transcript model of ParseRdb's goroutine (Model/RdbFeed.lean: Err / Done / after a footer error Err AND "
        "THEN Done - rdb.go falls through; chanFeed_is_feed: an instance of `feed`, so never recorded), which is now TIED: op c04chan "
        "compares the whole channel transcript of the real ParseRdb (entries before the first terminal, every terminal in order, "
        "closed) with the model on the intact files, cuts, every altered footer / EOF-opcode byte and bytes appended behind the footer "
        "(Err-then-Done observed on the real code, monitors 'parser-no-terminal' and 'anything after Done'). How much of real "
        "snapshots the theorem speaks about: in its decidable instance (RdbFrame.item) only snapshots WITHOUT LZF strings, streams, "
        "modules and text-float sorted sets (chanWith = none for them; with rdbcompression on, every compressible string of >= 20 "
        "bytes is LZF, so that excludes most production snapshots); for those the generic-reader statement applies, whose "
        "hypothesis GoodItem of the real Loader.Next is trusted (listed) - the damaged-input sweeps of 2b/2c (streams, LZF, "
        "fixtures) are what covers them",
        "alteration_is_error_gen is instantiated for the modelled grammar with 'outside the model' read as an error (itemT); for the "
        "real Loader.Next GoodItem / Total are trusted",
    ],
}

MANIFEST = {
    "text": "Lean theorems: (1) in the event-system model of sendRdb's fan-out, for ALL worker counts, pipe sizes, routings and ALL "
            "schedules of parse/distribute/apply/fail/cancel/collect events (cancellation at any position, in particular after the "
            "distributor finished while workers hold queued entries), the checkpoint is written / nil is returned only if the parser "
            "ended with Done and every entry was applied; (2) in the frame-level model of ParseRdb (input must be exhausted after the "
            "footer) parsing is total within |input| steps, every truncation of an accepted file is an error, Done implies EOF opcode "
            "+ footer are the last 9 bytes and the footer is zero or the CRC64 of everything before; every single-byte alteration "
            "of a covered byte is refused (CRC-64/Jones separates strings differing in one byte, proved), an altered footer is "
            "refused unless it becomes all-zero ('checksum disabled'); (3) composition: from the BYTES of the input to the checkpoint - "
            "for every input, worker count, routing and schedule the checkpoint is written / nil returned only if the input parses to "
            "Done and every entry was applied; a truncated or (checksummed, one byte) altered snapshot is recorded in NO schedule; "
            "(4, partial) the three buffers pkg/rdb sizes by an input field are bounded by the bytes actually present. Tie: exhaustive truncation/XOR sweep of small files "
            "through the real parser (vs model) and the real SendRdb against the target double with fault injection, cancellation at "
            "every request and the hold-cancel-release schedule under synctest; independent Go monitor of the property.",
    "note": "trusted: Lean kernel, RDB framing transcription, target double, synctest; models of the REPAIRED code (D6, D19 fixed; D22, D23, D26, D32, D33 are crash/hang repairs outside the models)",
    "technique": "Lean 4 proof (12-clause inductive invariant over an event system; sequential-reader combinator lemmas) + exhaustive "
                 "small-scope differential correspondence + fault/cancellation schedule exploration + monitor",
}
