EXPECTED_FACTS = {
    "c06_attempt_loop": [
        "sendPsync: if err != nil",
        "sendPsync: if wait == nil",
        "sendPsync: for rdbSize == 0",
        "sendPsync: if x.Err != nil",
        "sendPsync: if x.Size <= 0",
        "getOutputStartPoint: RetryLinearJitter(ctx, func, 3, time.Second * 2, 0.5)",
        "getOutputStartPoint: Join(ErrBreak, err)",
        "Run: for !ri.wait.IsClosed()",
        "Run: if err != nil",
        "Run: if errors.Is(err, ErrCorrupted)",
        "Run: ri.channel.DelRunId(ri.channel.RunId())",
        "Run: if errors.Is(err, ErrBreak)",
        "Run: ri.wait.Close(err)",
        "Run: break",
        "Run: if backoff := ri.runLoopBackoff(err); backoff > 0",
        "Run: ri.wait.Sleep(backoff)",
        "Run: ri.wait.Close(fmt.Errorf(\"panic : %v\", i))",
        "runLoopBackoff: return 0",
        "runLoopBackoff: return 2 * time.Second"
    ],
    "c06_delcheckpoint_order": [
        "DelCheckpoint: return DelCheckpoints(cli, checkpointName, []string{runId})",
        "if err != nil { return err }",
        "range mp",
        "range runIds",
        "fetchCheckpoint([]string{runId}, cli, int(db), checkpointName)",
        "if err != nil { return err }",
        "sort.SliceStable(records)",
        "less: if records[i].offset != records[j].offset { return records[i].offset < records[j].offset }",
        "less: if records[i].mtime != records[j].mtime { return records[i].mtime < records[j].mtime }",
        "less: return records[i].db < records[j].db",
        "range records",
        "if err != nil { return err }",
        "if err != nil { return err }",
        "ResetStartPoint: checkpoint.DelCheckpoints(cli, ro.cfg.CheckpointName, ids)"
    ],
    "c06_capabilities": [
        "client.NewCommand(\"replconf\", \"capa\", \"psync2\")"
    ],
    "c06_channel_calls": [
        "syncMeta: ri.channel.StartPoint(inputIds)",
        "syncMeta: ri.channel.IsValidOffset(Offset{RunId: locSp.RunId, Offset: outSp.Offset})",
        "syncMeta: ri.channel.GetRdb(locSp.RunId)",
        "syncMeta: ri.channel.DelRunId(ri.channel.RunId())",
        "syncMeta: ri.channel.RunId()",
        "syncMeta: ri.channel.SetRunId(sOffset.RunId)",
        "syncMeta: ri.output.ResetStartPoint(ctx, inputIds)",
        "syncMeta: ri.output.SetRunId(ctx, sOffset.RunId)",
        "syncData: ri.channel.NewRdbWriter(redisCli.Client().BufioReader(), offset, rdbSize)",
        "syncData: ri.channel.NewAofWritter(redisCli.Client().BufioReader(), offset)",
        "syncData: ri.channel.NewAofWritter(redisCli.Client().BufioReader(), offset)",
        "readChannel: ri.channel.NewReader(readerOffset.ToOffset())",
        "sendOutput: ri.output.ResetStartPoint(ctx, append([]string{reader.RunId()}, ri.RunIds()...))",
        "sendOutput: ri.output.Send(ctx, reader)"
    ],
    "c06_err_branches": [
        "syncMeta: id1, id2, err = redis.GetRunIds -> returns",
        "syncMeta: outSp, err = ri.getOutputStartPoint -> returns",
        "syncMeta: locSp, err = ri.channel.StartPoint -> falls through",
        "syncMeta: sOffset, isFullSync, rdbSize, err = ri.pSync -> returns",
        "syncMeta: sOffset, isFullSync, rdbSize, err = ri.pSync -> returns",
        "syncMeta: sOffset, isFullSync, rdbSize, err = ri.pSync -> returns",
        "syncMeta: sOffset, isFullSync, rdbSize, err = ri.pSync -> returns",
        "syncMeta: sOffset, isFullSync, rdbSize, err = ri.pSync -> returns",
        "syncMeta: sOffset, isFullSync, rdbSize, err = ri.pSync -> returns",
        "syncMeta: err = ri.channel.DelRunId -> returns",
        "syncMeta: err = ri.channel.SetRunId -> returns",
        "syncMeta: err = ri.output.ResetStartPoint -> returns",
        "syncMeta: err = ri.output.SetRunId -> returns",
        "fetchInput: redisCli, err := ri.newRedisConn -> returns",
        "fetchInput: isFullSync, rdbSize, locSp, outSp, err := ri.syncMeta -> returns",
        "syncData: if isFullSync { inputStateGauge.Set -> returns",
        "readChannel: ri.logger.Debugf -> returns",
        "sendOutput: err := ri.output.ResetStartPoint -> returns"
    ],
    "c06_flow_ifs": [
        "fetchInput: !ri.rdbLimiterAcquire(wait.Done())",
        "syncData: isFullSync",
        "syncData: wait.IsClosed()",
        "syncData: rdbWriter != nil",
        "syncData: aofWriter != nil",
        "syncData: isFullSync",
        "syncData: aofWriter == nil",
        "readChannel: wait.IsClosed()",
        "readChannel: errors.Is(err, pkgCommon.ErrCorrupted)",
        "sendOutput: wait.IsClosed()",
        "sendOutput: !reader.IsAof()"
    ],
    "c06_handoff_stores": [
        "sendRdb: return ro.setCheckpoint(ctx, reader.RunId(), reader.Left(), config.Version)",
        "ResetStartPoint: ro.checkpointInMem = checkpoint.CheckpointInfo{Key: ro.cfg.CheckpointName, RunId: \"?\", Offset: -1, Version: config.Version}",
        "setCheckpoint: ro.checkpointInMem = *checkpointKv",
        "sendCmdsBatch: ro.checkpointInMem.Offset = lastOffset"
    ],
    "c06_psync_args": [
        "locSp.ToOffset()",
        "outSp.ToOffset()",
        "outSp.ToOffset()",
        "locSp.ToOffset()",
        "synSp.ToOffset()",
        "synSp.ToOffset()"
    ],
    "c06_globals_written_after_init": [],
    "c06_config_reads": [
        "syncer/input.go: rdbLimiterAcquire: config.GetSyncerConfig().Input.RdbLimiter",
        "syncer/input.go: rdbLimiterRelease: config.GetSyncerConfig().Input.RdbLimiter",
        "syncer/input.go: checkSyncDelay: config.GetSyncerConfig().Input.SyncDelayTestKey",
        "syncer/input.go: pSync: config.GetSyncerConfig().Server.ListenPort",
        "syncer/channel.go: NewReader: config.GetSyncerConfig().Channel.VerifyCrc"
    ],
    "c06_psync_gen": [
        "guard=0 add=1 contSub=1 contId=1 fullMin=3 fullId=1 fullOff=2 base=10 bits=64"
    ],
    "c06_sendpsync_wire": [
        "sr.cli.SendAndFlush(\"psync\", runid, strconv.FormatInt(offset, 10))"
    ],
    "c06_syncmeta_ifs": [
        "slices.Contains(inputIds, outSp.RunId) && slices.Contains(inputIds, locSp.RunId)",
        "ri.channel.IsValidOffset(Offset{RunId: locSp.RunId, Offset: outSp.Offset})",
        "!isFullSync",
        "slices.Contains(inputIds, outSp.RunId)",
        "!isFullSync",
        "slices.Contains(inputIds, locSp.RunId) && outSp.IsInitial()",
        "GetRdb.0 != -1 && GetRdb.1 != -1",
        "!isFullSync",
        "isFullSync",
        "sOffset.RunId != id1",
        "isFullSync || clearLocal",
        "isFullSync",
        "isFullSync",
        "outSp.Offset <= 0"
    ]
}

PROP = {
    "lean_modules": ["GunYu.Props.C06", "GunYu.Props.C06Loop", "GunYu.Props.C06Att", "GunYu.Props.C06Send", "GunYu.Props.C06Bisync", "GunYu.Props.C06Mach", "GunYu.Props.C06Lives", "GunYu.Props.C06Gen"],
    "audit_namespaces": ["GunYu.Props.C06"],
    "required_theorems": [
        "GunYu.Props.C06.outcome_continue_or_full",
        "GunYu.Props.C06.psync_offset_convention",
        "GunYu.Props.C06.never_beyond_stored",
        "GunYu.Props.C06.ids_within_source",
        "GunYu.Props.C06.no_cache_reuse_when_cleared",
        "GunYu.Props.C06.cache_consistent_after",
        "GunYu.Props.C06.delivers_something",
        "GunYu.Props.C06.storedCompat_needed",
        "GunYu.Props.C06.continues_what_the_target_holds",
        "GunYu.Props.C06.truthful_preserved",
        "GunYu.Props.C06.truthful_source_change",
        "GunYu.Props.C06.truthful_initially",
        "GunYu.Props.C06.truthful_cache_change",
        "GunYu.Props.C06.reach_inv",
        "GunYu.Props.C06.reach_safe",
        "GunYu.Props.C06.reach_after_failed_meta",
        "GunYu.Props.C06.reach_example",
        "GunYu.Props.C06.reach_never_streams_onto_dirty",
        "GunYu.Props.C06.snapshot_not_behind",
        "GunYu.Props.C06.storedCompat_not_invariant",
        "GunYu.Props.C06.reset_on_full_needed",
        "GunYu.Props.C06.no_relabel_at_start_needed",
        # collector (C05's models) and the Run() retry loop: Props/C06Loop.lean
        "GunYu.Props.C06.gc_keeps_disk",
        "GunYu.Props.C06.gc_keeps_memory",
        "GunYu.Props.C06.disk_log_is_written",
        "GunYu.Props.C06.mem_log_is_written",
        "GunYu.Props.C06.loop_gc_disk",
        "GunYu.Props.C06.loop_gc_memory",
        "GunYu.Props.C06.attempt_inv",
        "GunYu.Props.C06.corrupted_inv",
        "GunYu.Props.C06.attempt_full_eq",
        "GunYu.Props.C06.mix_admits",
        "GunYu.Props.C06.stale_inv",
        "GunYu.Props.C06.loop_inv",
        "GunYu.Props.C06.loop_safe",
        "GunYu.Props.C06.loop_next_outcomes",
        "GunYu.Props.C06.loop_safe_stale",
        "GunYu.Props.C06.loop_example",
        "GunYu.Props.C06.loop_example_stale",
        # attempts call by call, unusual replies, int64, the Run loop, deletion order: Props/C06Att.lean
        "GunYu.Props.C06.sendPSync64_eq",
        "GunYu.Props.C06.attemptP_stop_iff",
        "GunYu.Props.C06.attemptP_unchanged",
        "GunYu.Props.C06.bad_header_records_nothing",
        "GunYu.Props.C06.attemptP_ok",
        "GunYu.Props.C06.attemptP_inv",
        "GunYu.Props.C06.failing_call_inv",
        "GunYu.Props.C06.truth_unchanged_before_send",
        "GunYu.Props.C06.failed_call_delivers_nothing",
        "GunYu.Props.C06.syncMetaL_eq",
        "GunYu.Props.C06.locErr_clears",
        "GunYu.Props.C06.branch4_writer_offset",
        "GunYu.Props.C06.run_sleep_unchanged",
        "GunYu.Props.C06.run_stopped_fixed",
        "GunYu.Props.C06.run_break_stops",
        "GunYu.Props.C06.run_leaves_iff",
        "GunYu.Props.C06.run_corrupted_stops",
        "GunYu.Props.C06.run_in_loop",
        "GunYu.Props.C06.run_safe",
        "GunYu.Props.C06.del_prefix_safe",
        "GunYu.Props.C06.del_order_needed",
        # the truth after a Send derived from the sender's theorems: Props/C06Send.lean
        "GunYu.Props.C06.send_position_is_truth",
        "GunYu.Props.C06.stored_is_boundary",
        "GunYu.Props.C06.attempt_delivered_stream",
        "GunYu.Props.C06.sender_lives_beside_attempt",
        "GunYu.Props.C06.afterSend_coupled",
        # bisync start point (C14's model) feeding syncMeta: Props/C06Bisync.lean
        "GunYu.Props.C06.tgtAt_truthful",
        "GunYu.Props.C06.point_outcome",
        "GunYu.Props.C06.bisync_outcome_continue_or_full",
        "GunYu.Props.C06.bisync_sync_mode_outcome",
        # session 5: the whole loop as one machine, foreign answerers, collector schedules: Props/C06Mach.lean
        "GunYu.Props.C06.request_id_of_info",
        "GunYu.Props.C06.other_source_answers_full",
        "GunYu.Props.C06.sibling_only_under_prev",
        "GunYu.Props.C06.runX_in_loop",
        "GunYu.Props.C06.runX_safe",
        "GunYu.Props.C06.runX_safe_stale",
        "GunYu.Props.C06.runX_stopped_attempts",
        "GunYu.Props.C06.machine_example",
        "GunYu.Props.C06.gc_request_is_writer_start",
        "GunYu.Props.C06.gc_none_eq",
        "GunYu.Props.C06.gc_reader_start_partial",
        "GunYu.Props.C06.gc_log_reader_partial",
        "GunYu.Props.C06.gc_full_reader_partial",
        "GunYu.Props.C06.gc_branch4_reader_partial",
        "GunYu.Props.C06.gc_schedule_safe_partial",
        "GunYu.Props.C06.failed_setRunId_outcomes",
        "GunYu.Props.C06.gc_old_second_read_breaks",
        # session 5: the coupling with the sender's target over any number of lives and connections: Props/C06Lives.lean
        "GunYu.Props.C06.offset_unchanged_before_send",
        "GunYu.Props.C06.lives6_coupled",
        "GunYu.Props.C06.lives6_next_start",
        # session 5: SendPSync's arithmetic and reply shapes regenerated (Gen/C06Psync.lean): Props/C06Gen.lean
        "GunYu.Props.C06.gen_wireOf_eq_model",
        "GunYu.Props.C06.gen_wireOf64_eq_model",
        "GunYu.Props.C06.gen_contOff_eq_model",
        "GunYu.Props.C06.gen_contOff64_eq_model",
        "GunYu.Props.C06.gen_reply_shape",
    ],
    "expected_facts": EXPECTED_FACTS,
    "harness": [{"name": "C06", "pkg": "./syncer/", "test": "TestVerifC06",
                 "timeout_quick": "10m", "timeout_thorough": "40m"},
                {"name": "C06b", "pkg": "./syncer/", "test": "TestVerifC06Bisync"},
                {"name": "C06c", "pkg": "./syncer/", "test": "TestVerifC06Att", "timeout_quick": "10m", "timeout_thorough": "40m"},
                {"name": "C06d", "pkg": "./syncer/", "test": "TestVerifC06Gc", "timeout_quick": "10m", "timeout_thorough": "40m"}],
    "driver": "drv_C06",
    "rule": "one op per (re)connection: the real RedisInput.run (fetchInput, syncMeta, pSync/SendPSync, syncData, readChannel, "
            "sendOutput) with the real StoreChannel (pkg/store, temp dir) or MemoryChannel runs against a RESP source double on "
            "127.0.0.1 (PING, INFO replication, REPLCONF, PSYNC with Redis's masterTryPartialResynchronization rule, +CONTINUE [id], "
            "+FULLRESYNC id off, optional LF heartbeats, $len snapshot, stream bytes), a recording Output and a recording proxy "
            "around the Channel. Volumes (session 5): 900 generated cases in the quick tier, 8000 in the thorough tier (were 1200 / 20000: the "
            "collector x (re)connection sampling - gcloop every 32nd case, gcrace - is superseded by the enumeration of session C06d; every KIND "
            "is kept); C06c 240 / 1800 attempt ops. Generated triples: source {no previous id | failover with previous id and switch offset} x backlog "
            "{from 1 | window | empty | lost}; stored position {'?' | current id | previous id | unknown id} x offset drawn from the "
            "interesting points (cache left/mid/right +-1, snapshot left/left-size, switch offset +-1, backlog first +-1, master +-1, "
            "0, random); cache {no label | label only | snapshot | log | snapshot+log} x label {current | previous | other} x range "
            "around the same points (incl. beyond the switch offset / beyond the master), built through the channel's own writers "
            "with PRF histories; disk caches optionally closed and reopened (process restart), small log segment sizes (rotation); "
            "1/3 of the cases continue with 1-2 follow-up connections in the same process (source advanced, backlog trimmed or lost, "
            "stored position moved). Compared per op with the Lean model: the cache's query API before the round, branch, PSYNC line "
            "received, reply, full/del/run id, writer and reader start, cache label/snapshot/range/latest afterwards, number of bytes "
            "delivered and the first 64. Monitor (independent Go oracle): stream => CONTINUE granted, start == stored offset, stored "
            "id served by the source, ALL delivered bytes == hist(id1) from the stored offset, stored prefix in the current history; "
            "snapshot => complete and either the one just sent (at the announced offset/size) or the cached one of a history agreeing "
            "below its offset and only with CONTINUE and without clearing; request offset == writer start + 1; log writer after "
            "FULLRESYNC at the announced offset; cache relabelled to id1 and read back == hist(id1). "
            "Every 8th case is a restart-in-window schedule run with the REAL RedisOutput bookkeeping (syncer.newOutput, StartPoint, "
            "SetRunId, ResetStartPoint, setCheckpoint / in-memory position; resume and non-resume mode) on the shared target double "
            "behind a TCP bridge: history A replayed to X, then (full-interrupted) the source becomes B (failover with switch offset, "
            "or unrelated), answers FULLRESYNC, the snapshot replay fails, the run / the process restarts; (restart-rekey) failover and "
            "syncer restart with the cache lost or kept; (cached-interrupted) a cached snapshot beyond the stored position is replayed, "
            "fails, the cache is lost. The monitor tracks what the target really holds (history, offset, dirty) and requires every log "
            "delivery to start exactly there, in a prefix of the current history, never after an interrupted replay; the position the "
            "real output holds after each round is compared with the Lean `step` (line `tgt`). "
            "Half of the window schedules use real replication streams (fixed-length SET commands) and real RDB files and run the REAL "
            "RedisOutput.Send (SendRdb, then SendAof/sendAof until everything is applied and the position stored): the snapshot-to-stream "
            "hand-off is judged on the target double's request log (exactly the two snapshot keys, then exactly the commands of the "
            "current history from the snapshot's / stored offset on, none missing, none twice) and the stored position is read back. "
            "Window kinds: full-interrupted, restart-rekey, cached-interrupted (session 5: in resume mode half of them with the source having a "
            "previous id and a stale LOWER record under that id in database 5 - what an interrupted relabel leaves: sendOutput's "
            "ResetStartPoint must delete the records of all the source's labels before the cached snapshot is replayed), "
            "failover-continue (stale label in in-memory mode). "
            "Every 16th case injects a fault into one bookkeeping call (output.ResetStartPoint 1st/2nd call, output.SetRunId, "
            "channel.DelRunId, channel.SetRunId): the run must end with an error and deliver nothing (monitor only). "
            "1/10 of the snapshot+log caches have a log that does not start at the snapshot's offset: on disk, and in memory when the "
            "log starts before the snapshot, that is outside CacheWF - there only the query API and the decision (q, meta) are compared "
            "and the property is not judged; in memory with the log starting after the snapshot (what the collector leaves) it is inside "
            "CacheWF and everything is compared and judged; every op carries wf=<SourceWF and CacheWF> computed on both sides. "
            "distinct_nontrivial = distinct (backend, stored id class, cache id class, cache shape, stored-vs-cache, backlog, branch, "
            "full, delivered) combinations. "
            "Session C06c (TestVerifC06Att): one `att` op = one real RedisInput.run() with the REAL RedisOutput bookkeeping (newOutput after a "
            "process that stored the position, StartPoint, SetRunId, ResetStartPoint, setCheckpoint on the target double; resume and in-memory "
            "mode) in which ONE call fails - dial/INFO, channel.DelRunId, channel.SetRunId, output.ResetStartPoint (1st/2nd call), "
            "output.SetRunId, writer creation, reader creation (late failures wait until the writer stored everything), the snapshot "
            "replay - or none, and in 1/3 of the ops the PSYNC is answered by the SUCCESSOR of the source that answered INFO (fail-over in "
            "between: new id, previous id = INFO's, switch offset around the stored / cached offsets). Compared with the Lean model "
            "(stageOf / attemptP / attempt / staleAttempt): decision, PSYNC line (int64-wrapped), reply, how far the attempt got (derived "
            "from the calls observed), whether Run would stop (ErrBreak), the cache it leaves, the position output.StartPoint then reads "
            "with the next source's ids. Unusual peers: `$EOF:<40 bytes>`, `$abc`, `$0`, `$-n` after +FULLRESYNC; stored offset 2^63-1; "
            "channel.StartPoint answering with an error (locerr: decision and cache afterwards); output.StartPoint failing once / three "
            "times and the source REFUSING the connection (newRedisConn, ErrRestart: three ops on lanes of their own, 1-2 s per try). "
            "Three `runloop` ops = the real RedisInput.Run(): (attempt whose replay fails, "
            "2 s back-off, attempt that completes, attempt whose output.StartPoint fails three times): attempts made, stop on ErrBreak, no "
            "attempt afterwards, cache unchanged across the back-off; (attempt whose Send ends with ErrCorrupted): DelRunId then the loop "
            "is left after that one attempt, cache dropped; (Send ends with ErrQuit): left at once, cache kept - ErrCorrupted / ErrRestart "
            "/ ErrQuit wrap ErrBreak (the error is injected at Send's return, as RedisOutput.Send reports a damaged segment; the store's "
            "own detection is C05/C08's). Four `sync` ops on the real RedisOutput in BISYNC mode (frontier "
            "snapshot / per-slot latest record ahead of the root checkpoint; backlog holding or not holding the position): the real "
            "bisyncStartPoint answer goes through the real syncMeta. REQUEST-LEVEL CUTS: a (re)connection after the source was replaced / "
            "failed over with the old master ahead / fell behind the target runs un-cut on the real output (optionally a stale lower record of "
            "the label in another database); its target request log is the crash-point space: for every request up to the hand-over to Send "
            "(sampled afterwards; every one in the thorough tier) the target double is rebuilt from the prefix, the cache is lost, the "
            "process restarts (real newOutput + run) and is judged by the ground truth of the target's data (one `sync` op each). Every "
            "kind runs in every quick run (4 generated + 4 corpus schedules); the stale record sits under the SAME label or (failover) "
            "under the OTHER label (what an interrupted relabel leaves); one schedule per quick run (half of the extra ones in the thorough "
            "tier) uses the REAL RedisOutput.Send for the life before, the cut connection and the restarts (real RDB snapshots and command "
            "streams replayed onto the target double): there the truth is READ from the rebuilt double's data (both keys of a snapshot, the "
            "stream commands of its history on top; one key alone = interrupted replay, cut_points_dirty_target), in the other schedules "
            "Send is the recording shortcut and the truth switches at the hand-over. The source double answers `$EOF:<40 bytes>` whenever "
            "the replica advertised `capa eof` (a diskless master, the default since Redis 7); the advertised capabilities are an extracted "
            "fact (c06_capabilities). "
            "Monitors of C06c: attempt-never-ends, snapshot-of-invalid-size-recorded, early-failure-went-on, "
            "delivered-after-failed-bookkeeping, failed-attempt-not-reported, break-not-reported, stream-bytes / snapshot-bytes against the "
            "ANSWERING source's history, continue-other-history (beyond the successor's switch offset; ground truth in the cut schedules), "
            "bisync-start-not-committed-position, loop-does-not-stop-on-break, attempt-after-break, state-changed-during-backoff, "
            "no-backoff-after-failed-attempt, corrupted-cache-kept (runloop k: after ErrCorrupted the loop is left AND the cache dropped). "
            "Session C06d (TestVerifC06Gc, session 5): collector x (re)connection ENUMERATED - one pass of the REAL disk collector "
            "(Storer.gcLog, the 30 s job) at each of the points of one real run() at which it can run between two channel calls (none; after "
            "StartPoint; after IsValidOffset / before GetRdb; during the PSYNC round trip; after SetRunId before the writer; after the writer "
            "before the reader) x {stored position in the old part of the cached log | in its newest part | before the cached snapshot | no "
            "position} x {everything collected | snapshot and oldest segments collected}: 48 real connections, each followed by a connection "
            "without a pass, in EVERY run (4 rounds with fresh parameters in the thorough tier). Op `gcp`: the images of the cache each call "
            "saw (read through the channel's query API at that moment) go to the Lean `syncMetaG`; compared: branch, PSYNC line, reply, "
            "DelRunId, run id, writer start, reader start. Monitors: psync-offset-convention, continue-later-start, continue-not-granted, "
            "stream-bytes, snapshot-bytes, snapshot-behind-stored, cache-label, cache-bytes (read-back after both connections). "
            "DIMENSION AUDIT (session 5, last round) - options, degenerate inputs, the other side's state and process-global state that are now "
            "DRAWN, each with a coverage counter in the evidence: channel.verifyCrc (cfg_verifyCrc_<v>_<backend>: on for the disk cases with an "
            "odd history seed in sessions C06 / C06c, at the odd collector points and for every forced case in C06d, whenever every snapshot "
            "involved is a real RDB or at most 8 bytes - a PRF snapshot of more than 8 bytes has no CRC trailer and a verifying reader rightly "
            "refuses it: cfg_verifyCrc_not_drawn_prf_snapshot_over_8_bytes; 2/3 of those cases are generated with snapshots of <= 8 bytes); "
            "channel type / storer.logSize / process restart / resumeFromBreakPoint (cfg_channel_*, cfg_storer_logSize_*, "
            "cfg_process_restart_*, cfg_resumeFromBreakPoint_*); input.rdbParallel = 1 in session C06d (cfg_rdbParallel_1) and the "
            "process-wide snapshot limiter judged after EVERY run() of the sequential sessions (monitor rdb-limiter-leak, "
            "global_rdb_limiter_checked: a slot not given back, or given back twice, on any of fetchInput / syncData's seven paths); "
            "output.StartPoint answering at the 1st / 2nd / 3rd try or never (cfg_outputStartPoint_tries_01 / 001 / 000 / conn; 001 was not "
            "drawn before); a TRANSIENT INFO failure followed by real connections on the unchanged cache and position (fault plan `info`); "
            "a target that is not the tool's alone in half of the attempt ops (tgt_foreign_records_seeded: another syncer's checkpoint under "
            "the same run ids far ahead in databases 0 and 7, a record of another run id under the tool's own name far ahead, plain data in "
            "databases 3 and 9 - output.StartPoint must answer what it answered before: monitor foreign-record-read; every checkpoint read / "
            "write of the non-bisync path opens its own connection and closes it, ResetStartPoint selects database 0 before the bisync purge: "
            "nothing reads the target on a connection GetCheckpoint left in another database); 14 FORCED degenerate-but-legal cases x "
            "{memory, disk, disk+verifyCrc} with a follow-up connection each (deg_*: cached / fresh snapshot of 1 byte, FULLRESYNC at offset "
            "0, source and position at offset 0, stored offset 0 with a log from 0, stored = cache right (source busy / idle: a stream of 0 "
            "bytes), one beyond the cache, beyond the master, under an unknown id, snapshot-only / log-only / empty cache; a forced case "
            "that delivers nothing is run-aborted); a disk store holding the directories of TWO run ids (previous and current, cfg_cache_two_run_id_directories_crc<v>: "
            "channel.StartPoint must pick the current id's directory and the log delivered from a position labelled with the previous id, "
            "inside the shared prefix, must be the current history's); process-global state as source facts (c06_globals_written_after_init = none, "
            "c06_config_reads = the five values the anchors read from the process-wide configuration). "
            "Scenario crc (2 per run): verifyCrc on, a closed segment of the disk cache damaged on disk; `entry` = the segment the reader is "
            "opened in: the real Run() against an idle source must drop the cache and leave the loop after ONE attempt (counted by the INFO "
            "commands served; three attempts on the same damaged cache = corrupted-cache-kept; found the defect fixed by feb3ca9); `next` = a "
            "later segment: what the reader delivers must be a prefix of the history (RedisOutput.Send's own mapping of a failed decode to "
            "ErrCorrupted is the sender's subject)",
    "trusted": [
        "Redis's PSYNC admission rule (replication.c masterTryPartialResynchronization / syncCommand) as transcribed in "
        "Model/Psync.lean `admitPsync` and, independently, in the Go source double `vf6Source.admit`; +CONTINUE/+FULLRESYNC/$len framing",
        "source double, recording output and channel proxy in harness/overlay/syncer/vf_c06_test.go; fault layers (one failing call), "
        "lanes and the request-prefix rebuild (vfdoubles.ReplayWith) in harness/overlay/syncer/vf_c06_att_test.go; the pass-placing "
        "channel proxy of harness/overlay/syncer/vf_c06_gc_test.go (a pass runs in the goroutine of the channel call, under the proxy's lock)",
        "Redis: a server's replid2 is its own former replid (or empty), so on ONE connection the ids INFO reported and the ids of the server "
        "that answers PSYNC are related as `Successor` (one fail-over), equal, or share nothing after two and more changes - the sibling "
        "combination (only INFO's previous id shared) cannot arise (sibling_only_under_prev bounds what it could grant)",
    ],
    "assumptions": [
        "CacheOK (bytes the cache holds under the source's current id are the current history's on the range it reports; under the "
        "previous id the previous history's, or already the current one's) and CacheWF (on disk a cached log starts at the cached "
        "snapshot's offset, in memory not before it; data only under a real id) are hypotheses of the single-connection theorems and "
        "CONCLUSIONS of loop_inv / reach_inv for every state the loop reaches from the empty cache (attempts failing at any call, "
        "ErrCorrupted, stale INFO, source changes, collector passes). The collector is C05's (Model/Store.lean Disk.gc / Mem.gc, "
        "imported): Proofs/PsyncStore.lean computes what the channel reports of a C05 state (ofDisk / ofMem) and proves one pass is a "
        "`Collected` step for every state satisfying C05's invariants; gc_keeps_disk / gc_keeps_memory state it for every reachable "
        "state of C05's operation lists, disk_contig that the disk description has the log starting exactly at the snapshot, "
        "disk_log_is_written / mem_log_is_written (over C05's disk_refines / mem_refines) that the reported range is C05's abstract log "
        "and holds the bytes written. That the description the loop works on IS ofDisk/ofMem of the store it uses is the hypothesis "
        "of loop_gc_disk / loop_gc_memory (tied by the query-API correspondence of this check and by C05's); caches are also read "
        "back against hist(id1) after every round (cache-bytes)",
        "Truthful (the stored position describes what the target holds) is an invariant proved for every sequence of connections, "
        "interrupted replays, restarts and source changes of the repaired code (reach_inv / reach_safe: induction over init, connection with any ending in either mode, source change, cache loss or "
        "replacement, lost position; a restart in resume mode keeps the position and its label and is no transition), "
        "assuming the sender stores exactly the offset of the last command it applied (C01/C07) and a source's new run id is new. "
        "The older label-based theorem keeps StoredCompat: a resume position stored under the previous id while the cache is already labelled with the current id lies "
        "in the shared prefix. syncMeta compares the stored id only with the set {id1,id2}; theorem storedCompat_needed shows the "
        "conclusion fails without it; the harness generates the combination, compares it with the model and counts it "
        "(storedcompat_excluded) instead of judging it. The tool re-keys the target's label in the same syncMeta call that relabels "
        "the cache, so it does not produce the state from consistent bookkeeping (stale/re-keyed checkpoints are C17's subject)",
        "the output side is a recording double: output.StartPoint supplies the stored position, output.SetRunId records the id "
        "(RedisOutput.StartPoint/SetRunId -> GetCheckpoint/UpdateCheckpoint re-keying is C17/C07's subject)",
        "single cache directory per input (the disk store can hold directories of several ids; only the one matching the source ids "
        "first is modelled); ids compare case-sensitively (Redis uses strcasecmp on hex ids)",
        "syncMeta/SendPSync/channel query API, the attempt model (Model/PsyncAtt.lean: stageOf, attemptP, spTries, hdrOk, runStep) and the "
        "scheduled decision (Model/PsyncMach.lean: decisionG / syncMetaG, op `gcp`) are "
        "hand-written models tied by correspondence; SendPSync's parsing is interleaved with its I/O, so no pure function of it exists for "
        "gofn to translate - instead harness/extract/c06psync.go reads the statements that decide the numbers semantically (the guard and "
        "increment of `if offset >= 0 { offset += 1 }` in any equivalent spelling, the `offset - 1` returned on +CONTINUE, the words, "
        "minimal field counts and field indices of the two replies, ParseInt's base and width) and REGENERATES them on every run as "
        "Gen/C06Psync.lean; Props/C06Gen.lean proves the generated `wireOf` / `contOff` equal to the model's for all inputs "
        "(gen_wireOf_eq_model, gen_wireOf64_eq_model, gen_contOff_eq_model, gen_contOff64_eq_model, gen_reply_shape); a SendPSync the "
        "generator cannot read is a broken tie (never approximated); the textual fact c06_sendpsync_offset is no longer expected, only "
        "the wire format of the request (c06_sendpsync_wire) and the generated constants (c06_psync_gen); in c06_syncmeta_ifs the locals "
        "that hold results of channel calls are printed as <Call>.<index> (GetRdb.0, GetRdb.1), so renaming them is not a tie failure; the machine `stepX` is `runStep` plus the constructors of `Loop` as events - its stale / "
        "foreign / world events are tied through `staleAttempt` / `fullAttempt` (att ops), not run as event lists against the real Run(); the skeleton they "
        "transcribe (syncMeta's if-conditions and pSync arguments, its channel/output calls, SendPSync's offset statements; sendPsync's "
        "size loop and its guards, getOutputStartPoint's retry arguments and ErrBreak, Run's loop statements, runLoopBackoff's returns: "
        "c06_attempt_loop; the comparator of DelCheckpoint's deletion order: c06_delcheckpoint_order) is "
        "re-extracted each run and compared with the expectation in checks/p/C06.py",
        "attempt ops: late failures (reader creation, ResetStartPoint in sendOutput) are injected AFTER the writer stored everything the "
        "source sent, so the cache a failed attempt leaves is a function of the case; an attempt cut while the writer is still ingesting "
        "leaves a cache that is any consistent cache (Loop.cache in the model, C05's subject in the code). A stored position with a "
        "negative offset prints as ?:-1 on both sides of the `att` comparison (after ResetStartPoint the target holds nothing, or "
        "(new id,-1) once SetRunId re-keyed: the model's afterMeta says (id,-1), the code leaves nothing when the run id did not change; "
        "both mean 'no position'). The request-level cut schedules rebuild the target from a request prefix of ONE un-cut run "
        "(requests of syncMeta's bookkeeping are sequential and deterministic given the same answers; DelCheckpoint's order is now "
        "sorted) and restart with the cache lost (memory channel, or another instance taking over); a disk cache surviving the cut with "
        "a half-created writer is C05/C08's subject",
        "afterSend_by_sender / send_position_is_truth quantify over every decoded stream `raws` above the reader's start; that `raws` IS "
        "the decoding of the bytes C06's reader delivers (offsets = bytes consumed) is C12's theorem, not re-proved here; "
        "bisync_outcome_continue_or_full keeps the hypothesis that a position still labelled with the source's previous id meets a cache "
        "holding nothing under the current id yet (an invariant of the non-bisync loop, loop_inv; for bisync the re-keying of the "
        "recovery state is C14/C17's model)",
        "a run that ends before anything is delivered is repeated from scratch by the harness and counted by cause: "
        "aborted_attempt_store_rdbreader_rename_race = store.NewRdbReader (rdb_reader.go:39) sees neither x.rdb nor x.rdb.tmp while "
        "the snapshot writer renames (an offset reported valid is unreadable for a moment: C05's subject, reported there; ~1/500 disk "
        "full syncs); a deterministic abort survives the repeats and is reported as run-aborted",
        "harness waits are on explicit conditions (reader delivered, writer phase begun, everything stored, position stored) with a "
        "hard limit of 10 s; an attempt in which a limit was hit is discarded and the case repeated (stalled_attempts_repeated), its "
        "outcome never becomes compared output; only when the repeat hits the limit too the outcome is taken as the behaviour of the "
        "code (wait_limit_hit_on_every_attempt; after 3 such cases the limit drops to 1.5 s so that a broken build ends)",
        "collector on (MaxSize>0, small segments, both backends): monitor-only scenario gcloop (a replayed cached snapshot must be "
        "followed by the stream from its offset); bisync mode: bookkeeping-level probe TestVerifC06Bisync (session C06b) on the real "
        "RedisOutput (what StartPoint answers after a completed / an interrupted full resynchronisation with stale recovery state)",
    ],
    "partial": [
        "the retry loop, the collector, the attempts call by call and the loop machine are modelled and proved (Props/C06Loop.lean, "
        "Props/C06Att.lean: run_in_loop, run_safe, failing_call_inv, attemptP_*, sendPSync64_eq, locErr_clears, del_prefix_safe) and "
        "compared with the real run()/Run() (session C06c). Session 5: an attempt whose INFO and PSYNC are "
        "answered by different sources: ONE failover in between is `staleAttempt` (compared op by op); an answering source that shares NO id "
        "with INFO's answers every request an attempt can make with FULLRESYNC (request_id_of_info, other_source_answers_full: the premise of "
        "`Loop.fullBy`, proved for every stored position and cache); a source sharing only INFO's PREVIOUS id refuses everything but a "
        "request under that id (sibling_only_under_prev) - a continuation granted THERE is the one combination outside the model (trusted: "
        "cannot arise on one connection). What remains outside the Lean model: the loop's TIMING is not modelled (the 2 s back-off "
        "and the 3 x 2 s retries are events without duration; termination = `run_stopped_fixed` after ErrBreak / Stop only - a loop that "
        "never meets ErrBreak runs for ever by design); the Stage of a failed attempt is compared for failures injected between calls and "
        "after the writer finished - an attempt cut in the middle of the writer's ingestion is covered by the model's `Loop.cache` "
        "over-approximation, not by a correspondence op; several run-id directories in one disk store (not modelled; since the dimension audit one forced scenario with two directories is "
        "run and judged by monitors in session C06d); a channel.StartPoint error is "
        "proved at the decision level (locErr_clears: cache dropped, branch 3/6) and compared for decision + cache afterwards, its "
        "byte-level outcome theorem is the cleared-cache case of outcome_continue_or_full by analogy, not by a theorem about `runL`; "
        "VerifyRunId's side effect (SetRunId before it fails) is not injected; diskless replies are refused before anything changes "
        "(attemptP_unchanged, bad_header_records_nothing; `capa eof` is not advertised - extracted fact c06_capabilities - and the double "
        "answers $EOF: to a replica that does: such a tool would never complete a full sync, reported as run-aborted); request-level crash "
        "points are explored for the output's bookkeeping (cut schedules, monitor + `sync` correspondence of the restarted run) and "
        "proved for the deletion order of ResetStartPoint -> DelCheckpoints only (del_prefix_safe: ONE ascending order over the records "
        "of all labels and databases; a record that cannot be read aborts before anything is deleted - extracted, not cut); two labels "
        "in the SAME database hash are read by fetchCheckpoint in HGETALL order, not by maximum - C17's model; UpdateCheckpoint's request "
        "sequence is C17's model. The loop model follows the error lattice of syncer.go (run_leaves_iff: refused connection, three failed "
        "StartPoint, ErrCorrupted after DelRunId, a fatal Send error); getOutputStartPoint tests the closure's err, so a Stop() during "
        "the retries yields ErrBreak after 1-2 tries (spTries says three: harmless, the loop is being left anyway); hdrOk accepts sizes "
        "above 2^63-1 that ParseInt refuses (never generated). run_in_loop / run_safe cover attempts against ONE source; since session 5 the machine `stepX` "
        "(Model/PsyncMach.lean) has every constructor of `Loop` as an event - stale and foreign attempts with their own peers and ends, "
        "source moves and replacements, collector passes, cache / position losses, back-off, Stop - and runX_in_loop / runX_safe / "
        "runX_safe_stale / runX_stopped_attempts hold for EVERY event list whose events meet `EvX.ok` in the state they happen in (the "
        "premises of the constructors: WF sources, `Agree`, a new id is new, `Collected`); those premises are hypotheses, not derived from a "
        "model of Redis / of the operator. "
        "Concurrency between syncMeta and the collector: `syncMetaG` lets IsValidOffset, GetRdb and DelRunId/SetRunId each see a later image "
        "of the cache; gc_request_is_writer_start (EVERY schedule, no well-formedness: a granted continuation was asked with writer start + 1 "
        "- N9's property), gc_none_eq (no pass = syncMeta), gc_old_second_read_breaks (the pre-23dcc75 reading under the schedule of N9); "
        "compared op by op at every enumerated point (`gcp`). gc_reader_start_partial / gc_log_reader_partial: under every schedule and on whatever "
        "later image the reader is created, a LOG reader of an attempt that was granted a continuation outside branch 4 starts at the stored "
        "offset and the stored id is one the source serves (a pass can only make NewReader refuse). "
        "gc_full_reader_partial: under every schedule (c3 well-formed), after a FULLRESYNC the cache the writer opens is exactly the "
        "announced snapshot without log, and on it or any later collector image NewReader hands over THAT snapshot or refuses, never a log. "
        "gc_branch4_reader_partial: in branch 4 after a granted continuation no LOG reader can open (the log starts at or behind the cached "
        "snapshot in every image: chain c0 -> c2 -> c3 -> writer -> c5 of `Collected` facts). gc_schedule_safe_partial = the LOG-READER "
        "clause of `gc_schedule_safe_stmt` PROVED for every state of `Loop`, every schedule and every later image at the reader: a log "
        "reader is opened only after a granted continuation, exactly at the stored offset, under an id the source serves. "
        "THE GAP of `gc_schedule_safe_stmt` (Props/C06Mach.lean, a `def … : Prop`, still NOT proved as a whole): its SNAPSHOT clause (the "
        "cached snapshot handed over in branch 4 is still followed by its log in the image the reader sees) and the BYTES a log reader "
        "then reads (CacheOK along the images; `loop_safe` gives them for the un-scheduled run only) - "
        "i.e. the rest of the byte-level outcome under a schedule (`loop_safe` for "
        "`syncMetaG` + a writer / reader that see still later images) - judged by the monitors of session C06d on the 96 enumerated "
        "connections per run (a pass that removes the stored position ends in a refused reader; the follow-up connection clears the cache "
        "and continues from the stored offset); passes of the MEMORY collector run only inside a writer's appends / finishAof "
        "(memory_channel.go gcLocked callers), i.e. after the writer was created - scenario gcloop (monitor only), no enumeration; a pass "
        "while a reader / writer of the SAME attempt holds references is C05's subject. "
        "Theorems that only RESTATE a definition (their content is the correspondence of that definition with the code): "
        "attemptP_stop_iff, attemptP_unchanged, bad_header_records_nothing, attemptP_ok, run_sleep_unchanged, run_stopped_fixed, "
        "run_break_stops, run_corrupted_stops, run_leaves_iff, syncMetaL_eq, attempt_delivered_stream, truth_unchanged_before_send; "
        "send_position_is_truth / stored_is_boundary re-export C02 / C07. Props/C06Loop.lean (session 3: gc_keeps_*, *_log_is_written, "
        "loop_*, attempt_inv, corrupted_inv, attempt_full_eq, mix_admits, stale_inv) has not been read by an independent reviewer in any "
        "round; in it `Loop.attempt` keeps `e` free (the truth after a stream is `.at id1 e` for any e, also beyond what the source "
        "sent): an over-approximation of the sender, bounded only by afterSend_coupled's `o`",
        "the truth of the target after a Send: afterSend_coupled couples C06's bookkeeping with the sender's target through the position "
        "(Coupled: the sender's unique largest record IS C06's stored offset, which C06 calls the truth) and proves the coupling is kept "
        "by ONE resumed life (C02 life_step with UniqueMax - resume mode, any configuration / schedule / wire prefix), with the meaning of "
        "`.at id1 o` (specification split at o, overshoot repeated) on the sender's side. Session 5 (Props/C06Lives.lean): `Lives6` = any "
        "number of such lives, reconnections of the sender, attempts that end before Send after a granted continuation (any stage, with "
        "or without ErrCorrupted), collector passes and source moves; lives6_coupled: every such state is a `Loop` state AND coupled "
        "(induction), lives6_next_start: the next log starts at the sender's unique largest record. `Lives6` now also has the step `snapshot` (a snapshot - the "
        "source's after FULLRESYNC, or the cached one - is handed over and its replay completes; premise: the target the replay leaves holds "
        "(id, left) as its unique largest record, what sendRdb stores - C03/C04/C20's subject) and carries the accumulated applied list: "
        "lives6_coupled proves `T.applied = base ++ A`, base = the applied list when the last snapshot completed (or at the start), A = "
        "life after life the commands up to the stored position plus the overshoot. NOT derived: that premise of `snapshot`; an "
        "INTERRUPTED snapshot replay inside `Lives6` (the coupling is void until the next completed one); ( sender_lives_beside_attempt still only puts C02 lives_lose_nothing - which starts "
        "from a target WITHOUT position - beside the attempt, its C06 conjuncts hold for every o); in-memory mode (no record on the target); the label of the record; "
        "that `raws` is the decoding of the delivered bytes (C12); a full instance of afterSend_coupled (only the coupling itself and "
        "each side are instantiated). The token `Truth` stays abstract in Model/Psync.lean and a completed SNAPSHOT replay still sets "
        "`.at id1 left` by definition (C03/C04/C20's subject), tied by the real-send window and cut schedules on the target's data",
        "bisync: the start position is composed from C14's model (frontier modes and sync mode) and the real bisyncStartPoint answer is run "
        "through the real syncMeta (4 ops); no bisync STREAM is replayed here (C13/C14), and the re-keying of bisync recovery state on a "
        "run-id change is STILL not part of `Loop`: C17's relabel theorems (Model/BookRunIdSeq.lean, setRunIdSeq_fixed) speak about the concrete "
        "checkpoint hash and `Ctl`, C06's `Tgt` is (label, offset, truth); session 5 re-read syncMeta's call of output.SetRunId against the "
        "repaired SetRunId (/repo bf252d5, pendingRunId) and proved only failed_setRunId_outcomes: a call that fails after repointing the hash "
        "changes the LABEL the next attempt reads, not offset, truth or cache - both outcomes are `Loop` states; no C06 source fact pins "
        "SetRunId's text (the check passed unchanged on bf252d5..f794df4)",
    ],
}

MANIFEST = {
    "text": "Lean theorems over ALL source states, stored positions, cache descriptions (both backends) and histories: after syncMeta + "
            "writer/reader start the output receives either log bytes starting exactly at the stored offset, all equal to the current "
            "history, with CONTINUE granted, or one complete snapshot (the source's on FULLRESYNC, a cached one only under CONTINUE "
            "without clearing, never behind the stored position) of a history agreeing below its offset; request offset = writer start "
            "+ 1; never a later start; run id and cache label always the source's current id; nothing of the old cache survives "
            "clearLocal/FULLRESYNC; the run never aborts. Over EVERY sequence of connections (any ending, resume and in-memory mode), "
            "source changes, cache losses/replacements and lost positions (inductive `Reach`): the stored position stays truthful and a "
            "log is only ever continued exactly on top of what the target really holds, in a prefix of the current history "
            "(reach_inv, reach_safe). Over EVERY run of RedisInput.Run's retry loop (inductive `Loop`: attempts that fail after any call of "
            "syncMeta or later, ErrCorrupted -> DelRunId, +CONTINUE granted by a successor under another id than INFO reported, "
            "FULLRESYNC by any new source, collector passes of C05's disk and memory caches, source changes, cache and position losses) "
            "the same holds for the next attempt (loop_inv, loop_safe, loop_next_outcomes, loop_safe_stale; the collector keeps CacheWF "
            "including contiguity - equality on disk, snapshot-not-after-log in memory - and CacheOK: gc_keeps_disk, gc_keeps_memory). "
            "The model (decision table, SendPSync, channel API of both backends, Redis admission rule, the "
            "output's position bookkeeping) is tied to the code by differential correspondence of the real RedisInput.run against a "
            "RESP source double, by restart-in-window schedules with the real RedisOutput bookkeeping and the real RedisOutput.Send on "
            "the shared target double (hand-off judged on the target's request log), fault injection into the bookkeeping calls, an "
            "independent end-to-end byte monitor and a re-extracted source skeleton. Session 4: every ATTEMPT of the loop call by call "
            "(one failing call -> Stage, peers failing before the bookkeeping, unusual snapshot headers, int64 wrap, channel.StartPoint "
            "error, ErrBreak / back-off / Stop as a loop machine that stays inside `Loop` for every event list: run_in_loop, run_safe), the "
            "stale attempt and the stages compared op by op with the real run()/Run() on the real RedisOutput; the position after a Send "
            "coupled with the sender's target for one resumed life (afterSend_coupled over C02 life_step; many lives only side by side); the "
            "bisync start position composed from C14 (bisync_outcome_continue_or_full, bisync_sync_mode_outcome); request-level crash "
            "points of the output's bookkeeping (cut schedules; del_prefix_safe). Session 5: the whole loop as one machine whose events are ALL constructors of `Loop` "
            "(runX_in_loop, runX_safe, runX_safe_stale); any answering source sharing no id with INFO's answers FULLRESYNC "
            "(other_source_answers_full); collector passes between the readings of syncMeta as a scheduled model (`syncMetaG`: "
            "gc_request_is_writer_start for every schedule) compared at every enumerated point of the real run() with the real disk "
            "collector (session C06d, 96 connections per run); the coupling with the sender's target over any number of lives and "
            "connections (lives6_coupled). Ten defects found and fixed (07a0622, 23cb23d, 58997e8, "
            "a3509d3, 620d33c, 32a41ef, 837e4af, 6d4dd34, 23dcc75, feb3ca9).",
    "note": "trusted: Lean kernel (propext, Classical.choice, Quot.sound only), Redis PSYNC admission rule transcription, source double, "
            "target double; CacheOK/CacheWF are invariants of the loop (loop_inv; the collector step is C05's, bridged in "
            "Proofs/PsyncStore.lean) and checked by read-back; the label-based outcome_continue_or_full additionally needs StoredCompat, which is NOT an invariant "
            "(storedCompat_not_invariant) - the label-free reach_safe needs no such hypothesis",
    "technique": "Lean 4 proof (decision-table case analysis into three outcome specifications, invariant by induction over an inductive "
                 "reachability relation, omega) + differential correspondence over loopback + real-output window schedules + fault "
                 "injection + end-to-end monitors",
}
