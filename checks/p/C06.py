PROP = {
    "lean_modules": ["GunYu.Props.C06"],
    "audit_namespaces": ["GunYu.Props.C06"],
    "required_theorems": [],
    "expected_facts": {},
    "harness": [{"name": "C06", "pkg": "./syncer/", "test": "TestVerifC06", "timeout_quick": "10m", "timeout_thorough": "40m"}],
    "driver": "drv_C06",
    "rule": "",
    "trusted": [],
    "assumptions": [],
    "partial": [],
}

MANIFEST = {
    "text": "",
    "note": "",
    "technique": "",
}
