EXPECTED_FACTS = {
    "c06_syncmeta_ifs": [
        "slices.Contains(inputIds, outSp.RunId) && slices.Contains(inputIds, locSp.RunId)",
        "ri.channel.IsValidOffset(Offset{RunId: locSp.RunId, Offset: outSp.Offset})",
        "!isFullSync",
        "slices.Contains(inputIds, outSp.RunId)",
        "!isFullSync",
        "slices.Contains(inputIds, locSp.RunId) && outSp.IsInitial()",
        "locRdbLeft != -1 && locRdbSize != -1",
        "!isFullSync",
        "isFullSync",
        "sOffset.RunId != id1",
        "isFullSync || clearLocal",
        "isFullSync",
        "isFullSync",
        "outSp.Offset <= 0"
    ],
    "c06_psync_args": [
        "locSp.ToOffset()",
        "outSp.ToOffset()",
        "outSp.ToOffset()",
        "locSp.ToOffset()",
        "synSp.ToOffset()",
        "synSp.ToOffset()"
    ],
    "c06_channel_calls": [
        "syncMeta: ri.channel.StartPoint(inputIds)",
        "syncMeta: ri.channel.IsValidOffset(Offset{RunId: locSp.RunId, Offset: outSp.Offset})",
        "syncMeta: ri.channel.GetRdb(locSp.RunId)",
        "syncMeta: ri.channel.GetOffsetRange(locSp.RunId)",
        "syncMeta: ri.channel.DelRunId(ri.channel.RunId())",
        "syncMeta: ri.channel.RunId()",
        "syncMeta: ri.channel.SetRunId(sOffset.RunId)",
        "syncMeta: ri.output.ResetStartPoint(ctx, inputIds)",
        "syncMeta: ri.output.SetRunId(ctx, sOffset.RunId)",
        "syncData: ri.channel.NewRdbWriter(redisCli.Client().BufioReader(), offset, rdbSize)",
        "syncData: ri.channel.NewAofWritter(redisCli.Client().BufioReader(), offset)",
        "syncData: ri.channel.NewAofWritter(redisCli.Client().BufioReader(), offset)",
        "readChannel: ri.channel.NewReader(readerOffset.ToOffset())",
        "sendOutput: ri.output.ResetStartPoint(ctx, append([]string{reader.RunId()}, ri.RunIds()...))",
        "sendOutput: ri.output.Send(ctx, reader)"
    ],
    "c06_sendpsync_offset": [
        "if offset >= 0",
        "offset += 1",
        "err := sr.cli.SendAndFlush(\"psync\", runid, strconv.FormatInt(offset, 10))",
        "sr.cli.SendAndFlush(\"psync\", runid, strconv.FormatInt(offset, 10))",
        "return runid, offset - 1, nil, nil",
        "runid, offset := xx[1], v",
        "return runid, offset, sr.waitRdbDump(), nil"
    ]
}

PROP = {
    "lean_modules": ["GunYu.Props.C06"],
    "audit_namespaces": ["GunYu.Props.C06"],
    "required_theorems": [
        "GunYu.Props.C06.outcome_continue_or_full",
        "GunYu.Props.C06.psync_offset_convention",
        "GunYu.Props.C06.never_beyond_stored",
        "GunYu.Props.C06.ids_within_source",
        "GunYu.Props.C06.no_cache_reuse_when_cleared",
        "GunYu.Props.C06.cache_consistent_after",
        "GunYu.Props.C06.delivers_something",
        "GunYu.Props.C06.storedCompat_needed",
        "GunYu.Props.C06.continues_what_the_target_holds",
        "GunYu.Props.C06.truthful_preserved",
        "GunYu.Props.C06.truthful_source_change",
        "GunYu.Props.C06.truthful_initially",
        "GunYu.Props.C06.reset_on_full_needed",
        "GunYu.Props.C06.no_relabel_at_start_needed",
    ],
    "expected_facts": EXPECTED_FACTS,
    "harness": [{"name": "C06", "pkg": "./syncer/", "test": "TestVerifC06",
                 "timeout_quick": "10m", "timeout_thorough": "40m"}],
    "driver": "drv_C06",
    "rule": "one op per (re)connection: the real RedisInput.run (fetchInput, syncMeta, pSync/SendPSync, syncData, readChannel, "
            "sendOutput) with the real StoreChannel (pkg/store, temp dir) or MemoryChannel runs against a RESP source double on "
            "127.0.0.1 (PING, INFO replication, REPLCONF, PSYNC with Redis's masterTryPartialResynchronization rule, +CONTINUE [id], "
            "+FULLRESYNC id off, optional LF heartbeats, $len snapshot, stream bytes), a recording Output and a recording proxy "
            "around the Channel. Generated triples: source {no previous id | failover with previous id and switch offset} x backlog "
            "{from 1 | window | empty | lost}; stored position {'?' | current id | previous id | unknown id} x offset drawn from the "
            "interesting points (cache left/mid/right +-1, snapshot left/left-size, switch offset +-1, backlog first +-1, master +-1, "
            "0, random); cache {no label | label only | snapshot | log | snapshot+log} x label {current | previous | other} x range "
            "around the same points (incl. beyond the switch offset / beyond the master), built through the channel's own writers "
            "with PRF histories; disk caches optionally closed and reopened (process restart), small log segment sizes (rotation); "
            "1/3 of the cases continue with 1-2 follow-up connections in the same process (source advanced, backlog trimmed or lost, "
            "stored position moved). Compared per op with the Lean model: the cache's query API before the round, branch, PSYNC line "
            "received, reply, full/del/run id, writer and reader start, cache label/snapshot/range/latest afterwards, number of bytes "
            "delivered and the first 64. Monitor (independent Go oracle): stream => CONTINUE granted, start == stored offset, stored "
            "id served by the source, ALL delivered bytes == hist(id1) from the stored offset, stored prefix in the current history; "
            "snapshot => complete and either the one just sent (at the announced offset/size) or the cached one of a history agreeing "
            "below its offset and only with CONTINUE and without clearing; request offset == writer start + 1; log writer after "
            "FULLRESYNC at the announced offset; cache relabelled to id1 and read back == hist(id1). "
            "Every 8th case is a restart-in-window schedule run with the REAL RedisOutput bookkeeping (syncer.newOutput, StartPoint, "
            "SetRunId, ResetStartPoint, setCheckpoint / in-memory position; resume and non-resume mode) on the shared target double "
            "behind a TCP bridge: history A replayed to X, then (full-interrupted) the source becomes B (failover with switch offset, "
            "or unrelated), answers FULLRESYNC, the snapshot replay fails, the run / the process restarts; (restart-rekey) failover and "
            "syncer restart with the cache lost or kept; (cached-interrupted) a cached snapshot beyond the stored position is replayed, "
            "fails, the cache is lost. The monitor tracks what the target really holds (history, offset, dirty) and requires every log "
            "delivery to start exactly there, in a prefix of the current history, never after an interrupted replay; the position the "
            "real output holds after each round is compared with the Lean `step` (line `tgt`). "
            "distinct_nontrivial = distinct (backend, stored id class, cache id class, cache shape, stored-vs-cache, backlog, branch, "
            "full, delivered) combinations",
    "trusted": [
        "Redis's PSYNC admission rule (replication.c masterTryPartialResynchronization / syncCommand) as transcribed in "
        "Model/Psync.lean `admitPsync` and, independently, in the Go source double `vf6Source.admit`; +CONTINUE/+FULLRESYNC/$len framing",
        "source double, recording output and channel proxy in harness/overlay/syncer/vf_c06_test.go",
    ],
    "assumptions": [
        "CacheOK: bytes the cache holds under its run id are that id's history on the range it reports (provided by C05/C08); "
        "CacheWF: a cached log starts at the cached snapshot's offset and data exists only under a real id (D15's gap image is C08's)",
        "Truthful (the stored position describes what the target holds) is an invariant proved for every sequence of connections, "
        "interrupted replays, restarts and source changes of the repaired code (truthful_initially / _preserved / _source_change), "
        "assuming the sender stores exactly the offset of the last command it applied (C01/C07) and a source's new run id is new. "
        "The older label-based theorem keeps StoredCompat: a resume position stored under the previous id while the cache is already labelled with the current id lies "
        "in the shared prefix. syncMeta compares the stored id only with the set {id1,id2}; theorem storedCompat_needed shows the "
        "conclusion fails without it; the harness generates the combination, compares it with the model and counts it "
        "(storedcompat_excluded) instead of judging it. The tool re-keys the target's label in the same syncMeta call that relabels "
        "the cache, so it does not produce the state from consistent bookkeeping (stale/re-keyed checkpoints are C17's subject)",
        "the output side is a recording double: output.StartPoint supplies the stored position, output.SetRunId records the id "
        "(RedisOutput.StartPoint/SetRunId -> GetCheckpoint/UpdateCheckpoint re-keying is C17/C07's subject)",
        "single cache directory per input (the disk store can hold directories of several ids; only the one matching the source ids "
        "first is modelled); ids compare case-sensitively (Redis uses strcasecmp on hex ids)",
        "syncMeta/SendPSync/channel query API are hand-written models tied by correspondence (not regenerated); the skeleton they "
        "transcribe (syncMeta's if-conditions and pSync arguments, its channel/output calls, SendPSync's offset statements) is "
        "re-extracted each run and compared with the expectation in checks/p/C06.py",
        "a run that ends before anything is delivered (store.NewRdbReader losing the race against the snapshot writer's rename, "
        "seen ~1/500 disk full syncs) is repeated from scratch by the harness (stat aborted_attempts_repeated); a deterministic abort "
        "survives the repeats and is reported as run-aborted",
    ],
    "partial": [],
}

MANIFEST = {
    "text": "Lean theorems over ALL source states, stored positions, cache descriptions (both backends) and histories: after syncMeta + "
            "writer/reader start the output receives either log bytes starting exactly at the stored offset, all equal to the current "
            "history, with CONTINUE granted and the consumed prefix in the current history, or one complete snapshot (the source's on "
            "FULLRESYNC, a cached one only under CONTINUE without clearing) of a history agreeing below its offset; request offset = "
            "writer start + 1; never a later start; run id and cache label always the source's current id; nothing of the old cache "
            "survives clearLocal/FULLRESYNC; the cache invariant is re-established for the next connection; the run never aborts. "
            "The model (syncMeta decision table, SendPSync, channel query/maintenance API of both backends, Redis admission rule) is "
            "tied to the code by differential correspondence of the real RedisInput.run against a RESP source double, plus an "
            "independent end-to-end byte monitor.",
    "note": "trusted: Lean kernel (propext, Classical.choice, Quot.sound only), Redis PSYNC admission rule transcription, source double; "
            "assumes CacheOK (C05/C08) and StoredCompat (stored label vs cache label, shown necessary)",
    "technique": "Lean 4 proof (decision-table case analysis into three outcome specifications, omega) + differential correspondence "
                 "over loopback + end-to-end monitor",
}
