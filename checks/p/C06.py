EXPECTED_FACTS = {
    "c06_channel_calls": [
        "syncMeta: ri.channel.StartPoint(inputIds)",
        "syncMeta: ri.channel.IsValidOffset(Offset{RunId: locSp.RunId, Offset: outSp.Offset})",
        "syncMeta: ri.channel.GetRdb(locSp.RunId)",
        "syncMeta: ri.channel.GetOffsetRange(locSp.RunId)",
        "syncMeta: ri.channel.DelRunId(ri.channel.RunId())",
        "syncMeta: ri.channel.RunId()",
        "syncMeta: ri.channel.SetRunId(sOffset.RunId)",
        "syncMeta: ri.output.ResetStartPoint(ctx, inputIds)",
        "syncMeta: ri.output.SetRunId(ctx, sOffset.RunId)",
        "syncData: ri.channel.NewRdbWriter(redisCli.Client().BufioReader(), offset, rdbSize)",
        "syncData: ri.channel.NewAofWritter(redisCli.Client().BufioReader(), offset)",
        "syncData: ri.channel.NewAofWritter(redisCli.Client().BufioReader(), offset)",
        "readChannel: ri.channel.NewReader(readerOffset.ToOffset())",
        "sendOutput: ri.output.ResetStartPoint(ctx, append([]string{reader.RunId()}, ri.RunIds()...))",
        "sendOutput: ri.output.Send(ctx, reader)"
    ],
    "c06_err_branches": [
        "syncMeta: id1, id2, err = redis.GetRunIds -> returns",
        "syncMeta: outSp, err = ri.getOutputStartPoint -> returns",
        "syncMeta: locSp, err = ri.channel.StartPoint -> falls through",
        "syncMeta: sOffset, isFullSync, rdbSize, err = ri.pSync -> returns",
        "syncMeta: sOffset, isFullSync, rdbSize, err = ri.pSync -> returns",
        "syncMeta: sOffset, isFullSync, rdbSize, err = ri.pSync -> returns",
        "syncMeta: sOffset, isFullSync, rdbSize, err = ri.pSync -> returns",
        "syncMeta: sOffset, isFullSync, rdbSize, err = ri.pSync -> returns",
        "syncMeta: sOffset, isFullSync, rdbSize, err = ri.pSync -> returns",
        "syncMeta: err = ri.channel.DelRunId -> returns",
        "syncMeta: err = ri.channel.SetRunId -> returns",
        "syncMeta: err = ri.output.ResetStartPoint -> returns",
        "syncMeta: err = ri.output.SetRunId -> returns",
        "fetchInput: redisCli, err := ri.newRedisConn -> returns",
        "fetchInput: isFullSync, rdbSize, locSp, outSp, err := ri.syncMeta -> returns",
        "syncData: if isFullSync { inputStateGauge.Set -> returns",
        "readChannel: ri.logger.Debugf -> returns",
        "sendOutput: err := ri.output.ResetStartPoint -> returns"
    ],
    "c06_flow_ifs": [
        "fetchInput: !ri.rdbLimiterAcquire(wait.Done())",
        "syncData: isFullSync",
        "syncData: wait.IsClosed()",
        "syncData: isFullSync",
        "syncData: aofWriter == nil",
        "readChannel: wait.IsClosed()",
        "sendOutput: wait.IsClosed()",
        "sendOutput: !reader.IsAof()"
    ],
    "c06_handoff_stores": [
        "sendRdb: return ro.setCheckpoint(ctx, reader.RunId(), reader.Left(), config.Version)",
        "ResetStartPoint: ro.checkpointInMem = checkpoint.CheckpointInfo{Key: ro.cfg.CheckpointName, RunId: \"?\", Offset: -1, Version: config.Version}",
        "setCheckpoint: ro.checkpointInMem = *checkpointKv",
        "sendCmdsBatch: ro.checkpointInMem.Offset = lastOffset"
    ],
    "c06_psync_args": [
        "locSp.ToOffset()",
        "outSp.ToOffset()",
        "outSp.ToOffset()",
        "locSp.ToOffset()",
        "synSp.ToOffset()",
        "synSp.ToOffset()"
    ],
    "c06_sendpsync_offset": [
        "if offset >= 0",
        "offset += 1",
        "err := sr.cli.SendAndFlush(\"psync\", runid, strconv.FormatInt(offset, 10))",
        "sr.cli.SendAndFlush(\"psync\", runid, strconv.FormatInt(offset, 10))",
        "return runid, offset - 1, nil, nil",
        "runid, offset := xx[1], v",
        "return runid, offset, sr.waitRdbDump(), nil"
    ],
    "c06_syncmeta_ifs": [
        "slices.Contains(inputIds, outSp.RunId) && slices.Contains(inputIds, locSp.RunId)",
        "ri.channel.IsValidOffset(Offset{RunId: locSp.RunId, Offset: outSp.Offset})",
        "!isFullSync",
        "slices.Contains(inputIds, outSp.RunId)",
        "!isFullSync",
        "slices.Contains(inputIds, locSp.RunId) && outSp.IsInitial()",
        "locRdbLeft != -1 && locRdbSize != -1",
        "!isFullSync",
        "isFullSync",
        "sOffset.RunId != id1",
        "isFullSync || clearLocal",
        "isFullSync",
        "isFullSync",
        "outSp.Offset <= 0"
    ]
}

PROP = {
    "lean_modules": ["GunYu.Props.C06", "GunYu.Props.C06Loop"],
    "audit_namespaces": ["GunYu.Props.C06"],
    "required_theorems": [
        "GunYu.Props.C06.outcome_continue_or_full",
        "GunYu.Props.C06.psync_offset_convention",
        "GunYu.Props.C06.never_beyond_stored",
        "GunYu.Props.C06.ids_within_source",
        "GunYu.Props.C06.no_cache_reuse_when_cleared",
        "GunYu.Props.C06.cache_consistent_after",
        "GunYu.Props.C06.delivers_something",
        "GunYu.Props.C06.storedCompat_needed",
        "GunYu.Props.C06.continues_what_the_target_holds",
        "GunYu.Props.C06.truthful_preserved",
        "GunYu.Props.C06.truthful_source_change",
        "GunYu.Props.C06.truthful_initially",
        "GunYu.Props.C06.truthful_cache_change",
        "GunYu.Props.C06.reach_inv",
        "GunYu.Props.C06.reach_safe",
        "GunYu.Props.C06.reach_after_failed_meta",
        "GunYu.Props.C06.reach_example",
        "GunYu.Props.C06.reach_never_streams_onto_dirty",
        "GunYu.Props.C06.snapshot_not_behind",
        "GunYu.Props.C06.storedCompat_not_invariant",
        "GunYu.Props.C06.reset_on_full_needed",
        "GunYu.Props.C06.no_relabel_at_start_needed",
        # collector (C05's models) and the Run() retry loop: Props/C06Loop.lean
        "GunYu.Props.C06.gc_keeps_disk",
        "GunYu.Props.C06.gc_keeps_memory",
        "GunYu.Props.C06.disk_log_is_written",
        "GunYu.Props.C06.mem_log_is_written",
        "GunYu.Props.C06.loop_gc_disk",
        "GunYu.Props.C06.loop_gc_memory",
        "GunYu.Props.C06.attempt_inv",
        "GunYu.Props.C06.corrupted_inv",
        "GunYu.Props.C06.attempt_full_eq",
        "GunYu.Props.C06.mix_admits",
        "GunYu.Props.C06.stale_inv",
        "GunYu.Props.C06.loop_inv",
        "GunYu.Props.C06.loop_safe",
        "GunYu.Props.C06.loop_next_outcomes",
        "GunYu.Props.C06.loop_safe_stale",
        "GunYu.Props.C06.loop_example",
        "GunYu.Props.C06.loop_example_stale",
    ],
    "expected_facts": EXPECTED_FACTS,
    "harness": [{"name": "C06", "pkg": "./syncer/", "test": "TestVerifC06",
                 "timeout_quick": "10m", "timeout_thorough": "40m"},
                {"name": "C06b", "pkg": "./syncer/", "test": "TestVerifC06Bisync"}],
    "driver": "drv_C06",
    "rule": "one op per (re)connection: the real RedisInput.run (fetchInput, syncMeta, pSync/SendPSync, syncData, readChannel, "
            "sendOutput) with the real StoreChannel (pkg/store, temp dir) or MemoryChannel runs against a RESP source double on "
            "127.0.0.1 (PING, INFO replication, REPLCONF, PSYNC with Redis's masterTryPartialResynchronization rule, +CONTINUE [id], "
            "+FULLRESYNC id off, optional LF heartbeats, $len snapshot, stream bytes), a recording Output and a recording proxy "
            "around the Channel. Generated triples: source {no previous id | failover with previous id and switch offset} x backlog "
            "{from 1 | window | empty | lost}; stored position {'?' | current id | previous id | unknown id} x offset drawn from the "
            "interesting points (cache left/mid/right +-1, snapshot left/left-size, switch offset +-1, backlog first +-1, master +-1, "
            "0, random); cache {no label | label only | snapshot | log | snapshot+log} x label {current | previous | other} x range "
            "around the same points (incl. beyond the switch offset / beyond the master), built through the channel's own writers "
            "with PRF histories; disk caches optionally closed and reopened (process restart), small log segment sizes (rotation); "
            "1/3 of the cases continue with 1-2 follow-up connections in the same process (source advanced, backlog trimmed or lost, "
            "stored position moved). Compared per op with the Lean model: the cache's query API before the round, branch, PSYNC line "
            "received, reply, full/del/run id, writer and reader start, cache label/snapshot/range/latest afterwards, number of bytes "
            "delivered and the first 64. Monitor (independent Go oracle): stream => CONTINUE granted, start == stored offset, stored "
            "id served by the source, ALL delivered bytes == hist(id1) from the stored offset, stored prefix in the current history; "
            "snapshot => complete and either the one just sent (at the announced offset/size) or the cached one of a history agreeing "
            "below its offset and only with CONTINUE and without clearing; request offset == writer start + 1; log writer after "
            "FULLRESYNC at the announced offset; cache relabelled to id1 and read back == hist(id1). "
            "Every 8th case is a restart-in-window schedule run with the REAL RedisOutput bookkeeping (syncer.newOutput, StartPoint, "
            "SetRunId, ResetStartPoint, setCheckpoint / in-memory position; resume and non-resume mode) on the shared target double "
            "behind a TCP bridge: history A replayed to X, then (full-interrupted) the source becomes B (failover with switch offset, "
            "or unrelated), answers FULLRESYNC, the snapshot replay fails, the run / the process restarts; (restart-rekey) failover and "
            "syncer restart with the cache lost or kept; (cached-interrupted) a cached snapshot beyond the stored position is replayed, "
            "fails, the cache is lost. The monitor tracks what the target really holds (history, offset, dirty) and requires every log "
            "delivery to start exactly there, in a prefix of the current history, never after an interrupted replay; the position the "
            "real output holds after each round is compared with the Lean `step` (line `tgt`). "
            "Half of the window schedules use real replication streams (fixed-length SET commands) and real RDB files and run the REAL "
            "RedisOutput.Send (SendRdb, then SendAof/sendAof until everything is applied and the position stored): the snapshot-to-stream "
            "hand-off is judged on the target double's request log (exactly the two snapshot keys, then exactly the commands of the "
            "current history from the snapshot's / stored offset on, none missing, none twice) and the stored position is read back. "
            "Window kinds: full-interrupted, restart-rekey, cached-interrupted, failover-continue (stale label in in-memory mode). "
            "Every 16th case injects a fault into one bookkeeping call (output.ResetStartPoint 1st/2nd call, output.SetRunId, "
            "channel.DelRunId, channel.SetRunId): the run must end with an error and deliver nothing (monitor only). "
            "1/10 of the snapshot+log caches have a log that does not start at the snapshot's offset: on disk, and in memory when the "
            "log starts before the snapshot, that is outside CacheWF - there only the query API and the decision (q, meta) are compared "
            "and the property is not judged; in memory with the log starting after the snapshot (what the collector leaves) it is inside "
            "CacheWF and everything is compared and judged; every op carries wf=<SourceWF and CacheWF> computed on both sides. "
            "distinct_nontrivial = distinct (backend, stored id class, cache id class, cache shape, stored-vs-cache, backlog, branch, "
            "full, delivered) combinations",
    "trusted": [
        "Redis's PSYNC admission rule (replication.c masterTryPartialResynchronization / syncCommand) as transcribed in "
        "Model/Psync.lean `admitPsync` and, independently, in the Go source double `vf6Source.admit`; +CONTINUE/+FULLRESYNC/$len framing",
        "source double, recording output and channel proxy in harness/overlay/syncer/vf_c06_test.go",
    ],
    "assumptions": [
        "CacheOK (bytes the cache holds under the source's current id are the current history's on the range it reports; under the "
        "previous id the previous history's, or already the current one's) and CacheWF (on disk a cached log starts at the cached "
        "snapshot's offset, in memory not before it; data only under a real id) are hypotheses of the single-connection theorems and "
        "CONCLUSIONS of loop_inv / reach_inv for every state the loop reaches from the empty cache (attempts failing at any call, "
        "ErrCorrupted, stale INFO, source changes, collector passes). The collector is C05's (Model/Store.lean Disk.gc / Mem.gc, "
        "imported): Proofs/PsyncStore.lean computes what the channel reports of a C05 state (ofDisk / ofMem) and proves one pass is a "
        "`Collected` step for every state satisfying C05's invariants; gc_keeps_disk / gc_keeps_memory state it for every reachable "
        "state of C05's operation lists, disk_contig that the disk description has the log starting exactly at the snapshot, "
        "disk_log_is_written / mem_log_is_written (over C05's disk_refines / mem_refines) that the reported range is C05's abstract log "
        "and holds the bytes written. That the description the loop works on IS ofDisk/ofMem of the store it uses is the hypothesis "
        "of loop_gc_disk / loop_gc_memory (tied by the query-API correspondence of this check and by C05's); caches are also read "
        "back against hist(id1) after every round (cache-bytes)",
        "Truthful (the stored position describes what the target holds) is an invariant proved for every sequence of connections, "
        "interrupted replays, restarts and source changes of the repaired code (reach_inv / reach_safe: induction over init, connection with any ending in either mode, source change, cache loss or "
        "replacement, lost position; a restart in resume mode keeps the position and its label and is no transition), "
        "assuming the sender stores exactly the offset of the last command it applied (C01/C07) and a source's new run id is new. "
        "The older label-based theorem keeps StoredCompat: a resume position stored under the previous id while the cache is already labelled with the current id lies "
        "in the shared prefix. syncMeta compares the stored id only with the set {id1,id2}; theorem storedCompat_needed shows the "
        "conclusion fails without it; the harness generates the combination, compares it with the model and counts it "
        "(storedcompat_excluded) instead of judging it. The tool re-keys the target's label in the same syncMeta call that relabels "
        "the cache, so it does not produce the state from consistent bookkeeping (stale/re-keyed checkpoints are C17's subject)",
        "the output side is a recording double: output.StartPoint supplies the stored position, output.SetRunId records the id "
        "(RedisOutput.StartPoint/SetRunId -> GetCheckpoint/UpdateCheckpoint re-keying is C17/C07's subject)",
        "single cache directory per input (the disk store can hold directories of several ids; only the one matching the source ids "
        "first is modelled); ids compare case-sensitively (Redis uses strcasecmp on hex ids)",
        "syncMeta/SendPSync/channel query API are hand-written models tied by correspondence (not regenerated); the skeleton they "
        "transcribe (syncMeta's if-conditions and pSync arguments, its channel/output calls, SendPSync's offset statements) is "
        "re-extracted each run and compared with the expectation in checks/p/C06.py",
        "a run that ends before anything is delivered is repeated from scratch by the harness and counted by cause: "
        "aborted_attempt_store_rdbreader_rename_race = store.NewRdbReader (rdb_reader.go:39) sees neither x.rdb nor x.rdb.tmp while "
        "the snapshot writer renames (an offset reported valid is unreadable for a moment: C05's subject, reported there; ~1/500 disk "
        "full syncs); a deterministic abort survives the repeats and is reported as run-aborted",
        "harness waits are on explicit conditions (reader delivered, writer phase begun, everything stored, position stored) with a "
        "hard limit of 10 s; an attempt in which a limit was hit is discarded and the case repeated (stalled_attempts_repeated), its "
        "outcome never becomes compared output; only when the repeat hits the limit too the outcome is taken as the behaviour of the "
        "code (wait_limit_hit_on_every_attempt; after 3 such cases the limit drops to 1.5 s so that a broken build ends)",
        "collector on (MaxSize>0, small segments, both backends): monitor-only scenario gcloop (a replayed cached snapshot must be "
        "followed by the stream from its offset); bisync mode: bookkeeping-level probe TestVerifC06Bisync (session C06b) on the real "
        "RedisOutput (what StartPoint answers after a completed / an interrupted full resynchronisation with stale recovery state)",
    ],
    "partial": [
        "the retry loop and the collector are modelled and proved (Props/C06Loop.lean: Loop, loop_inv, loop_safe, loop_next_outcomes, "
        "loop_safe_stale); what remains outside the Lean model: an attempt whose INFO and PSYNC are answered by different sources is "
        "modelled for ONE failover in between (the answering source's previous id is the id INFO reported; `staleAttempt`, defined "
        "through the view `mix` whose admission is proved equal to the answering source's, mix_admits) and, for any other answering "
        "source under a new id, for the FULLRESYNC outcome (`fullBy`) - a source two failovers away that would still grant CONTINUE "
        "under an id INFO reported cannot exist in Redis (replid2 holds one id) and is not modelled; the loop's back-off and ErrBreak "
        "(timing, termination) are not modelled; the stale attempt and the stages of a failed attempt have no correspondence ops of "
        "their own (the fault-injection schedules and seed m1 exercise them, judged by the monitors only); several run-id directories "
        "in one disk store, diskless replies ($EOF:, $0), int64 wrap of offset+1, an error of channel.StartPoint (ignored by the "
        "code), faults in output.StartPoint (3 x 2 s retries); bisync mode beyond the bookkeeping probe (no bisync stream is replayed here)",
        "the truth of the target after a Send is set by the model (`afterSend`: .at id1 e) = the sender applies exactly the commands up "
        "to the offset it stores (C01/C07); tied here by the real-send window schedules on the target's request log",
    ],
}

MANIFEST = {
    "text": "Lean theorems over ALL source states, stored positions, cache descriptions (both backends) and histories: after syncMeta + "
            "writer/reader start the output receives either log bytes starting exactly at the stored offset, all equal to the current "
            "history, with CONTINUE granted, or one complete snapshot (the source's on FULLRESYNC, a cached one only under CONTINUE "
            "without clearing, never behind the stored position) of a history agreeing below its offset; request offset = writer start "
            "+ 1; never a later start; run id and cache label always the source's current id; nothing of the old cache survives "
            "clearLocal/FULLRESYNC; the run never aborts. Over EVERY sequence of connections (any ending, resume and in-memory mode), "
            "source changes, cache losses/replacements and lost positions (inductive `Reach`): the stored position stays truthful and a "
            "log is only ever continued exactly on top of what the target really holds, in a prefix of the current history "
            "(reach_inv, reach_safe). Over EVERY run of RedisInput.Run's retry loop (inductive `Loop`: attempts that fail after any call of "
            "syncMeta or later, ErrCorrupted -> DelRunId, +CONTINUE granted by a successor under another id than INFO reported, "
            "FULLRESYNC by any new source, collector passes of C05's disk and memory caches, source changes, cache and position losses) "
            "the same holds for the next attempt (loop_inv, loop_safe, loop_next_outcomes, loop_safe_stale; the collector keeps CacheWF "
            "including contiguity - equality on disk, snapshot-not-after-log in memory - and CacheOK: gc_keeps_disk, gc_keeps_memory). "
            "The model (decision table, SendPSync, channel API of both backends, Redis admission rule, the "
            "output's position bookkeeping) is tied to the code by differential correspondence of the real RedisInput.run against a "
            "RESP source double, by restart-in-window schedules with the real RedisOutput bookkeeping and the real RedisOutput.Send on "
            "the shared target double (hand-off judged on the target's request log), fault injection into the bookkeeping calls, an "
            "independent end-to-end byte monitor and a re-extracted source skeleton. Three defects found and fixed (07a0622, 23cb23d, 58997e8).",
    "note": "trusted: Lean kernel (propext, Classical.choice, Quot.sound only), Redis PSYNC admission rule transcription, source double, "
            "target double; CacheOK/CacheWF are invariants of the loop (loop_inv; the collector step is C05's, bridged in "
            "Proofs/PsyncStore.lean) and checked by read-back; the label-based outcome_continue_or_full additionally needs StoredCompat, which is NOT an invariant "
            "(storedCompat_not_invariant) - the label-free reach_safe needs no such hypothesis",
    "technique": "Lean 4 proof (decision-table case analysis into three outcome specifications, invariant by induction over an inductive "
                 "reachability relation, omega) + differential correspondence over loopback + real-output window schedules + fault "
                 "injection + end-to-end monitors",
}
