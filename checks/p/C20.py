PROP = {
    "lean_modules": ["GunYu.Props.C20", "GunYu.Props.C20Whole"],
    "audit_namespaces": ["GunYu.Props.C20"],
    "required_theorems": [
        "GunYu.Props.C20.replace_final",
        "GunYu.Props.C20.ignore_untouched",
        "GunYu.Props.C20.error_before_modify",
        "GunYu.Props.C20.replace_final_bisync",
        "GunYu.Props.C20.ignore_untouched_bisync",
        "GunYu.Props.C20.error_before_modify_bisync",
        "GunYu.Props.C20.absent_final",
        "GunYu.Props.C20.absent_final_bisync",
        "GunYu.Props.C20.snapshot_exp_abs",
        "GunYu.Props.C20.runPlain_append",
        "GunYu.Props.C20.bad_data_bisync_fails",
        "GunYu.Props.C20.retag_group",
        "GunYu.Props.C20.rewriteCmd_cmdKey",
        # whole runs (Props/C20Whole.lean)
        "GunYu.Props.C20.plain_runner",
        "GunYu.Props.C20.bisync_runner",
        "GunYu.Props.C20.resumed_is_whole",
        "GunYu.Props.C20.resumed_is_whole_bisync",
        "GunYu.Props.C20.whole_plain",
        "GunYu.Props.C20.whole_bisync",
        "GunYu.Props.C20.replace_whole",
        "GunYu.Props.C20.ignore_whole",
        "GunYu.Props.C20.error_whole_clean",
        "GunYu.Props.C20.error_whole_stop",
        "GunYu.Props.C20.replace_whole_bisync",
        "GunYu.Props.C20.ignore_whole_bisync",
        "GunYu.Props.C20.error_whole_clean_bisync",
        "GunYu.Props.C20.error_whole_stop_bisync",
        "GunYu.Props.C20.bad_data_whole_bisync",
        "GunYu.Props.C20.replace_whole_resumed",
        "GunYu.Props.C20.ignore_whole_resumed",
        "GunYu.Props.C20.error_whole_stop_resumed",
        "GunYu.Props.C20.whole_bisync_resumed",
        "GunYu.Props.C20.whole_worker_plain",
        "GunYu.Props.C20.whole_worker_bisync",
        "GunYu.Props.C20.replace_whole_worker",
        "GunYu.Props.C20.ignore_whole_worker",
        "GunYu.Props.C20.error_whole_stop_worker",
    ],
    "expected_facts": {},
    "harness": [
        {"name": "C20", "pkg": "./pkg/rdbrestore/", "test": "TestVerifC20"},
        {"name": "C20S", "pkg": "./syncer/", "test": "TestVerifC20Syncer"},
    ],
    "driver": "drv_C20",
    "rule": "cases = (snapshot of 1-4 keys: string (raw/int), linked list, set, zset, hash table; expiry none/past/future; "
            "written by the harness's RDB writer and parsed by the REAL rdb.Loader, chunk threshold production/1/4..30 bytes so "
            "hash values split into 1..7 chunks) x (policy replace/ignore/error) x (restore on/off, bulk limit large or 5..40 "
            "bytes, target version 4/7) x (any subset of the keys pre-populated on the target double with the same or another "
            "type - string, list, hash, set, zset, RESTOREd blob - with or without TTL, plus keys not in the snapshot and the "
            "same name in the other DB); corpus (D7/D21 witnesses) first, then an exhaustive scope of 1404 single-key cases "
            "(5 types x 7 prior kinds x TTL x 3 snapshot expiries x 3 policies x restore x chunking), then seeded random cases. "
            "C20: the real RdbReplay.Replay per entry on one connection (mode plain, per-entry outcome lines); "
            "C20S: the real worker loops rdbReplay (wplain) and rdbReplayBisync = buildBisyncRdbReplayUnit+execBisyncRdbUnit "
            "(bisync), two DBs. Everything runs in a testing/synctest bubble (time.Now fixed), against the shared target double. "
            "Compared line by line with the Lean model: every request in order (bisync marker canonicalised), outcome, final "
            "state class and absolute expiry of every snapshot/pre-existing key. Monitor (Go oracle, independent of the model): "
            "ignore => value/type/expiry of the existing key unchanged, no write request on it, no failure; error => replay fails "
            "with the key-exists error, nothing modified before; replace and fresh keys => final value (RESTORE payload recomputed "
            "from the generator's spec, or list order / hash map / set / zset content) and expiry equal the snapshot's; keys "
            "outside the snapshot untouched. Added after review: the target may answer 'Bad data format' to RESTORE for chosen keys "
            "(exhaustive 315-case scope + random); the same key NAME as a snapshot key of both DBs (exhaustive 96-case twin scope + "
            "random); the policy as a raw configured string ('', 'Ignore', 'ERROR', 'bogus', ...) passed through the REAL "
            "config.ReplayConfig.fix (overlay shim) while model/monitor use the documented meaning; keyExistsLog on in 1/5 of the "
            "cases; the bubble clock is 137 ms off a whole second and expiries are not multiples of 1000; the real SendRdb with 2-3 "
            "workers (plain and bidirectional, split values, empty key) under every policy with an order-free monitor; a client "
            "write between buildBisyncRdbReplayUnit's EXISTS probe and execBisyncRdbUnit's MULTI/EXEC (tg.Hook) on the RESTORE path. "
            "TargetDb (0..2) and TargetDbMap ({1->0}, {0->2,1->0}) in a quarter of the two-DB cases (monitor: value in the mapped DB, "
            "nothing in the unmapped one); keys that rewrite to the EMPTY key ({} , }{) under replaceHashTag; 'Bad data format' also "
            "inside the bidirectional unit's EXEC. Schedules of the parser vs the replay workers (they share the BinEntry objects): besides 'everything parsed first', the plain "
            "harness runs an INTERLEAVED schedule (entry n+1 parsed only after entry n was replayed; monitor: all bins of a value carry "
            "the key of its first bin) and the send mode a GATED source (the snapshot arrives in two parts with quiescence in between, "
            "every 2nd byte offset, tagged keys, split values, 1-2 workers). "
            "distinct_nontrivial = distinct cases with at least one pre-existing key",
    "trusted": [
        "Redis semantics of EXISTS/DEL/PEXPIRE/RESTORE[REPLACE]/BUSYKEY and of native data commands (create-or-append, TTL kept) "
        "as transcribed in Model/Restore.lean (objEffect) and as implemented by the target double pkg/vfdoubles",
        "the expansion of a chunk into commands and the DUMP payload are inputs here (their correctness is C03)",
    ],
    "assumptions": [
        "the chunks of one key reach the same replay worker in order (sendRdb routes by fnv(key); an entry with an EMPTY key is "
        "routed round-robin, so with replayRdbParallel > 1 a split value under the key \"\" would not satisfy this)",
        "no other writer touches the key between the probe and the writes (single replay worker per key)",
        "bidirectional replay: a RESTORE refused with 'Bad data format' inside the unit's EXEC fails the replay (err-bad) with "
        "nothing merged: modelled (buildUnit -> errBad), proved (bad_data_bisync_fails) and exercised (double's BadRestore inside EXEC)",
        "window between probe and write: exercised for the bidirectional RESTORE path only (BUSYKEY: ignore/error keep the concurrent "
        "value; under ignore the replay FAILS because the transaction batcher reports the BUSYKEY slot before "
        "validateBisyncRdbExecReplies' tolerance is reached - observation); on the expansion paths a key created inside the window "
        "would be merged into (needs WATCH/Lua, outside a minimal repair) - assumption 'no other writer on the key during its replay'",
        "entry shapes: Group/Value (first bin first, later bins same key, commands on the key - `cmdKey` takes the second argument "
        "for XGROUP) are hypotheses about loader output, not checked on real entries; since the second review streams (hand-built, "
        "with a consumer group, a pending entry and a consumer: XGROUP CREATE / XCLAIM), module values (type 7) and a 120-element "
        "list (pipelined expansion, flushed every 100) are generated: exhaustive scopes per mode + random cases",
        "replaceHashTag: modelled as replaying `retag e` (target key = key without its first '{' and first '}', key argument of the "
        "native commands rewritten) on both paths; exercised with tagged keys ({t}k, k{t}, a{k}z, }k{, {{k}}, {k, {}k, and {} / }{ which "
        "rewrite to the EMPTY key - D29), split "
        "values and the rewritten / the unrewritten name pre-populated (exhaustive 162-case scope per mode + 1/4 of the random cases)",
        "later chunks carry the key's expiry or none (Value.exp): holds for the loader before and after the D8 repair",
    ],
    "partial": [
        "snapshot level, what is left after the whole-run theorems (Props/C20Whole.lean: the run over a ++ b IS the run over a "
        "resumed over b - runPlain_split / runBisync_split, every split point, also between the chunks of one key; every key of a "
        "snapshot of pairwise distinct keys, every pre-existing key and every other cell accounted for, per policy, plain and "
        "bidirectional, one DB (whole_plain / whole_bisync and corollaries) and several DBs with the worker's SELECT "
        "(whole_worker_*: stated on runWorker, the function the harness compares the real loops with)): "
        "(a) TargetDb / TargetDbMap stay correspondence-only (the driver maps the entries' DBs before runWorker); "
        "(b) keyless entries (functions, AUX: db = -1) between the key groups are not in the whole-run statements (they are in the "
        "per-entry model and in the request diff); (c) the groups' keys (cells) must be pairwise distinct - two snapshot keys that "
        "rewrite to one target key, or two source DBs mapped to one target DB with one key name, are excluded, not decided",
        "replaceHashTag: the worker replays `retag e` - applied in the driver; proved only that retag keeps a key group a key group "
        "on the rewritten key (retag_group) and moves the command key (rewriteCmd_cmdKey); that the real code equals `replay (retag e)` "
        "is correspondence (D27, D28, D29 were found there)",
        "Group / Value (shape of loader output) are hypotheses about what rdb.Loader delivers (C03's subject), checked on the "
        "generated snapshots only through the request-by-request diff",
        "a module value that cannot take the RESTORE path (restore off / above the bulk limit / refused) fails the replay with "
        "'module object requires RESTORE replay' whatever the policy and whether or not the key exists (plain path: before the probe): "
        "modelled so (errModule), monitor: key unchanged; the policy theorems exclude it through Value",
        "expiry: snapshot_exp_abs covers tool clock = target clock and a future expiry only",
        "two snapshot keys that rewrite to the same target key ({a}b and ab) / two source DBs mapped onto one target DB with the same "
        "key name: the second meets the first as a pre-existing key; not generated, meaning left to the policy",
    ],
}

MANIFEST = {
    "text": "Lean theorems over ALL chunk lists of one key, ALL prior target states, ALL configurations: with replace the target ends "
            "with exactly the snapshot's value and expiry and nothing else changes; with ignore only the probe is sent - for every "
            "chunk - and the keyspace is unchanged; with error the replay stops after the probe with nothing modified; the same "
            "three for the bidirectional builder (skippedKey) + unit executor; fresh keys end with the snapshot value under any "
            "policy. WHOLE RUNS: the run over a ++ b is the run over a resumed over b from the remembered state and the target a left "
            "(every split point, also between the chunks of a key; plain and bidirectional); for a snapshot = any list of key groups "
            "with pairwise distinct keys, from any state and target: every key gets its policy's effect on what it held at the START "
            "(replace: snapshot value; ignore: kept / snapshot value; error: stop at the first held key, keys before it written, all "
            "else untouched; bidirectional: a payload the target cannot load stops the run there, nothing merged), every other cell "
            "untouched - one DB, and several DBs with the worker's SELECT (stated on runWorker). The models of RdbReplay.Replay, buildBisyncRdbReplayUnit/execBisyncRdbUnit and the two worker loops are tied "
            "to the real code by request-by-request correspondence against the target double with pre-populated keys; an "
            "independent Go monitor checks the property itself on the real code's final keyspace.",
    "note": "trusted: Lean kernel, transcribed Redis semantics of the few commands used, target double, harness; models of the "
            "REPAIRED code (D7, D21, D24, D25, D27, D28, D29 fixed)",
    "technique": "Lean 4 proof (induction over the chunk list, per-key object semantics, frame lemmas; generic induction over key groups for any runner that splits) + differential correspondence + monitor",
}
