PROP = {
    "lean_modules": ["GunYu.Props.C20", "GunYu.Props.C20Whole", "GunYu.Props.C20Rerun"],
    "audit_namespaces": ["GunYu.Props.C20"],
    "required_theorems": [
        "GunYu.Props.C20.replace_final",
        "GunYu.Props.C20.ignore_untouched",
        "GunYu.Props.C20.error_before_modify",
        "GunYu.Props.C20.replace_final_bisync",
        "GunYu.Props.C20.ignore_untouched_bisync",
        "GunYu.Props.C20.error_before_modify_bisync",
        "GunYu.Props.C20.absent_final",
        "GunYu.Props.C20.absent_final_bisync",
        "GunYu.Props.C20.snapshot_exp_abs",
        "GunYu.Props.C20.runPlain_append",
        "GunYu.Props.C20.bad_data_bisync_fails",
        "GunYu.Props.C20.retag_group",
        "GunYu.Props.C20.rewriteCmd_cmdKey",
        # whole runs (Props/C20Whole.lean)
        "GunYu.Props.C20.plain_runner",
        "GunYu.Props.C20.bisync_runner",
        "GunYu.Props.C20.resumed_is_whole",
        "GunYu.Props.C20.resumed_is_whole_bisync",
        "GunYu.Props.C20.whole_plain",
        "GunYu.Props.C20.whole_bisync",
        "GunYu.Props.C20.replace_whole",
        "GunYu.Props.C20.ignore_whole",
        "GunYu.Props.C20.error_whole_clean",
        "GunYu.Props.C20.error_whole_stop",
        "GunYu.Props.C20.replace_whole_bisync",
        "GunYu.Props.C20.ignore_whole_bisync",
        "GunYu.Props.C20.error_whole_clean_bisync",
        "GunYu.Props.C20.error_whole_stop_bisync",
        "GunYu.Props.C20.bad_data_whole_bisync",
        "GunYu.Props.C20.replace_whole_resumed",
        "GunYu.Props.C20.ignore_whole_resumed",
        "GunYu.Props.C20.error_whole_stop_resumed",
        "GunYu.Props.C20.whole_bisync_resumed",
        "GunYu.Props.C20.whole_worker_plain",
        "GunYu.Props.C20.whole_worker_bisync",
        "GunYu.Props.C20.replace_whole_worker",
        "GunYu.Props.C20.ignore_whole_worker",
        "GunYu.Props.C20.error_whole_stop_worker",
        # real streams (keyless entries between the groups), replaceHashTag
        "GunYu.Props.C20.whole_plain_stream",
        "GunYu.Props.C20.whole_bisync_stream",
        "GunYu.Props.C20.replace_whole_stream",
        "GunYu.Props.C20.ignore_whole_stream",
        "GunYu.Props.C20.whole_worker_plain_stream",
        "GunYu.Props.C20.retag_value",
        "GunYu.Props.C20.retagG_good",
        "GunYu.Props.C20.replace_whole_retag",
        # the RESTART of an interrupted full sync (Props/C20Rerun.lean)
        "GunYu.Props.C20.flat_cutGroups",
        "GunYu.Props.C20.rerun_replace_converges",
        "GunYu.Props.C20.rerun_replace_converges_bisync",
        "GunYu.Props.C20.rerun_ignore_keeps_partial",
        "GunYu.Props.C20.rerun_error_stuck",
    ],
    "expected_facts": {},
    "harness": [
        {"name": "C20", "pkg": "./pkg/rdbrestore/", "test": "TestVerifC20"},
        {"name": "C20S", "pkg": "./syncer/", "test": "TestVerifC20Syncer"},
    ],
    "driver": "drv_C20",
    "rule": "cases = (snapshot of 1-4 keys: string (raw/int), linked list, set, zset, hash table; expiry none/past/future; "
            "written by the harness's RDB writer and parsed by the REAL rdb.Loader, chunk threshold production/1/4..30 bytes so "
            "hash values split into 1..7 chunks) x (policy replace/ignore/error) x (restore on/off, bulk limit large or 5..40 "
            "bytes, target version 4/7) x (any subset of the keys pre-populated on the target double with the same or another "
            "type - string, list, hash, set, zset, RESTOREd blob - with or without TTL, plus keys not in the snapshot and the "
            "same name in the other DB); corpus (D7/D21 witnesses) first, then an exhaustive scope of 1404 single-key cases "
            "(5 types x 7 prior kinds x TTL x 3 snapshot expiries x 3 policies x restore x chunking), then seeded random cases. "
            "C20: the real RdbReplay.Replay per entry on one connection (mode plain, per-entry outcome lines); "
            "C20S: the real worker loops rdbReplay (wplain) and rdbReplayBisync = buildBisyncRdbReplayUnit+execBisyncRdbUnit "
            "(bisync), two DBs. Everything runs in a testing/synctest bubble (time.Now fixed), against the shared target double. "
            "Compared line by line with the Lean model: every request in order (bisync marker canonicalised), outcome, final "
            "state class and absolute expiry of every snapshot/pre-existing key. Monitor (Go oracle, independent of the model): "
            "ignore => value/type/expiry of the existing key unchanged, no write request on it, no failure; error => replay fails "
            "with the key-exists error, nothing modified before; replace and fresh keys => final value (RESTORE payload recomputed "
            "from the generator's spec, or list order / hash map / set / zset content) and expiry equal the snapshot's; keys "
            "outside the snapshot untouched. Added after review: the target may answer 'Bad data format' to RESTORE for chosen keys "
            "(exhaustive 315-case scope + random); the same key NAME as a snapshot key of both DBs (exhaustive 96-case twin scope + "
            "random); the policy as a raw configured string ('', 'Ignore', 'ERROR', 'bogus', ...) passed through the REAL "
            "config.ReplayConfig.fix (overlay shim) while model/monitor use the documented meaning; keyExistsLog on in 1/5 of the "
            "cases; the bubble clock is 137 ms off a whole second and expiries are not multiples of 1000; the real SendRdb with 2-3 "
            "workers (plain and bidirectional, split values, empty key) under every policy with an order-free monitor; a client "
            "write between buildBisyncRdbReplayUnit's EXISTS probe and execBisyncRdbUnit's MULTI/EXEC (tg.Hook) on the RESTORE path. "
            "TargetDb (0..2) and TargetDbMap ({1->0}, {0->2,1->0}) in a quarter of the two-DB cases (monitor: value in the mapped DB, "
            "nothing in the unmapped one); keys that rewrite to the EMPTY key ({} , }{) under replaceHashTag; 'Bad data format' also "
            "inside the bidirectional unit's EXEC. Schedules of the parser vs the replay workers (they share the BinEntry objects): besides 'everything parsed first', the plain "
            "harness runs an INTERLEAVED schedule (entry n+1 parsed only after entry n was replayed; monitor: all bins of a value carry "
            "the key of its first bin) and the send mode a GATED source (the snapshot arrives in two parts with quiescence in between, "
            "every 2nd byte offset, tagged keys, split values, 1-2 workers). "
            "distinct_nontrivial = distinct cases with at least one pre-existing key",
    "trusted": [
        "Redis semantics of EXISTS/DEL/PEXPIRE/RESTORE[REPLACE]/BUSYKEY and of native data commands (create-or-append, TTL kept) "
        "as transcribed in Model/Restore.lean (objEffect) and as implemented by the target double pkg/vfdoubles",
        "the expansion of a chunk into commands and the DUMP payload are inputs here (their correctness is C03)",
    ],
    "assumptions": [
        "the chunks of one key reach the same replay worker in order (sendRdb routes by fnv(key); an entry with an EMPTY key is "
        "routed round-robin, so with replayRdbParallel > 1 a split value under the key \"\" would not satisfy this)",
        "no other writer touches the key between the probe and the writes (single replay worker per key)",
        "bidirectional replay: a RESTORE refused with 'Bad data format' inside the unit's EXEC fails the replay (err-bad) with "
        "nothing merged: modelled (buildUnit -> errBad), proved (bad_data_bisync_fails) and exercised (double's BadRestore inside EXEC)",
        "window between probe and write: exercised for the bidirectional RESTORE path only (BUSYKEY: ignore/error keep the concurrent "
        "value; under ignore the replay FAILS because the transaction batcher reports the BUSYKEY slot before "
        "validateBisyncRdbExecReplies' tolerance is reached - observation); on the expansion paths a key created inside the window "
        "would be merged into (needs WATCH/Lua, outside a minimal repair) - assumption 'no other writer on the key during its replay'",
        "entry shapes: Group/Value (first bin first, later bins same key, commands on the key - `cmdKey` takes the second argument "
        "for XGROUP) are hypotheses about loader output, not checked on real entries; since the second review streams (hand-built, "
        "with a consumer group, a pending entry and a consumer: XGROUP CREATE / XCLAIM), module values (type 7) and a 120-element "
        "list (pipelined expansion, flushed every 100) are generated: exhaustive scopes per mode + random cases",
        "replaceHashTag: modelled as replaying `retag e` (target key = key without its first '{' and first '}', key argument of the "
        "native commands rewritten) on both paths; exercised with tagged keys ({t}k, k{t}, a{k}z, }k{, {{k}}, {k, {}k, and {} / }{ which "
        "rewrite to the EMPTY key - D29), split "
        "values and the rewritten / the unrewritten name pre-populated (exhaustive 162-case scope per mode + 1/4 of the random cases)",
        "RESTART of an interrupted full sync (no checkpoint -> a fresh worker replays the snapshot from entry 0 on the target the "
        "first attempt left): the property's sentence quantifies over 'all prior target contents' - the leftovers of a dead attempt "
        "are prior content like any other, and the rerun must (and does: scenario exhaustive-rerun, 216 cuts incl. between the chunks "
        "of one key, real rdbReplay / rdbReplayBisync / RdbReplay twice on one target double, request diff against the model's rerun + "
        "the policy monitor started from the target the first attempt left) handle them as the policy says. Consequences, proved "
        "(Props/C20Rerun.lean) and OBSERVED on the real code (counters observed_rerun_*): replace - the rerun converges to the "
        "snapshot (rerun_replace_converges); ignore - a chunked key the dead attempt wrote only partly is KEPT truncated and the "
        "rerun reports success (rerun_ignore_keeps_partial; corpus/C20/rerun_ignore_partial.txt); error - every rerun stops with "
        "key-exists on the first key the dead attempt wrote (rerun_error_stuck). Not a violation of this property (each full sync "
        "treats the keys it FINDS as configured; the documentation says no more than 'ignore preserves pre-existing target keys'), "
        "but an operational hazard of ignore/error with non-atomic chunked values: reported, not listed as a finding",
        "later chunks carry the key's expiry or none (Value.exp): holds for the loader before and after the D8 repair",
    ],
    "partial": [
        "snapshot level, what is left after the whole-run theorems (Props/C20Whole.lean: one worker; the run over a ++ b is the "
        "run over a CONTINUED over b by the same loop - runPlain_split / runBisync_split, every split point; every key of a snapshot of "
        "pairwise distinct keys, every pre-existing key and every other cell accounted for, per policy, plain and bidirectional, one "
        "DB and several DBs with the worker's SELECT; keyless entries (AUX fields - which carry the DB of their place in the file, "
        "loader.go:151, and make the worker SELECT - and function libraries, db = -1) may stand ANYWHERE in the stream: "
        "whole_*_stream, runPlain_strip / runBisync_strip / runWG_strip): "
        "(a) TargetDb / TargetDbMap stay correspondence-only (the driver maps the entries' DBs before runWorker); the worker's "
        "filter branch (FilterDb before SELECT, key/slot filters after) is not in runWorker; "
        "(b) whole_worker_bisync has no *_stream form (the plain worker has); "
        "(c) the groups' keys (cells) must be pairwise distinct AFTER DB mapping and key rewriting - TargetDb >= 0 with one key "
        "name in two source DBs, a non-injective TargetDbMap, {a}b + ab under replaceHashTag (routed by the SOURCE key, possibly to "
        "two workers) are excluded, not decided; a foreign file with a key twice is not refused by the parser; "
        "(d) one worker: nothing composes N concurrent workers on one keyspace (under `error` the other workers go on writing "
        "until the cancel reaches them: 'every other cell untouched' is this worker's cells); one `now` for the whole run",
        "replaceHashTag: the worker replays `retag e` - applied in the driver; proved that retag keeps a GOOD key group good on the "
        "rewritten key (retag_group + retag_value, given every command has its key argument: args non-empty, XGROUP with >= 2) and "
        "hence replace_whole_retag (Nodup of the REWRITTEN keys); that the real code equals `replay (retag e)` is correspondence "
        "(D27, D28, D29 were found there)",
        "Group / Value (shape of loader output) are hypotheses about what rdb.Loader delivers (C03's subject), checked on the "
        "generated snapshots only through the request-by-request diff",
        "a module value that cannot take the RESTORE path (restore off / above the bulk limit / refused) fails the replay with "
        "'module object requires RESTORE replay' whatever the policy and whether or not the key exists (plain path: before the probe): "
        "modelled so (errModule), monitor: key unchanged; the policy theorems exclude it through Value",
        "expiry: snapshot_exp_abs covers tool clock = target clock and a future expiry only",
        "two snapshot keys that rewrite to the same target key ({a}b and ab) / two source DBs mapped onto one target DB with the same "
        "key name: the second meets the first as a pre-existing key; not generated, meaning left to the policy",
    ],
}

MANIFEST = {
    "text": "Lean theorems over ALL chunk lists of one key, ALL prior target states, ALL configurations: with replace the target ends "
            "with exactly the snapshot's value and expiry and nothing else changes; with ignore only the probe is sent - for every "
            "chunk - and the keyspace is unchanged; with error the replay stops after the probe with nothing modified; the same "
            "three for the bidirectional builder (skippedKey) + unit executor; fresh keys end with the snapshot value under any "
            "policy. WHOLE RUNS: the run over a ++ b is the run over a CONTINUED over b (the same loop) from the remembered state and the target a left "
            "(every split point, also between the chunks of a key; plain and bidirectional); for a snapshot = any list of key groups "
            "with pairwise distinct keys (after DB mapping and key rewriting), keyless entries anywhere between, from any state and target: every key gets its policy's effect on what it held at the START "
            "(replace: snapshot value; ignore: kept / snapshot value; error: stop at the first held key, keys before it written, all "
            "else untouched; bidirectional: a payload the target cannot load stops the run there, nothing merged), every other cell "
            "untouched - one DB, and several DBs with the worker's SELECT (stated on runWorker). RESTART (fresh worker, entry 0, the "
            "target a dead first attempt left; cut at any entry): replace converges to the snapshot; ignore keeps a partly written "
            "chunked key truncated and succeeds; error is stuck on the first written key - proved and run on the real code. The models of RdbReplay.Replay, buildBisyncRdbReplayUnit/execBisyncRdbUnit and the two worker loops are tied "
            "to the real code by request-by-request correspondence against the target double with pre-populated keys; an "
            "independent Go monitor checks the property itself on the real code's final keyspace.",
    "note": "trusted: Lean kernel, transcribed Redis semantics of the few commands used, target double, harness; models of the "
            "REPAIRED code (D7, D21, D24, D25, D27, D28, D29 fixed)",
    "technique": "Lean 4 proof (induction over the chunk list, per-key object semantics, frame lemmas; generic induction over key groups for any runner that splits) + differential correspondence + monitor",
}
