PROP = {
    "lean_modules": ["GunYu.Model.Restore"],
    "audit_namespaces": ["GunYu.Props.C20"],
    "required_theorems": [],
    "expected_facts": {},
    "harness": [{"name": "C20", "pkg": "./pkg/rdbrestore/", "test": "TestVerifC20"}],
    "driver": "drv_C20",
    "rule": "wip",
    "trusted": [],
    "assumptions": [],
    "partial": [],
}
MANIFEST = {"text": "wip", "note": "wip", "technique": "Lean 4 proof + differential correspondence"}
