PROP = {
    "lean_modules": ["GunYu.Props.C20", "GunYu.Props.C20Whole", "GunYu.Props.C20Rerun", "GunYu.Props.C20Worker",
                     "GunYu.Props.C20Collide", "GunYu.Props.C20Conc",
                     "GunYu.Props.C20Expiry", "GunYu.Props.C20Loader", "GunYu.Props.C20Dist",
                     "GunYu.Props.C20Fnv", "GunYu.Props.C20Empty", "GunYu.Props.C20Sys"],
    "audit_namespaces": ["GunYu.Props.C20"],
    "required_theorems": [
        "GunYu.Props.C20.replace_final",
        "GunYu.Props.C20.ignore_untouched",
        "GunYu.Props.C20.error_before_modify",
        "GunYu.Props.C20.replace_final_bisync",
        "GunYu.Props.C20.ignore_untouched_bisync",
        "GunYu.Props.C20.error_before_modify_bisync",
        "GunYu.Props.C20.absent_final",
        "GunYu.Props.C20.absent_final_bisync",
        "GunYu.Props.C20.snapshot_exp_abs",
        "GunYu.Props.C20.runPlain_append",
        "GunYu.Props.C20.bad_data_bisync_fails",
        "GunYu.Props.C20.retag_group",
        "GunYu.Props.C20.rewriteCmd_cmdKey",
        # whole runs (Props/C20Whole.lean)
        "GunYu.Props.C20.plain_runner",
        "GunYu.Props.C20.bisync_runner",
        "GunYu.Props.C20.resumed_is_whole",
        "GunYu.Props.C20.resumed_is_whole_bisync",
        "GunYu.Props.C20.whole_plain",
        "GunYu.Props.C20.whole_bisync",
        "GunYu.Props.C20.replace_whole",
        "GunYu.Props.C20.ignore_whole",
        "GunYu.Props.C20.error_whole_clean",
        "GunYu.Props.C20.error_whole_stop",
        "GunYu.Props.C20.replace_whole_bisync",
        "GunYu.Props.C20.ignore_whole_bisync",
        "GunYu.Props.C20.error_whole_clean_bisync",
        "GunYu.Props.C20.error_whole_stop_bisync",
        "GunYu.Props.C20.bad_data_whole_bisync",
        "GunYu.Props.C20.replace_whole_resumed",
        "GunYu.Props.C20.ignore_whole_resumed",
        "GunYu.Props.C20.error_whole_stop_resumed",
        "GunYu.Props.C20.whole_bisync_resumed",
        "GunYu.Props.C20.whole_worker_plain",
        "GunYu.Props.C20.whole_worker_bisync",
        "GunYu.Props.C20.replace_whole_worker",
        "GunYu.Props.C20.ignore_whole_worker",
        "GunYu.Props.C20.error_whole_stop_worker",
        # real streams (keyless entries between the groups), replaceHashTag
        "GunYu.Props.C20.whole_plain_stream",
        "GunYu.Props.C20.whole_bisync_stream",
        "GunYu.Props.C20.replace_whole_stream",
        "GunYu.Props.C20.ignore_whole_stream",
        "GunYu.Props.C20.whole_worker_plain_stream",
        "GunYu.Props.C20.retag_value",
        "GunYu.Props.C20.retagG_good",
        "GunYu.Props.C20.replace_whole_retag",
        # the RESTART of an interrupted full sync (Props/C20Rerun.lean)
        "GunYu.Props.C20.flat_cutGroups",
        "GunYu.Props.C20.rerun_replace_converges",
        "GunYu.Props.C20.rerun_replace_converges_bisync",
        "GunYu.Props.C20.rerun_ignore_keeps_partial",
        "GunYu.Props.C20.rerun_error_stuck",
        # session 4: the worker loop as it is in the code (filters, TargetDb / TargetDbMap, replaceHashTag inside the model)
        "GunYu.Props.C20.whole_worker_bisync_stream",
        "GunYu.Props.C20.stream_targetGroups",
        "GunYu.Props.C20.mapG_good",
        "GunYu.Props.C20.whole_workerF_plain",
        "GunYu.Props.C20.whole_workerF_bisync",
        "GunYu.Props.C20.filtered_untouched",
        "GunYu.Props.C20.replace_whole_workerF",
        "GunYu.Props.C20.ignore_whole_workerF",
        "GunYu.Props.C20.seq_worker_plain_stream",
        "GunYu.Props.C20.seq_worker_bisync_stream",
        "GunYu.Props.C20.seq_workerF_plain",
        "GunYu.Props.C20.seq_workerF_bisync",
        # two source cells on one target cell, decided (Props/C20Collide.lean)
        "GunYu.Props.C20.seq_workerF",
        "GunYu.Props.C20.collide_replace_last_wins",
        "GunYu.Props.C20.collide_ignore_keeps",
        "GunYu.Props.C20.collide_ignore_first_wins",
        "GunYu.Props.C20.collide_error_stops",
        # N workers on one keyspace, any interleaving (Props/C20Conc.lean)
        "GunYu.Props.C20.route_keyed",
        "GunYu.Props.C20.group_one_worker",
        "GunYu.Props.C20.route_same_target_key",
        "GunYu.Props.C20.queueOf_sublist",
        "GunYu.Props.C20.mem_queueOf",
        "GunYu.Props.C20.queueOf_only",
        "GunYu.Props.C20.conc_boundary",
        "GunYu.Props.C20.conc_quiescent",
        "GunYu.Props.C20.conc_halted_frozen",
        "GunYu.Props.C20.conc_is_one_worker",
        # after the fourth review
        "GunYu.Props.C20.seqW_workerF",
        "GunYu.Props.C20.replace_whole_workerF_bisync",
        "GunYu.Props.C20.ignore_whole_workerF_bisync",
        "GunYu.Props.C20.entryNoFail_of_good",
        "GunYu.Props.C20.no_worker_cancels",
        "GunYu.Props.C20.stream_take",
        "GunYu.Props.C20.conc_held_unchanged",
        "GunYu.Props.C20.conc_held_frozen",
        # session 5: expiry in full (clock skew, past expiry, boundary, lock-step clocks), module values (Props/C20Expiry.lean)
        "GunYu.Props.C20.exp_path_independent",
        "GunYu.Props.C20.exp_none",
        "GunYu.Props.C20.exp_skew",
        "GunYu.Props.C20.exp_eq_iff_clocks_agree",
        "GunYu.Props.C20.exp_past",
        "GunYu.Props.C20.exp_boundary",
        "GunYu.Props.C20.exp_never_persistent",
        "GunYu.Props.C20.exp_alive_on_arrival",
        "GunYu.Props.C20.exp_lockstep",
        "GunYu.Props.C20.exp_lockstep_crossed",
        "GunYu.Props.C20.replace_past_expiry",
        "GunYu.Props.C20.replace_no_expiry_clears_ttl",
        "GunYu.Props.C20.replace_past_expiry_bisync",
        "GunYu.Props.C20.module_no_restore_plain",
        "GunYu.Props.C20.module_no_restore_bisync",
        "GunYu.Props.C20.module_bad_plain",
        "GunYu.Props.C20.module_restore_plain",
        # session 5: Group / Value discharged from C03's loader model (Props/C20Loader.lean)
        "GunYu.Props.C20.loader_hash_group_value",
        "GunYu.Props.C20.loader_plain_group",
        "GunYu.Props.C20.loader_plain_value",
        "GunYu.Props.C20.loader_string_value",
        "GunYu.Props.C20.plain_cmds_onKey",
        "GunYu.Props.C20.hash_cmds_onKey",
        "GunYu.Props.C20.replace_final_loader",
        "GunYu.Props.C20.fnv32a_eq",
        "GunYu.Props.C20.ttl_eq",
        "GunYu.Props.C20.stripTag_eq",
        # session 5: the distributor with bounded pipes, a failed worker (Props/C20Dist.lean)
        "GunYu.Props.C20.dist_conserves",
        "GunYu.Props.C20.taken_prefix",
        "GunYu.Props.C20.taken_all",
        "GunYu.Props.C20.pipes_bounded",
        "GunYu.Props.C20.blocked_send_full",
        "GunYu.Props.C20.take_enabled",
        "GunYu.Props.C20.abort_after_cancel",
        "GunYu.Props.C20.no_deadlock",
        "GunYu.Props.C20.error_surfaces",
        # session 5, second part: distributor x workers as ONE system refining Sys (Props/C20Sys.lean)
        "GunYu.Props.C20.wstep_addQ",
        "GunYu.Props.C20.step_abs",
        "GunYu.Props.C20.close_all",
        "GunYu.Props.C20.move_refines",
        "GunYu.Props.C20.absC_init",
        "GunYu.Props.C20.csys_refines",
        "GunYu.Props.C20.csys_boundary",
        "GunYu.Props.C20.csys_held_unchanged",
        "GunYu.Props.C20.csys_send_respects_cap",
        # an empty collection (Props/C20Empty.lean), FNV-1a/32 (Props/C20Fnv.lean)
        "GunYu.Props.C20.empty_replace_absent",
        "GunYu.Props.C20.empty_fresh_absent",
        "GunYu.Props.C20.fnv32a_is_fnv1a32",
        "GunYu.Props.C20.fnv32a_lt",
        # dimension audit: the clocks per chunk, the key expiring on the target between the chunks
        "GunYu.Props.C20.chunk_never_persistent",
        "GunYu.Props.C20.chunks_never_persistent",
    ],
    "expected_facts": {
        "c20_distribute": '{ var v0 *rdb.BinEntry var v1 bool var v2 uint32 for { select { case v0, v1 = <-rdbPipe: if !v1 { return nil } if v0.Err != nil { return v0.Err } if v0.Done { fullDone.Store(true) return nil } if useBisyncGlobalLane && ro.bisyncRdbIsGlobalEntry(v0) { select { case globalPipe <- v0: case <-ctx.Done(): return ctx.Err() } continue } if len(v0.Key) > 0 || (v0.ObjectParser != nil && v0.ObjectParser.Type() != rdb.RdbObjectFunction) { v3 := v0.Key if ro.cfg.ReplaceHashTag { v3 = bytes.Replace(v3, []byte("{"), []byte(""), 1) v3 = bytes.Replace(v3, []byte("}"), []byte(""), 1) } v2 = util.FnvHash(v3) % pipeLen } else { v2 = (v2 + 1) % pipeLen } select { case pipes[v2] <- v0: case <-ctx.Done(): return ctx.Err() } case <-ctx.Done(): return ctx.Err() } } }',
        "c20_workers": 'for i := 0; i < ro.cfg.ReplayRdbParallel; i++ { pp := pipes[i] usync.SafeGo(func() { if ro.bisyncEnabled() { errChan <- ro.rdbReplayBisync(ctx, reader.RunId(), reader.Left(), pp) return } errChan <- ro.rdbReplay(ctx, pp) }, func(i interface{}) { errChan <- fmt.Errorf("panic: %v", i) }) }',
        "c20_route": 'if len(v0.Key) > 0 || (v0.ObjectParser != nil && v0.ObjectParser.Type() != rdb.RdbObjectFunction) { v3 := v0.Key if ro.cfg.ReplaceHashTag { v3 = bytes.Replace(v3, []byte("{"), []byte(""), 1) v3 = bytes.Replace(v3, []byte("}"), []byte(""), 1) } v2 = util.FnvHash(v3) % pipeLen } else { v2 = (v2 + 1) % pipeLen }',
        "c20_loop_plain": 'select { case e, ok = <-pipe: if !ok { return nil } if e.Err != nil { return e.Err } if e.Done { return nil } case <-ctx.Done(): return nil } ;; filterOut := false ;; if ro.outFilter.FilterDb(int(e.DB)) { filterOut = true } else { if tdb, ok := ro.selectDB(currentDB, int(e.DB)); ok { currentDB = tdb err = redis.SelectDB(cli, uint32(currentDB)) if err != nil { return err } } if ro.outFilter.FilterKey(util.BytesToString(e.Key)) || ro.outFilter.FilterSlot(util.BytesToString(e.Key)) || ro.bisyncNsFilter.FilterKey(util.BytesToString(e.Key)) || ro.bisyncRdbTargetReserved(e.Key) { filterOut = true } } ;; if filterOut { ro.rdbFilterCounterAdd(1) } else { ro.rdbSendCounterAdd(1) err := replay.Replay(e) if err != nil { return err } } ;; pingFn(filterOut)',
        "c20_loop_bisync": 'select { case e, ok := <-pipe: if !ok || e.Done { return nil } if e.Err != nil { return e.Err } filterOut := false if ro.outFilter.FilterDb(int(e.DB)) { filterOut = true } else { if tdb, ok := ro.selectDB(currentDB, int(e.DB)); ok { currentDB = tdb if err := redispkg.SelectDB(cli, uint32(currentDB)); err != nil { return err } } if ro.outFilter.FilterKey(string(e.Key)) || ro.outFilter.FilterSlot(string(e.Key)) || isBisyncNamespaceKey(string(e.Key)) || ro.bisyncRdbTargetReserved(e.Key) { filterOut = true } } if filterOut { ro.rdbFilterCounterAdd(1) continue } unit, skip, err := ro.buildBisyncRdbReplayUnit(cli, fullSyncOffset, e, state) if err != nil { return err } if skip || unit == nil { continue } ro.rdbSendCounterAdd(1) if err := ro.execBisyncRdbUnit(cli, runID, unit); err != nil { return err } case <-ctx.Done(): return nil }',
        "c20_selectDB": '{ if originDB == -1 { return currentDB, false } targetDB := originDB if ro.cfg.TargetDb != -1 { targetDB = ro.cfg.TargetDb } else if tdb, ok := ro.cfg.TargetDbMap[originDB]; ok { targetDB = tdb } return targetDB, targetDB != currentDB }',
        # process-global state the anchors reach (none is assigned by them: a trailing `=` would say so)
        "c20_globals": 'execBisyncRdbUnit: config.Version ;; rdbFilterCounterAdd: rdbKeyFilterCounter ;; rdbSendCounterAdd: rdbKeySendCounter ;; restoreBigRdbEntry: ErrRestoreRdb ;; restoreOnce: ErrRestoreRdb ;; sendRdb: config.RdbPipeSize config.Version fullSyncProgress',
        "c20_fnv": '{ hash := fnv.New32a() hash.Write(data) return hash.Sum32() }',
    },
    "harness": [
        {"name": "C20", "pkg": "./pkg/rdbrestore/", "test": "TestVerifC20"},
        {"name": "C20S", "pkg": "./syncer/", "test": "TestVerifC20Syncer"},
    ],
    "driver": "drv_C20",
    "rule": "cases = (snapshot of 1-4 keys: string (raw/int), linked list, set, zset, hash table; expiry none/past/future; "
            "written by the harness's RDB writer and parsed by the REAL rdb.Loader, chunk threshold production/1/4..30 bytes so "
            "hash values split into 1..7 chunks) x (policy replace/ignore/error) x (restore on/off, bulk limit large or 5..40 "
            "bytes, target version 4/7) x (any subset of the keys pre-populated on the target double with the same or another "
            "type - string, list, hash, set, zset, RESTOREd blob - with or without TTL, plus keys not in the snapshot and the "
            "same name in the other DB); corpus (D7/D21 witnesses) first, then an exhaustive scope of 1404 single-key cases "
            "(5 types x 7 prior kinds x TTL x 3 snapshot expiries x 3 policies x restore x chunking), then seeded random cases. "
            "C20: the real RdbReplay.Replay per entry on one connection (mode plain, per-entry outcome lines); "
            "C20S: the real worker loops rdbReplay (wplain) and rdbReplayBisync = buildBisyncRdbReplayUnit+execBisyncRdbUnit "
            "(bisync), two DBs. Everything runs in a testing/synctest bubble (time.Now fixed), against the shared target double. "
            "Compared line by line with the Lean model: every request in order (bisync marker canonicalised), outcome, final "
            "state class and absolute expiry of every snapshot/pre-existing key. Monitor (Go oracle, independent of the model): "
            "ignore => value/type/expiry of the existing key unchanged, no write request on it, no failure; error => replay fails "
            "with the key-exists error, nothing modified before; replace and fresh keys => final value (RESTORE payload recomputed "
            "from the generator's spec, or list order / hash map / set / zset content) and expiry equal the snapshot's; keys "
            "outside the snapshot untouched. Added after review: the target may answer 'Bad data format' to RESTORE for chosen keys "
            "(exhaustive 315-case scope + random); the same key NAME as a snapshot key of both DBs (exhaustive 96-case twin scope + "
            "random); the policy as a raw configured string ('', 'Ignore', 'ERROR', 'bogus', ...) passed through the REAL "
            "config.ReplayConfig.fix (overlay shim) while model/monitor use the documented meaning; keyExistsLog on in 1/5 of the "
            "cases; the bubble clock is 137 ms off a whole second and expiries are not multiples of 1000; the real SendRdb with 2-3 "
            "workers (plain and bidirectional, split values, empty key) under every policy with an order-free monitor; a client "
            "write between buildBisyncRdbReplayUnit's EXISTS probe and execBisyncRdbUnit's MULTI/EXEC (tg.Hook) on the RESTORE path. "
            "TargetDb (0..2) and TargetDbMap ({1->0}, {0->2,1->0}) in a quarter of the two-DB cases (monitor: value in the mapped DB, "
            "nothing in the unmapped one); keys that rewrite to the EMPTY key ({} , }{) under replaceHashTag; 'Bad data format' also "
            "inside the bidirectional unit's EXEC. Schedules of the parser vs the replay workers (they share the BinEntry objects): besides 'everything parsed first', the plain "
            "harness runs an INTERLEAVED schedule (entry n+1 parsed only after entry n was replayed; monitor: all bins of a value carry "
            "the key of its first bin) and the send mode a GATED source (the snapshot arrives in two parts with quiescence in between, "
            "every 2nd byte offset, tagged keys, split values, 1-2 workers). "
            "SESSION 4. The driver maps nothing any more: TargetDb / TargetDbMap / replaceHashTag / the output filter (DB black list, "
            "key prefix black list incl. the reserved prefixes read from the real constants) are handed to the model's worker loop "
            "runWorkerF (Model/RestoreWorker.lean) and configured on the REAL RedisOutput (cfg.Filter -> NewRedisOutput -> outFilter). "
            "New scopes, all three one-worker modes and both send modes: exhaustive-collide (two snapshot keys on ONE target cell: "
            "TargetDb / non-injective TargetDbMap with one key name in two source DBs, {a}b0 + ab0 under replaceHashTag, a key twice "
            "in one DB; x policy x restore x value shapes incl. split values x cell held or not: 144 cases per mode), exhaustive-filter "
            "(DB black list / key prefixes x policy x restore x which cells are held x TargetDbMap; a filtered key as FIRST entry of "
            "its DB: 180 per mode), GenCollide in 1/6 of the random cases (third colliding key, filters on top, TTLs). Send modes: the "
            "real SendRdb with 2-4 workers, gated source, colliding pair hashing to different workers by SOURCE key. New monitors "
            "(Go, independent of the model): CheckSeq - the policy applied literally key after key to the target cell of every key that "
            "passes the filter (a key created by an earlier entry of this run IS an existing key): outcome, failing key, final value of "
            "every cell; CheckCells - the same per cell for N workers (exact under replace/ignore and under error without failure; "
            "under a failure: held cells untouched); CheckFiltered - a filtered key's own cell and the cell it would be mapped to "
            "unchanged and named by no request; key-on-two-connections - everything replayed to one target key comes from ONE "
            "connection. New ops: c20route (partition of the snapshot's keys over the workers as the real distributor made it - "
            "connection of the first request naming the key - against routeAll), c20fnv (util.FnvHash against fnv32a, 300 keys incl. "
            "the empty one). Source facts (extract/c20.go): the routing statement of distributeTask, the loop bodies of rdbReplay / "
            "rdbReplayBisync after the receive, selectDB, FnvHash. "
            "AFTER THE FOURTH REVIEW. Back-pressure: scope send-backpressure (72 runs: 14-16 keys incl. split hashes, two DBs, a "
            "tagged pair on one target key, policy x 2-4 workers x config.RdbPipeSize = 1 or 2 entries per worker x replaceHashTag, the "
            "target double answering every request after 1 ms virtual time - tg.Hook): every send of the distributor meets a full "
            "pipe; judged by key-on-two-connections / c20route / CheckParallel / CheckCells. Source facts c20_distribute (the WHOLE "
            "closure, the send `pipes[idx] <- e` included) and c20_workers (worker i reads pipes[i]). PINS vs VIOLATIONS: on a "
            "collision cell (two snapshot keys replayed to it by configuration - outside the property's quantifier) the monitors do "
            "not judge WHICH value wins nor a stop caused by a key this run created, and key-on-two-connections is not raised for "
            "a colliding key: that behaviour is pinned by the correspondence (request diff of c20 for one worker; c20pin - what each "
            "cell ends with: nothing / the target's own / the value of snapshot key i / other, and the outcome, N workers against ONE "
            "worker of the model - and c20route, which prints `multi` for a key seen on two connections): a change shows as a broken "
            "tie (no-failing-input-found) naming the pinned reading. Still violations on a collision cell: a MERGED value "
            "(collide-merged: none of the snapshot values) and, under ignore / error, any change of a cell the target held. "
            "SESSION 5. Scope send-backpressure-fail (64 runs): a replay worker FAILS (policy error on a held key at stream position 0 / 3; a "
            "module value that cannot be RESTOREd, under replace / ignore) while 20+ entries are still to be distributed, pipes of 1-2 entries "
            "per worker (1-4 workers), slow target: the real SendRdb must RETURN - judged in VIRTUAL time (10 minutes of bubble clock with every "
            "goroutine blocked = what `sendrdb-hang`), with the WORKER's error (what `error-lost` / `error-not-raised`), held cells untouched; every "
            "back-pressure run now has the hang verdict. Scope exhaustive-expiry-boundary (108 per mode): expireAt = now, now + 1, now - 1 ms (the "
            "bubble clock stands still) x policy x restore x string / split hash x key absent / held / held with TTL, codes 3-5 also in the random "
            "generator. Keys that replaceHashTag rewrites INTO the tool's namespaces ({redis-gunyu-bisync:}x, {/redis-gunyu}y, "
            "redis-gunyu-{checkpoint}z): withheld by rdbReplayBisync (/repo f9044ee) and by rdbReplay (/repo e867911) - op token tres= -> the "
            "model's filterKey also asks the reserved prefixes of stripTag key; replayed only by RdbReplay.Replay called directly (mode plain). "
            "DIMENSION AUDIT (last round). Scope ladder (180 rows per mode wplain / bisync, compared with the model and judged by all monitors): "
            "policy x target holds nothing / the same type with a TTL / another type x path RESTORE / RESTORE refused (Bad data format) / "
            "restore off / split value / dump above MaxProtoBulkLen x key as it is / replaceHashTag / TargetDb / the EMPTY key, a second key "
            "behind. Scope ladder-fault: EVERY request of every row (EXISTS, DEL, RESTORE, RESTORE REPLACE, each native command, PEXPIRE, SELECT, "
            "MULTI, the marker SET, EXEC) meets a fault - an error reply that is neither BUSYKEY nor Bad data format (double: FailAt), the "
            "connection cut instead of the request (DropAt), the request executed and its reply lost (LoseReplyAt); quick: one kind per "
            "request (2366 runs), thorough: all three. Monitor CheckFault against the SAME case without the fault: the replay fails "
            "(fault-swallowed), the requests up to the fault are the clean run's (fault-prefix-differs), what follows continues the clean run "
            "and never reaches a LATER key (fault-continued), ignore / error leave a held key unchanged, a cell the clean run leaves alone "
            "is left alone (fault-touched). Scope expiry-between-chunks (52 per mode): a 4-chunk hash whose expiry lies 1..60 ms ahead, every "
            "request takes 1 ms and the target's clock RUNS (Case.Tick: the double expires keys during the run): the key expires on the "
            "target between its chunks / later chunks compute 'already past'; monitor CheckExpiryKept: a snapshot key with an expiry is "
            "never left PERSISTENT (expiry-lost). Counters cfg_<option>_<value> for every option that reaches the replay code "
            "(keyExists incl. raw strings, keyExistsLog, replayRdbEnableRestore, maxProtoBulkLen, redis version, replaceHashTag, targetDb, "
            "targetDbMap, replayRdbParallel, RdbPipeSize, dbBlacklist, key prefix black list, chunk threshold, bisync; source fact c20_globals: "
            "the package-level variables the anchor functions name - config.RdbPipeSize (drawn 1..8 and the default), config.Version, the "
            "metric counters shared by the N workers, ErrRestoreRdb; none is assigned by them), in_* (empty key, empty "
            "collection, expiry codes) and tgt_* (what the target holds, with / without TTL, in which DB, the empty key). "
            "distinct_nontrivial = distinct cases with at least one pre-existing key",
    "trusted": [
        "Redis semantics of EXISTS/DEL/PEXPIRE/RESTORE[REPLACE]/BUSYKEY and of native data commands (create-or-append, TTL kept) "
        "as transcribed in Model/Restore.lean (objEffect) and as implemented by the target double pkg/vfdoubles",
        "the expansion of a chunk into commands and the DUMP payload are inputs here (their correctness is C03)",
        "the output filter's decisions (FilterDb, FilterKey || FilterSlot || namespace filter) are inputs of the worker-loop model "
        "(their correctness is C10); Redis executes one request atomically and a connection's requests in order (the step of the "
        "concurrent model); a Go channel delivers in FIFO order",
    ],
    "assumptions": [
        "the chunks of one key - and everything else that is replayed to the same target key - reach the same replay worker in "
        "snapshot order: PROVED on the model of the distributor (group_one_worker, route_same_target_key, queueOf_sublist, "
        "mem_queueOf; route = fnv32a(key the entry is replayed to) mod n, the empty key included) and monitored on the real SendRdb "
        "(key-on-two-connections, c20route); SESSION 5: also with BOUNDED pipes and the distributor as a process of its own "
        "(Props/C20Dist.lean, dist_conserves: taken_i ++ pipe_i ++ still-to-route_i = queueOf i for every capacity and schedule; taken_prefix: "
        "a worker consumes a prefix of the pre-filled pipe of Sys; no_deadlock / abort_after_cancel: a failed worker's full pipe does not "
        "block the distributor for ever - the cancelled branch of its select is enabled - and error_surfaces); what is left as an assumption "
        "is that a Go channel is FIFO and that `select` takes an enabled branch",
        "no writer OUTSIDE the tool touches a key between the probe and the writes; that the tool's own other workers never "
        "matter is proved (conc_boundary)",
        "bidirectional replay: a RESTORE refused with 'Bad data format' inside the unit's EXEC fails the replay (err-bad) with "
        "nothing merged: modelled (buildUnit -> errBad), proved (bad_data_bisync_fails) and exercised (double's BadRestore inside EXEC)",
        "window between probe and write: exercised for the bidirectional RESTORE path only (BUSYKEY: ignore/error keep the concurrent "
        "value; under ignore the replay FAILS because the transaction batcher reports the BUSYKEY slot before "
        "validateBisyncRdbExecReplies' tolerance is reached - observation); on the expansion paths a key created inside the window "
        "would be merged into (needs WATCH/Lua, outside a minimal repair) - assumption 'no other writer on the key during its replay'",
        "entry shapes: Group/Value (first bin first, later bins same key, commands on the key - `cmdKey` takes the second argument "
        "for XGROUP) were hypotheses about loader output; SESSION 5: PROVED of C03's byte-level model of rdb.Loader (Props/C20Loader.lean: "
        "loader_hash_group_value - a hash table under ANY chunk threshold, no hypothesis left but the well-formedness of the file's key item; "
        "loader_plain_group / loader_plain_value - every non-split string / list / set / zset / hash encoding, Value given a non-empty "
        "expansion; streams: loader_stream_from_c03, contributed by C03's owner from execStream_onKey); what stays assumed is that C03's "
        "loader model IS the loader (C03's tie) and the module / function entry kinds; since the second review streams (hand-built, "
        "with a consumer group, a pending entry and a consumer: XGROUP CREATE / XCLAIM), module values (type 7) and a 120-element "
        "list (pipelined expansion, flushed every 100) are generated: exhaustive scopes per mode + random cases",
        "replaceHashTag: modelled as replaying `retag e` (target key = key without its first '{' and first '}', key argument of the "
        "native commands rewritten) on both paths; exercised with tagged keys ({t}k, k{t}, a{k}z, }k{, {{k}}, {k, {}k, and {} / }{ which "
        "rewrite to the EMPTY key - D29), split "
        "values and the rewritten / the unrewritten name pre-populated (exhaustive 162-case scope per mode + 1/4 of the random cases)",
        "RESTART of an interrupted full sync (no checkpoint -> a fresh worker replays the snapshot from entry 0 on the target the "
        "first attempt left): the property's sentence quantifies over 'all prior target contents' - the leftovers of a dead attempt "
        "are prior content like any other, and the rerun must (and does: scenario exhaustive-rerun, 216 cuts incl. between the chunks "
        "of one key, real rdbReplay / rdbReplayBisync / RdbReplay twice on one target double, request diff against the model's rerun + "
        "the policy monitor started from the target the first attempt left) handle them as the policy says. Consequences, proved "
        "(Props/C20Rerun.lean) and OBSERVED on the real code (counters observed_rerun_*): replace - the rerun converges to the "
        "snapshot (rerun_replace_converges); ignore - a chunked key the dead attempt wrote only partly is KEPT truncated and the "
        "rerun reports success (rerun_ignore_keeps_partial; corpus/C20/rerun_ignore_partial.txt); error - every rerun stops with "
        "key-exists on the first key the dead attempt wrote (rerun_error_stuck). Not a violation of this property (each full sync "
        "treats the keys it FINDS as configured; the documentation says no more than 'ignore preserves pre-existing target keys'), "
        "but an operational hazard of ignore/error with non-atomic chunked values: reported, not listed as a finding",
        "later chunks carry the key's expiry or none (Value.exp): holds for the loader before and after the D8 repair",
    ],
    "partial": [
        "snapshot level, what is left after the whole-run theorems. CLOSED in session 4: (a) TargetDb / TargetDbMap (selectDB) and "
        "the filter branch (FilterDb before SELECT, key filters after) are INSIDE the model's worker loop runWorkerF (stepF = the loop "
        "body); runWorkerF_eq reduces it to the plain loop over the mapped stream, whole_workerF_* / filtered_untouched state the "
        "policy per (mapped DB, rewritten key) and that filtered entries touch nothing; (b) whole_worker_bisync_stream; (c) the "
        "collisions are DECIDED, not excluded: seq_workerF_* need NO distinctness - outcome and keyspace of the real loop are the "
        "policy applied literally group after group (polSeq: a key an earlier entry of this run created is an existing key) - "
        "collide_replace_last_wins / collide_ignore_first_wins / collide_ignore_keeps / collide_error_stops, run on the real code "
        "(TargetDb, non-injective map, {a}b0+ab0, a key twice in one DB); the N-worker form of the hashtag collision was a genuine "
        "defect (D32, fixed 630424b); consequence reported, not a finding: under `error` a configuration that maps two source cells "
        "to one target cell can never complete a full sync, even on an empty target; (d) N workers on one keyspace: Sys / Sys.step / "
        "Sys.run (any schedule, one target request per step), conc_boundary (at every entry boundary of worker i the cells of its "
        "keys are what it ALONE makes of the entries it has taken), conc_quiescent, conc_is_one_worker (replace / ignore: N workers "
        "= one worker, cell by cell), conc_halted_frozen (after a worker has observed the cancel nothing of its keys changes). "
        "AFTER THE FOURTH REVIEW: the environment's moves are in Sys (Move.cancel = cancel() from the distributor's error or the "
        "parent context, Move.close = pipes closed after a prefix) and every conc_* theorem holds for schedules containing them; "
        "conc_quiescent / conc_is_one_worker ask for `no pipe cut` and `no cancel from outside`; that no WORKER raises the cancel "
        "under replace / ignore is PROVED (no_worker_cancels) - conc_is_one_worker no longer assumes it; the N-worker ignore / error "
        "corollary is proved (conc_held_unchanged: a held cell is as it was at every entry boundary of its worker; conc_held_frozen: "
        "and for ever once that worker has halted, e.g. observed the cancel); filtered_untouched needs no distinctness and no "
        "assumption on payloads (seqW_workerF + seqW_frame); replace/ignore_whole_workerF have bidirectional twins. "
        "STILL PARTIAL: between two entry boundaries of a worker (requests of one entry pending) the held-cell statement is not "
        "stated (the pending requests are probe-only or concern a cell found absent: argued, not proved); a worker never dies "
        "INSIDE an entry in Sys (WOK.halt: SELECT error -> `return err` before the entry, a connection error after DEL, "
        "NewRedisConn failing before the first entry are not modelled; since the dimension audit they are RUN: scope ladder-fault fails "
        "every request of the ladder, SELECT included, judged by CheckFault against the clean run - not by the model); TargetDb < -1: the model "
        "sends to DB 0, the real SELECT 4294967294 fails (config.fix does not exclude it); the PING of pingFn after 3 s of "
        "filtered entries is not modelled (no keyspace effect); the cluster global lane (rdbReplayBisyncGlobal / globalPipe: AUX and "
        "function entries bypass idx) is absent - keyless entries only; Req.marker has no keyspace effect in the model: the N "
        "workers' marker SETs hit shared control keys outside the snapshot's cells; a bidirectional unit's commands are applied "
        "one by one in Sys, Redis applies them at EXEC (more intermediate states, same cells by locality). "
        "The filter DECISIONS (FilterDb / FilterKey / FilterSlot / namespace filter) are parameters of the model "
        "(their correctness is C10); the harness configures DB black lists and key prefix black lists only (no white lists, no slot "
        "filters) and models them by the documented meaning; a TargetDb below -1 (SELECT fails) is not modelled; the concurrent model "
        "has pre-filled pipes and takes an entry, decides on the probe's answer and issues the SELECT in ONE step (the real "
        "schedules are among the modelled ones: argued in Model/RestoreWorker.lean, not proved against a finer model); "
        "conc_is_one_worker ASSUMES that no cancel was raised (that no entry fails under replace / ignore is the one-worker "
        "theorems' `out = ok`, not re-proved inside Sys); under `error` with a failure the cells of the OTHER workers are a prefix of "
        "their one-worker run (conc_boundary), which prefix is the scheduler's choice; that a worker's error makes SendRdb fail and "
        "writes no checkpoint is C04's; the interleavings the real code is RUN under are those the Go scheduler and the gated "
        "source produce (2-4 workers), not all; one `now` for the whole run; the target double does not expire keys while a run "
        "lasts (collision cases are generated with no / a future expiry)",
        "replaceHashTag: the worker replays `retag e` - now applied INSIDE the model's loop body (stepF); proved that retag keeps a GOOD key group good on the "
        "rewritten key (retag_group + retag_value, given every command has its key argument: args non-empty, XGROUP with >= 2) and "
        "hence replace_whole_retag (Nodup of the REWRITTEN keys); that the real code equals `replay (retag e)` is correspondence "
        "(D27, D28, D29 were found there)",
        "Group / Value (shape of loader output): CLOSED in session 5 for hash tables (any threshold), all non-split value kinds and streams "
        "by a bridge to C03's loader model (Props/C20Loader.lean, Props/C20StreamS5.lean; replace_final_loader = replace_final with no shape "
        "hypothesis); Value.ne for an EMPTY collection: DECIDED with the real loader (scope exhaustive-empty-collection: linked list / set / hash table of "
        "length 0 - the loader delivers one entry with an empty expansion; the tool sends EXISTS, DEL under replace on a held key, no data "
        "command, PEXPIRE on nothing) and proved (Props/C20Empty.lean: empty_replace_absent - the key is ABSENT afterwards whatever it held, "
        "empty_fresh_absent; ignore / error need Group only); the monitor's expectation for such a key is 'absent' (was: an empty object - a "
        "false alarm of the monitor, repaired); on the RESTORE path the payload is sent as it is (the double stores it; a real server's "
        "answer to an empty collection's payload is not modelled); STILL a hypothesis: module "
        "entries (no expansion at all: covered by the module theorems instead), the float rendering of ZADD scores is a parameter (`fmt`); "
        "the three separately transcribed functions are proved equal across the properties (fnv32a_eq, ttl_eq, stripTag_eq)",
        "a module value that cannot take the RESTORE path (restore off / above the bulk limit / refused) fails the replay with "
        "'module object requires RESTORE replay' whatever the policy and whether or not the key exists (plain path: before the probe): "
        "modelled so (errModule), monitor: key unchanged; SESSION 5: PROVED across the policies (Props/C20Expiry.lean: "
        "module_no_restore_plain - errModule, NO request, target unchanged, any policy, key held or not; module_no_restore_bisync - ignore "
        "skips / error stops on a held key first, errModule otherwise, at most the EXISTS probe, keyspace unchanged; module_bad_plain - payload "
        "refused: RESTORE [+ RESTORE REPLACE] without effect, key unchanged under every policy; module_restore_plain - the policy table on the "
        "RESTORE path) and run under back-pressure (a worker failing with err-module)",
        "expiry: CLOSED in session 5 (Props/C20Expiry.lean) - the two clocks are parameters (exp_skew: the absolute expiry is shifted by "
        "exactly the skew, the remaining lifetime is what the tool measured; exp_eq_iff_clocks_agree: equal clocks are NECESSARY for the "
        "snapshot's absolute expiry), past expiry and the boundary expireAt = now (exp_past, exp_boundary: 1 ms on the target's clock, never "
        "persistent - exp_never_persistent), both paths agree (exp_path_independent: RESTORE ttl / PEXPIRE - the code uses relative forms "
        "only, never PEXPIREAT / ABSTTL), clocks advancing in lock-step between the chunks of a value (exp_lockstep, exp_lockstep_crossed), "
        "replace_past_expiry / replace_no_expiry_clears_ttl; exercised: exhaustive-expiry-boundary. STILL PARTIAL: the code does not tell "
        "'expired at load time' from 'expired at replay time' (the loader drops nothing; one rule) - stated, not a policy choice of the "
        "model; the clocks are threaded through the CHUNKS of one value (chunksAt: every chunk its own tool clock and target clock, the "
        "target dropping an expired key before each chunk; chunk_never_persistent / chunks_never_persistent: whatever the clocks and wherever "
        "the key expires in between, a value whose every chunk carries the expiry is never left persistent - the invariant 'PEXPIRE only on "
        "the first bin' breaks) and exercised on the real code with a running target clock (expiry-between-chunks); runPlain / Sys still "
        "have one `now` (chunksAt is a per-key function beside them, not a refinement of them)",
        "bounded pipes / a failed worker: COMPOSED (Props/C20Sys.lean): CSys = the distributor with bounded pipes + the n workers of Sys on one "
        "keyspace (a worker on an empty OPEN pipe is blocked, everything else is Sys.step); csys_refines: for every capacity and schedule the "
        "abstraction of the state reached (each pipe completed by what the distributor still holds for it; Move.close on every pipe when the "
        "distributor leaves through the cancelled branch) is a state Sys reaches from Sys.init - keyspace, cancel flag and every worker field "
        "but `queue` are equal; conc_boundary / conc_held_unchanged are re-stated over CSys (csys_boundary, csys_held_unchanged). Not "
        "re-stated: conc_quiescent / conc_is_one_worker (they need 'every pipe fully consumed', i.e. Sys.cut = false = the distributor did not "
        "abort: follows from csys_refines + absC.cut = derr, not written out); the parser goroutine "
        "left blocked on its pipe after a failed SendRdb (rdb.ParseRdb has no context) is observed in every failing back-pressure run "
        "(counter observed_parser_goroutine_left_blocked_after_failed_sendrdb) - a goroutine leak per failed full sync, C04's subject, reported",
        "the disjunct bisyncRdbTargetReserved of BOTH worker loops (rdbReplayBisync: /repo f9044ee, rdbReplay: /repo e867911; token tres= in "
        "every mode that runs a worker loop - wplain, bisync, send, sendbisync; mode plain calls RdbReplay.Replay directly, which has no "
        "filter) is a function of the SOURCE key and therefore inside the "
        "model's parameter filterKey; its meaning (reserved prefixes of stripTag key, replaceHashTag on) is modelled in the driver and the "
        "harness's Filtered, its correctness is C10's / C13's",
        "fnv: the model's fnv32a is PROVED to be the public FNV-1a/32 written on machine words (Props/C20Fnv.lean: fnv1a32 on UInt32, offset "
        "basis 2166136261, prime 16777619, the published test vectors as examples; fnv32a_is_fnv1a32); the tie of util.FnvHash (hash/fnv "
        "New32a) to it is the correspondence op c20fnv (300 / 3000 random keys, the empty key). Source facts c20_distribute / c20_route are "
        "printed with the closure's locals alpha-renamed by declaration order (extract/c20.go c20Alpha): renaming a local no longer breaks "
        "the tie, statement order and def-use stay pinned",
        "gofn: nothing of C20 is regenerated by the translator - FnvHash is a hash/fnv library call, route / the policy switch / "
        "bisyncRdbUseRestore read interfaces (BinEntry.ObjectParser) and do I/O between the decisions: outside gofn's subset (asked for in "
        "the report: a stand-in for hash/fnv.New32a like sort.Search's, and method calls on an interface as opaque observations)",
        "two snapshot keys on one target key: see the first item (decided, generated, proved)",
    ],
}

MANIFEST = {
    "text": "Lean theorems over ALL chunk lists of one key, ALL prior target states, ALL configurations: with replace the target ends "
            "with exactly the snapshot's value and expiry and nothing else changes; with ignore only the probe is sent - for every "
            "chunk - and the keyspace is unchanged; with error the replay stops after the probe with nothing modified; the same "
            "three for the bidirectional builder (skippedKey) + unit executor; fresh keys end with the snapshot value under any "
            "policy. WHOLE RUNS: the run over a ++ b is the run over a CONTINUED over b (the same loop) from the remembered state and the target a left "
            "(every split point, also between the chunks of a key; plain and bidirectional); for a snapshot = any list of key groups "
            "with pairwise distinct keys (after DB mapping and key rewriting), keyless entries anywhere between, from any state and target: every key gets its policy's effect on what it held at the START "
            "(replace: snapshot value; ignore: kept / snapshot value; error: stop at the first held key, keys before it written, all "
            "else untouched; bidirectional: a payload the target cannot load stops the run there, nothing merged), every other cell "
            "[session 4: the same for the loop AS IT IS IN THE CODE - filter branch, TargetDb / TargetDbMap, replaceHashTag inside the model "
            "(runWorkerF): policy per (mapped DB, rewritten key), filtered entries touch nothing; WITHOUT the distinctness assumption the "
            "run is the policy applied literally group after group (a key created earlier in the run is an existing key): replace - the "
            "last of colliding keys wins, ignore - the first, error - the run stops; N workers in ANY interleaving: routing by the key an "
            "entry is replayed to puts everything of one target key on one worker in order (D32 fixed), each worker's cells are what it "
            "alone would make of its pipe, under replace / ignore N workers = one worker, after a worker observed the cancel its cells "
            "never change] "
            "[session 5: Group / Value PROVED of C03's loader model (hash tables under any chunk threshold, all non-split kinds, streams); the "
            "expiry in full - clock skew as a parameter, past expiry and expireAt = now (1 ms, never persistent), both paths, lock-step "
            "clocks; module values across the policies (errModule, key unchanged); the distributor with BOUNDED pipes: conservation for every "
            "capacity and schedule, no deadlock on a failed worker's full pipe, its error surfaces - run on the real SendRdb] "
            "untouched - one DB, and several DBs with the worker's SELECT (stated on runWorker). RESTART (fresh worker, entry 0, the "
            "target a dead first attempt left; cut at any entry): replace converges to the snapshot; ignore keeps a partly written "
            "chunked key truncated and succeeds; error is stuck on the first written key - proved and run on the real code. The models of RdbReplay.Replay, buildBisyncRdbReplayUnit/execBisyncRdbUnit and the two worker loops are tied "
            "to the real code by request-by-request correspondence against the target double with pre-populated keys; an "
            "independent Go monitor checks the property itself on the real code's final keyspace.",
    "note": "trusted: Lean kernel, transcribed Redis semantics of the few commands used, target double, harness; models of the "
            "REPAIRED code (D7, D21, D24, D25, D27, D28, D29 fixed)",
    "technique": "Lean 4 proof (induction over the chunk list, per-key object semantics, frame lemmas; generic induction over key groups for any runner that splits; refinement of the worker loop with filters / DB mapping to the plain loop; an invariant of the interleaved N-worker system: per-worker potential function + locality) + differential correspondence + monitors + source facts",
}
