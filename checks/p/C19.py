# source of the sender's retry/escalation decision code, as printed by harness/extract/c19.go;
# Model/ClusterSender.lean (sendFunc, recvFinal, direct) is its hand transcription: when this changes,
# revisit the Lean transcription first, then this expectation.
EXPECTED_SENDER_FACTS = {
    "c19_sendFunc": "{ maxRetries := 0 for { if recvFailed.Load() { <-replayWait.Done() if err := replayWait.Error(); err != nil { return err } return errors.New(\"a pipelined batch failed\") } err := sendFuncOnce(shouldInTransaction, shouldUpdateCP, lastOffset) if err == nil { return err } if replayWait.IsClosed() { return err } maxRetries++ if errors.Is(err, common.ErrMove) || errors.Is(err, common.ErrAsk) || errors.Is(err, common.ErrCrossSlots) { if ro.cfg.CanTransaction && ro.cfg.Redis.IsCluster() { return handleDirectError(err) } if maxRetries < 3 { replayWait.Sleep(1 * time.Second) continue } err = handleDirectError(err) ro.logger.Errorf(\"send error : error(%v), offset(%d)\", err, lastOffset) return err } else if isPipeline { if maxRetries < 3 { replayWait.Sleep(1 * time.Second) continue } ro.logger.Errorf(\"send error : error(%v), offset(%d)\", err, lastOffset) } return err } }",
    "c19_handleError": "{ recvFailed.Store(true) if errors.Is(err, common.ErrMove) || errors.Is(err, common.ErrAsk) || errors.Is(err, common.ErrCrossSlots) { if ro.cfg.CanTransaction && ro.cfg.Redis.IsCluster() { err = handleDirectError(err) } ro.logger.Errorf(\"send error : error(%v), offset(%d)\", err, bat.offset) } failCounter.Add(float64(bat.cmdCounter), ro.cfg.InputName) batchSendCounter.Add(1, ro.cfg.InputName, transactionLabel, \"error\") replayWait.Close(err) }",
    "c19_handleDirectError": "{ if errors.Is(err, common.ErrMove) || errors.Is(err, common.ErrAsk) { return errors.Join(ErrRedisTypologyChanged, err) } if errors.Is(err, common.ErrCrossSlots) { return errors.Join(ErrBreak, err) } return err }"
}

PROP = {
    "lean_modules": ["GunYu.Props.C19"],
    "audit_namespaces": ["GunYu.Props.C19"],
    "required_theorems": [
        "GunYu.Props.C19.per_key_order_partial",
        "GunYu.Props.C19.per_key_pending_after_executed",
        "GunYu.Props.C19.redirect_never_loses",
        "GunYu.Props.C19.unexecuted_blocks_ok",
        "GunYu.Props.C19.executed_at_owner",
        "GunYu.Props.C19.txn_mode_no_double_execution",
        "GunYu.Props.C19.txn_redirect_never_loses",
        "GunYu.Props.C19.txn_sequential_order",
        "GunYu.Props.C19.per_key_order_stmt_false",
        "GunYu.Props.C19.txn_cluster_redirect_sent_once",
        "GunYu.Props.C19.txn_blocking_sent_once",
        "GunYu.Props.C19.recv_path_reports",
        "GunYu.Props.C19.recv_failed_sends_nothing",
        "GunYu.Props.C19.acked_batch_executed_in_order",
        "GunYu.Props.C19.segments_never_skip",
        "GunYu.Props.C19.segments_effective_prefix",
        "GunYu.Props.C19.segments_executed_downward_closed",
        "GunYu.Props.C19.segments_replay_only_unstored",
        "GunYu.Props.C19.segments_no_replay_no_duplicate",
        "GunYu.Props.C19.segments_position_sound",
        "GunYu.Props.C19.segments_clean_final_equals_spec",
        "GunYu.Props.C19.stored_position_covered_blocking",
        "GunYu.Props.C19.stored_position_covered_pipelined_false",
        "GunYu.Props.C19.sender_sends_at_most_three",
    ],
    "expected_facts": EXPECTED_SENDER_FACTS,
    "harness": [{"name": "C19", "pkg": "./pkg/redis/client/cluster/", "test": "TestVerifC19",
                 "timeout_quick": "5m", "timeout_thorough": "30m"},
                {"name": "C19out", "pkg": "./syncer/", "test": "TestVerifC19Out",
                 "timeout_quick": "5m", "timeout_thorough": "30m"}],
    "driver": "drv_C19",
    "rule": "scenarios: corpus (defect witnesses, adversarial ping-pong) then generated: 3-4 node cluster double (one node optionally "
            "without slots), 2-4 hash tags x 1-3 keys, 2-6 batches; mode sync (Batch.Exec, sender-style retry of a failed batch) | "
            "pipe (batch2 Dispatch/Receive, window 1-3) | txn (txnBatcher.Exec) | txnpipe (Dispatch/Receive, window 1-4); "
            "single-key set/append/lpush/sadd/hset and two-key smove; migration schedule of setMigrating/migrateKey/finish/assign "
            "events placed between batches or at a global request count (during a batch); asynchronous topology refreshes "
            "(the real handleUpdate goroutine, parked in the double's CLUSTER SLOTS and released where the schedule says, also "
            "between two Puts of one batch) and synchronous ones (MOVED to an unknown node). One op = the global trace of one "
            "scenario; the Lean driver replays it through ClusterRoute.step/tstep (membership) and prints per-node sequences and "
            "per-key executed subsequences, the harness prints them from the double's own logs. Independent Go monitor: "
            "execution at the key's holder, per-key increasing order per run segment, acknowledged batch complete, no double "
            "execution in transactional mode. distinct_nontrivial = distinct traces containing at least one MOVED/ASK answer. "
            "Session C19out (syncer/vf_c19_test.go): the real RedisOutput.sendAof/sendCmdsBatch with client.NewRedis(cluster config) against "
            "the same double, transactional|plain x blocking|pipelined, BatchCmdCount 1-5, streams of 4-16 single-key commands, slots "
            "assigned/migrating from a chosen request count on, transactional batches spanning two nodes (client-side CROSSSLOT); real time; "
            "monitor on the double's execution log (no command twice in transactional mode, holder, per-key order and no gap, nothing lost "
            "when the run ends without a target error); tie: re-sends of the failing batch and final error class vs the Lean decision table "
            "ClusterSender.sendFunc / recvFinal for class x path (Exec/Dispatch vs pipelined receiver) x persistence of the error. C19out also: "
            "plain mode with redirect following switched off (real 1 s retry sleeps, 2 scenarios); injected faults on a stable cluster "
            "(-ERR reply, connection closed before / after the command was applied); the input is closed only when every command has "
            "executed or the run returned by itself (no real-time decision); the source of sendFunc/handleError/handleDirectError is pinned "
            "as extractor facts. Client harness also: modes stxn/stxnpipe (sender-style Put(multi)...Put(exec) through Batch/batch2, no "
            "redirect following), commands select/ping/publish, mset on one slot / two slots one node / two nodes, a command resolved only by "
            "COMMAND GETKEYS and one by the args[0] fallback; monitor put-silently-dropped; the driver evaluates QuietRun on every plain "
            "trace (`quiet` line, expected true for generated schedules); mode syncnf (blocking batches, redirect following off) with a "
            "STALLED node (the double holds what that node receives): monitor exec-returned-with-commands-in-flight - Exec must not return "
            "while another node of the batch still holds unprocessed commands (corpus failfast-exec.txt; the stall is lifted after 300 ms "
            "when Exec is still waiting, which is what the unchanged code does - the time never decides a verdict on a correct Exec). C19out resumable plain scenarios (checkpoint offset on the target): monitor "
            "checkpoint-ahead-of-execution (the largest stored offset covers a command that never took effect) with a trace-derived "
            "mechanism: offset-sent-after-failed-answer (fixed b47e97e: forced scenario nofollow-pipe, moved slot last in the stream, "
            "its node stalled until the sender is idle, client Close held until the write arrives) / offset-applied-before-failed-answer "
            "(cpbatch-block, cpbatch-pipe: data and checkpoint HSETs in one batch, data node stalled until the checkpoint node applied the "
            "offset, then -ERR); the `cause` of C19-F1 (D22) is set by the monitor only when the trace shows the mechanism",
    "trusted": [
        "Redis Cluster redirection rules as transcribed in Model/ClusterRoute.lean (answer, tanswer, applyMig) and in the cluster "
        "double vf_c19_double_test.go (getNodeByQuery: MOVED/ASK/ASKING/TRYAGAIN/CROSSSLOT, EXEC re-check over all queued keys, "
        "ASKING kept through MULTI); independent bitwise CRC16 for the double's slots",
        "each request is one atomic step of a node (Redis is single-threaded per command); the double serialises all nodes under "
        "one mutex and that order is the trace",
    ],
    "assumptions": [
        "sender retry/escalation (output.go sendFunc) is a hand transcription (Model/ClusterSender.lean), tied by correspondence of "
        "(re-sends, final error) per mode and error class plus the execution-log monitor; not regenerated from the source",
        "model is protocol-level and hand-written; tied by trace membership (every observed run must be a run of the model, node "
        "answers recomputed by the model) on sampled interleavings - goroutine scheduling and socket timing are the runtime's",
        "QuietRun: no node queue that still holds an unfollowed redirect of a key starts serving that key again inside the batch "
        "(A->B->A ping-pong); per_key_order_stmt_false shows the hypothesis is necessary for any pipelining client",
        "bytes already sent on an aborted connection are consumed by the node before the sender's retry (1 s back-off in output.go)",
        "the model's put admits only routes equal to those of unfinished commands of the same slot (repaired behaviour: D21 fixed, "
        "C19-F1 (D22) recorded finding); traces of the current code that violate it are reported as `reject route-split` by both sides",
    ],
    "partial": [
        "transactional + PIPELINED sender and a non-redirect error returned by Dispatch itself: sendFunc dispatches the batch again "
        "(example in Props/C19.lean: sendFunc <true,true> [other, ok] = 2 sends); no double execution follows only because batch2.Dispatch "
        "of a one-node batch fails before anything is submitted (Put error / closed node pipeline) - argued from the code, not proved, "
        "not reachable by the fault injection (faults surface at Receive)",
        "composition over segments (Model/ClusterSegments.lean) is proved for EVERY list of segments/events, but it is a bookkeeping "
        "automaton: what every event must satisfy is ASSUMED (guards of `step`: AppOK = within its range, nothing twice; Complete = an "
        "acknowledged batch executed everything, per group in order - the content of per_key_order_partial and the bridge "
        "acked_batch_executed_in_order) together with two named hypotheses: Disciplined (blocking discipline: a batch that was not "
        "acknowledged stores no position) and, for segments_never_skip / segments_executed_downward_closed, PrefixRun (fault model: a cut "
        "batch executes per group a prefix of its part; an out-of-order cut is a run of the automaton but not of the fault model - example "
        "in Props). Derived: restart-from-stored, position arithmetic, the REAL per-group log never skips across replays "
        "(segments_never_skip), the effective stream (keepLast: last execution of every command = final state for overwriting commands; "
        "says nothing about APPEND/INCR-style repetition, which the property allows only as replay after a lost acknowledgement). "
        "Disciplined holds for the BLOCKING modes on a cluster target, plain (4140441) and transactional (5c65a57: the position goes in a "
        "batch of its own after the data batch; before that the cluster client's dropping of MULTI/EXEC let it ride in the same pipeline - "
        "C19out forced scenario txn-block-resume keeps watching it); it does NOT hold for the pipelined modes (C19-F2). Not Lean lemmas: PrefixRun from ClusterRoute "
        "(with grp = key it should follow from per_key_order_partial; with grp = connection it is false under ASK), the identification of "
        "ClusterRoute ids/keys with stream positions/groups, byte offsets vs command indices - exercised by the C19out monitors",
        "pipelined modes: the composition statement is false (stored_position_covered_pipelined_false, decide-checked counter-witness "
        "= C19-F2; reorder = C19-F1); stored_position_covered_stmt is the full statement kept for them",
        "the transaction system T* models txnBatcher (used by bisync); the transactional path of sendCmdsBatch goes through Batch/batch2 with "
        "Put(multi)/Put(exec) that the cluster client drops (one-node constraint, no atomicity): covered by the PLAIN system on traces of the "
        "harness modes stxn/stxnpipe and by C19out, with no theorem of its own about the one-node constraint",
        "executed_at_owner is a lemma about the server model (a node only executes what it serves), unexecuted_blocks_ok and "
        "txn_mode_no_double_execution restate admissibility guards of the model through the bookkeeping invariants: the client's obligations "
        "are those guards, checked on the code by trace membership only",
        "liveness is out of scope: unbounded handleMove recursion, update() rejecting partial CLUSTER SLOTS coverage, delays beyond a read "
        "timeout (the cluster client of NewRedisCluster sets none)",
        "per_key_order: proved as per_key_order_partial under QuietRun; the unconditional statement is false in the model "
        "(per_key_order_stmt_false, ping-pong of a slot inside one pipeline)",
        "per-key order of pipelined transactions (txnpipe, window>1) is not a theorem: only sequential use (txn_sequential_order); "
        "C19-F1 (D22) shows it fails in the code",
        "multi-key commands: the model has single-key commands; TRYAGAIN/CROSSSLOT are the generic `err` answer (executes nothing, "
        "batch reports an error); checked on the code by the monitor only",
        "goroutine interleaving of per-node batches and socket timing are sampled by the tie, not enumerated",
    ],
}

MANIFEST = {
    "text": "Lean theorems over ALL event lists of a protocol-level transition system (cluster = owner/migrating/importing/atDst evolving by "
            "migration steps between or during batches; client slot map with asynchronous/synchronous refresh; per-node FIFO pipelines in any "
            "interleaving; MOVED/ASK(+ASKING)/error answers; sender retry segments): executed commands of each key are strictly increasing in "
            "source order per run segment (under the no-ping-pong hypothesis, shown necessary), every command of an acknowledged batch was "
            "executed by the slot owner or the ASK-designated importing node, an unexecuted command makes `ok` impossible, transactions execute "
            "at most once per run and in order when used sequentially. Tie: traces of the real client against a 3-4 node cluster double are "
            "replayed through the model (membership) and per-node/per-key sequences compared; an independent Go monitor checks the property on "
            "the double's execution log.",
    "note": "trusted: Lean kernel, Redis redirection rules (model + double), harness; model hand-written, tied by trace membership; "
            "QuietRun hypothesis; pipelined cross-batch reorder recorded as finding C19-F1 (D22)",
    "technique": "Lean 4 proof (invariants over a labelled transition system, induction on event lists) + trace-membership correspondence + runtime monitor",
}
