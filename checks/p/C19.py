PROP = {
    "lean_modules": ["GunYu.Props.C19"],
    "audit_namespaces": ["GunYu.Props.C19"],
    "required_theorems": [
        "GunYu.Props.C19.per_key_order_partial",
        "GunYu.Props.C19.per_key_pending_after_executed",
        "GunYu.Props.C19.redirect_never_loses",
        "GunYu.Props.C19.unexecuted_blocks_ok",
        "GunYu.Props.C19.executed_at_owner",
        "GunYu.Props.C19.txn_mode_no_double_execution",
        "GunYu.Props.C19.txn_redirect_never_loses",
        "GunYu.Props.C19.txn_sequential_order",
        "GunYu.Props.C19.per_key_order_stmt_false",
        "GunYu.Props.C19.txn_cluster_redirect_sent_once",
        "GunYu.Props.C19.sender_sends_at_most_three",
    ],
    "expected_facts": {},
    "harness": [{"name": "C19", "pkg": "./pkg/redis/client/cluster/", "test": "TestVerifC19",
                 "timeout_quick": "5m", "timeout_thorough": "30m"},
                {"name": "C19out", "pkg": "./syncer/", "test": "TestVerifC19Out",
                 "timeout_quick": "5m", "timeout_thorough": "30m"}],
    "driver": "drv_C19",
    "rule": "scenarios: corpus (defect witnesses, adversarial ping-pong) then generated: 3-4 node cluster double (one node optionally "
            "without slots), 2-4 hash tags x 1-3 keys, 2-6 batches; mode sync (Batch.Exec, sender-style retry of a failed batch) | "
            "pipe (batch2 Dispatch/Receive, window 1-3) | txn (txnBatcher.Exec) | txnpipe (Dispatch/Receive, window 1-4); "
            "single-key set/append/lpush/sadd/hset and two-key smove; migration schedule of setMigrating/migrateKey/finish/assign "
            "events placed between batches or at a global request count (during a batch); asynchronous topology refreshes "
            "(the real handleUpdate goroutine, parked in the double's CLUSTER SLOTS and released where the schedule says, also "
            "between two Puts of one batch) and synchronous ones (MOVED to an unknown node). One op = the global trace of one "
            "scenario; the Lean driver replays it through ClusterRoute.step/tstep (membership) and prints per-node sequences and "
            "per-key executed subsequences, the harness prints them from the double's own logs. Independent Go monitor: "
            "execution at the key's holder, per-key increasing order per run segment, acknowledged batch complete, no double "
            "execution in transactional mode. distinct_nontrivial = distinct traces containing at least one MOVED/ASK answer. "
            "Session C19out (syncer/vf_c19_test.go): the real RedisOutput.sendAof/sendCmdsBatch with client.NewRedis(cluster config) against "
            "the same double, transactional|plain x blocking|pipelined, BatchCmdCount 1-5, streams of 4-16 single-key commands, slots "
            "assigned/migrating from a chosen request count on, transactional batches spanning two nodes (client-side CROSSSLOT); real time; "
            "monitor on the double's execution log (no command twice in transactional mode, holder, per-key order and no gap, nothing lost "
            "when the run ends without a target error); tie: re-sends of the failing batch and final error class vs the Lean decision table "
            "ClusterSender.sendFunc",
    "trusted": [
        "Redis Cluster redirection rules as transcribed in Model/ClusterRoute.lean (answer, tanswer, applyMig) and in the cluster "
        "double vf_c19_double_test.go (getNodeByQuery: MOVED/ASK/ASKING/TRYAGAIN/CROSSSLOT, EXEC re-check over all queued keys, "
        "ASKING kept through MULTI); independent bitwise CRC16 for the double's slots",
        "each request is one atomic step of a node (Redis is single-threaded per command); the double serialises all nodes under "
        "one mutex and that order is the trace",
    ],
    "assumptions": [
        "sender retry/escalation (output.go sendFunc) is a hand transcription (Model/ClusterSender.lean), tied by correspondence of "
        "(re-sends, final error) per mode and error class plus the execution-log monitor; not regenerated from the source",
        "model is protocol-level and hand-written; tied by trace membership (every observed run must be a run of the model, node "
        "answers recomputed by the model) on sampled interleavings - goroutine scheduling and socket timing are the runtime's",
        "QuietRun: no node queue that still holds an unfollowed redirect of a key starts serving that key again inside the batch "
        "(A->B->A ping-pong); per_key_order_stmt_false shows the hypothesis is necessary for any pipelining client",
        "bytes already sent on an aborted connection are consumed by the node before the sender's retry (1 s back-off in output.go)",
        "the model's put admits only routes equal to those of unfinished commands of the same slot (repaired behaviour: D21 fixed, "
        "D22 recorded finding); traces of the current code that violate it are reported as `reject route-split` by both sides",
    ],
    "partial": [
        "per_key_order: proved as per_key_order_partial under QuietRun; the unconditional statement is false in the model "
        "(per_key_order_stmt_false, ping-pong of a slot inside one pipeline)",
        "per-key order of pipelined transactions (txnpipe, window>1) is not a theorem: only sequential use (txn_sequential_order); "
        "D22 shows it fails in the code",
        "multi-key commands: the model has single-key commands; TRYAGAIN/CROSSSLOT are the generic `err` answer (executes nothing, "
        "batch reports an error); checked on the code by the monitor only",
        "goroutine interleaving of per-node batches and socket timing are sampled by the tie, not enumerated",
    ],
}

MANIFEST = {
    "text": "Lean theorems over ALL event lists of a protocol-level transition system (cluster = owner/migrating/importing/atDst evolving by "
            "migration steps between or during batches; client slot map with asynchronous/synchronous refresh; per-node FIFO pipelines in any "
            "interleaving; MOVED/ASK(+ASKING)/error answers; sender retry segments): executed commands of each key are strictly increasing in "
            "source order per run segment (under the no-ping-pong hypothesis, shown necessary), every command of an acknowledged batch was "
            "executed by the slot owner or the ASK-designated importing node, an unexecuted command makes `ok` impossible, transactions execute "
            "at most once per run and in order when used sequentially. Tie: traces of the real client against a 3-4 node cluster double are "
            "replayed through the model (membership) and per-node/per-key sequences compared; an independent Go monitor checks the property on "
            "the double's execution log.",
    "note": "trusted: Lean kernel, Redis redirection rules (model + double), harness; model hand-written, tied by trace membership; "
            "QuietRun hypothesis; pipelined cross-batch reorder recorded as finding D22",
    "technique": "Lean 4 proof (invariants over a labelled transition system, induction on event lists) + trace-membership correspondence + runtime monitor",
}
