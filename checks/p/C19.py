# source of the sender's retry/escalation decision code, as printed by harness/extract/c19.go;
# Model/ClusterSender.lean (sendFunc, recvFinal, direct; put, dispatch) and Model/ClusterExec.lean (attStep, step:
# the position split, the reply loop of a node batch, Exec's return) are its hand transcription: when this
# changes, revisit the Lean transcription first, then this expectation.
EXPECTED_SENDER_FACTS = {
    "c19_sendFunc": "{ maxRetries := 0 for { if recvFailed.Load() { <-replayWait.Done() if err := replayWait.Error(); err != nil { return err } return errors.New(\"a pipelined batch failed\") } err := sendFuncOnce(shouldInTransaction, shouldUpdateCP, lastOffset) if err == nil { return err } if replayWait.IsClosed() { return err } maxRetries++ if errors.Is(err, common.ErrMove) || errors.Is(err, common.ErrAsk) || errors.Is(err, common.ErrCrossSlots) { if ro.cfg.CanTransaction && ro.cfg.Redis.IsCluster() { return handleDirectError(err) } if maxRetries < 3 { replayWait.Sleep(1 * time.Second) continue } err = handleDirectError(err) ro.logger.Errorf(\"send error : error(%v), offset(%d)\", err, lastOffset) return err } else if isPipeline { if maxRetries < 3 { replayWait.Sleep(1 * time.Second) continue } ro.logger.Errorf(\"send error : error(%v), offset(%d)\", err, lastOffset) } return err } }",
    "c19_handleError": "{ recvFailed.Store(true) if errors.Is(err, common.ErrMove) || errors.Is(err, common.ErrAsk) || errors.Is(err, common.ErrCrossSlots) { if ro.cfg.CanTransaction && ro.cfg.Redis.IsCluster() { err = handleDirectError(err) } ro.logger.Errorf(\"send error : error(%v), offset(%d)\", err, bat.offset) } failCounter.Add(float64(bat.cmdCounter), ro.cfg.InputName) batchSendCounter.Add(1, ro.cfg.InputName, transactionLabel, \"error\") replayWait.Close(err) }",
    "c19_handleDirectError": "{ if errors.Is(err, common.ErrMove) || errors.Is(err, common.ErrAsk) { return errors.Join(ErrRedisTypologyChanged, err) } if errors.Is(err, common.ErrCrossSlots) { return errors.Join(ErrBreak, err) } return err }",
    # session 4: the code Model/ClusterExec.lean (split, clientOk/chaseExec/fail/ack) and ClusterSender.put/dispatch transcribe
    "c19_positionSplit": "if !isPipeline && shouldUpdateCP && ro.cfg.EnableResumeFromBreakPoint && ro.cfg.Redis.IsCluster() && batcher.Len() > 0 { if shouldInTransaction { batcher.Put(\"exec\") } if _, err := batcher.Exec(); err != nil { return failed(err) } batcher = conn.NewBatcher(isPipeline) if shouldInTransaction { batcher.Put(\"multi\") } }",
    "c19_txnPipeFallback": "if ro.cfg.CanTransaction && ro.cfg.Redis.IsCluster() && !ro.bisyncEnabled() { ro.cfg.Redis.GetClusterOptions().HandleMoveErr = false ro.cfg.Redis.GetClusterOptions().HandleAskErr = false if ro.cfg.ReplayPipeline && ro.cfg.EnableResumeFromBreakPoint { ro.logger.Warnf(\"transactional replay to a cluster with resuming from the target : pipeline mode is switched off\") ro.cfg.ReplayPipeline = false } }",
    "c19_doBatch": "{ conn, err := batch.node.getConn() if err != nil { batch.err = err batch.done <- 1 return } exec := util.OpenCircuitExec{} for i := range batch.cmds { exec.Do(func() error { return conn.send(batch.cmds[i].cmd, batch.cmds[i].args...) }) } err = exec.Do(func() error { return conn.flush() }) if err != nil { batch.err = err conn.shutdown() batch.done <- 1 return } for i := range batch.cmds { reply, err := conn.receive() if err != nil { if err == common.ErrNil { continue } batch.err = err conn.shutdown() batch.done <- 1 return } reply, err = bat.cluster.handleReply(batch.node, reply, batch.cmds[i].cmd, batch.cmds[i].args...) if err != nil { batch.err = err conn.shutdown() batch.done <- 1 return } batch.cmds[i].reply, batch.cmds[i].err = reply, err } batch.node.releaseConn(conn) batch.done <- 1 }",
    "c19_receiveReply": "{ defer util.RecoverCallback(func(e interface{}) { batch.err = fmt.Errorf(\"panic : %v\", e) batch.done <- 1 }) if batch.request == nil { batch.err = ErrNoConnection batch.done <- 1 return } replies, err := batch.request.Wait() if err != nil { batch.err = err batch.done <- 1 return } for i := range batch.cmds { reply := replies[i] reply, err = bat.cluster.handleReply(batch.node, reply, batch.cmds[i].cmd, batch.cmds[i].args...) if err != nil { batch.err = err batch.done <- 1 return } batch.cmds[i].reply, batch.cmds[i].err = reply, err } batch.done <- 1 }",
    "c19_submit": "{ select { case <-p.closeCh: return fmt.Errorf(\"node pipeline closed: %s\", p.node.address) case p.reqCh <- req: return nil } }",
    "c19_handleReply": "{ resp := common.CheckReply(reply) switch resp { case common.KrespOK, common.KrespError: return reply, nil case common.KrespMove: if !cluster.handleMoveError { return nil, common.ErrMove } if ret, err := cluster.handleMove(node, reply.(common.RedisError).Error(), cmd, args); err != nil { if sentNoReply(err) { return ret, fmt.Errorf(\"handle move failed[%w]\", err) } return ret, errors.Join(common.ErrMove, fmt.Errorf(\"handle move failed[%w]\", err)) } else { return ret, nil } case common.KrespAsk: if !cluster.handleAskError { return nil, common.ErrAsk } if ret, err := cluster.handleAsk(node, reply.(common.RedisError).Error(), cmd, args); err != nil { if sentNoReply(err) { return ret, fmt.Errorf(\"handle ask failed[%w]\", err) } return ret, errors.Join(common.ErrAsk, fmt.Errorf(\"handle ask failed[%w]\", err)) } else { return ret, nil } case common.KrespConnTimeout: if ret, err := cluster.handleConnTimeout(node, cmd, args); err != nil { return ret, fmt.Errorf(\"handle timeout failed[%w]\", err) } else { return ret, nil } } panic(\"unreachable\") }",
    # session 5: the order of the entry guards of Exec / Dispatch / Receive (recorded Put error before "no node batch"), read off
    # the statement order by the extractor and regenerated into Gen/C19Guards.lean (Props.C19.code_guards_good)
    # session 5: NO body text of Exec / Dispatch / sendFuncOnce's shortcut is pinned any more: their guard order and the shape the
    # models rely on are regenerated constants (Gen/C19Guards.lean; Props.C19.code_guards_good, code_shapes_good)
    "c19_execWaitsAll": "true", "c19_execReportsBatchErr": "true", "c19_execChecksReplies": "true",
    "c19_receiveWaitsAll": "true", "c19_receiveReportsBatchErr": "true", "c19_receiveChecksReplies": "true",
    "c19_dispatchStopsAtFirstSubmitError": "true", "c19_onceChecksPutErr": "true",
    # dimension audit: process-global / client-global mutable state reached by the batchers (a NEW package-level variable that is written, or
    # a new field of *Cluster written by the router inside Put, breaks this fact: draw its first-use / concurrent-use cases then)
    "c19_packageVars": "batch_pipe.go:ErrNoConnection:read-only conn.go:okReply:read-only conn.go:pongReply:read-only",
    "c19_putWritesClientState": "cluster.transactionEnable cluster.transactionNode",
    "c19_execErrFirst": "true",
    "c19_dispatchErrFirst": "true",
    "c19_receiveErrFirst": "true",
    "c19_clusterDo": "{ reply, err := node.do(cmd, args...) if err != nil { if err == common.ErrNil { return nil, err } return nil, &sentNoReplyError{fmt.Errorf(\"Do failed[%v]\", err)} } return cluster.handleReply(node, reply, cmd, args...) }",
}

PROP = {
    "lean_modules": ["GunYu.Props.C19", "GunYu.Props.C19Exec", "GunYu.Props.C19Flush", "GunYu.Props.C19Multi", "GunYu.Props.C19TxnPath"],
    "audit_namespaces": ["GunYu.Props.C19"],
    "required_theorems": [
        "GunYu.Props.C19.per_key_order_partial",
        "GunYu.Props.C19.per_key_pending_after_executed",
        "GunYu.Props.C19.redirect_never_loses",
        "GunYu.Props.C19.unexecuted_blocks_ok",
        "GunYu.Props.C19.executed_at_owner",
        "GunYu.Props.C19.txn_mode_no_double_execution",
        "GunYu.Props.C19.txn_redirect_never_loses",
        "GunYu.Props.C19.txn_sequential_order",
        "GunYu.Props.C19.per_key_order_stmt_false",
        "GunYu.Props.C19.txn_cluster_redirect_sent_once",
        "GunYu.Props.C19.txn_blocking_sent_once",
        "GunYu.Props.C19.recv_path_reports",
        "GunYu.Props.C19.recv_failed_sends_nothing",
        "GunYu.Props.C19.acked_batch_executed_in_order",
        "GunYu.Props.C19.segments_never_skip",
        "GunYu.Props.C19.segments_effective_prefix",
        "GunYu.Props.C19.segments_executed_downward_closed",
        "GunYu.Props.C19.segments_replay_only_unstored",
        "GunYu.Props.C19.segments_no_replay_no_duplicate",
        "GunYu.Props.C19.segments_position_sound",
        "GunYu.Props.C19.segments_clean_final_equals_spec",
        "GunYu.Props.C19.stored_position_covered_blocking",
        "GunYu.Props.C19.stored_position_covered_pipelined_false",
        "GunYu.Props.C19.sender_sends_at_most_three",
        "GunYu.Props.C19.exec_refines_segments",
        "GunYu.Props.C19.exec_blocking_disciplined",
        "GunYu.Props.C19.exec_cut_is_prefix",
        "GunYu.Props.C19.exec_ack_complete",
        "GunYu.Props.C19.exec_never_skip",
        "GunYu.Props.C19.exec_downward_closed",
        "GunYu.Props.C19.exec_stored_position_covered",
        "GunYu.Props.C19.exec_effective_prefix",
        "GunYu.Props.C19.exec_stored_position_covered_unsplit_false",
        "GunYu.Props.C19.txn_batch_one_node",
        "GunYu.Props.C19.dispatch_error_prefix",
        "GunYu.Props.C19.dispatch_error_one_node_submits_nothing",
        "GunYu.Props.C19.one_node_batch_submitted_once",
        "GunYu.Props.C19.puts_err_of_refused",
        "GunYu.Props.C19.puts_routed_mem",
        "GunYu.Props.C19.flush_ack_all_routed",
        "GunYu.Props.C19.code_guards_good",
        "GunYu.Props.C19.flush_ack_all_routed_code",
        "GunYu.Props.C19.flush_refused_reported",
        "GunYu.Props.C19.verdicts_acked_all_routed",
        "GunYu.Props.C19.lone_refused_acknowledged_when_empty_first",
        "GunYu.Props.C19.mixed_refused_reported_either_order",
        "GunYu.Props.C19.once_shortcut_only_empty",
        "GunYu.Props.C19.once_ack_all_routed",
        "GunYu.Props.C19.once_unchecked_lone_refused_silent",
        "GunYu.Props.C19.code_shapes_good",
        "GunYu.Props.C19.code_once_sound",
        "GunYu.Props.C19.txn_flush_ack_one_node",
        "GunYu.Props.C19.txn_flush_two_nodes_reported",
        "GunYu.Props.C19.answerM_single",
        "GunYu.Props.C19.answerM_exec_one_slot",
        "GunYu.Props.C19.answerM_exec_each_key",
        "GunYu.Props.C19.answerM_exec_at_holder",
        "GunYu.Props.C19.answerM_crossslot",
        "GunYu.Props.C19.answerM_split_executes_nowhere",
        "GunYu.Props.C19.answerM_refines_first",
    ],
    "expected_facts": EXPECTED_SENDER_FACTS,
    "harness": [{"name": "C19", "pkg": "./pkg/redis/client/cluster/", "test": "TestVerifC19",
                 "timeout_quick": "5m", "timeout_thorough": "30m"},
                {"name": "C19out", "pkg": "./syncer/", "test": "TestVerifC19Out",
                 "timeout_quick": "5m", "timeout_thorough": "30m"}],
    "driver": "drv_C19",
    "rule": "scenarios: corpus (defect witnesses, adversarial ping-pong) then generated: 3-4 node cluster double (one node optionally "
            "without slots), 2-4 hash tags x 1-3 keys, 2-6 batches; mode sync (Batch.Exec, sender-style retry of a failed batch) | "
            "pipe (batch2 Dispatch/Receive, window 1-3) | txn (txnBatcher.Exec) | txnpipe (Dispatch/Receive, window 1-4); "
            "single-key set/append/lpush/sadd/hset and two-key smove; migration schedule of setMigrating/migrateKey/finish/assign "
            "events placed between batches or at a global request count (during a batch); asynchronous topology refreshes "
            "(the real handleUpdate goroutine, parked in the double's CLUSTER SLOTS and released where the schedule says, also "
            "between two Puts of one batch) and synchronous ones (MOVED to an unknown node). One op = the global trace of one "
            "scenario; the Lean driver replays it through ClusterRoute.step/tstep (membership) and prints per-node sequences and "
            "per-key executed subsequences, the harness prints them from the double's own logs. Independent Go monitor: "
            "execution at the key's holder, per-key increasing order per run segment, acknowledged batch complete, no double "
            "execution in transactional mode. distinct_nontrivial = distinct traces containing at least one MOVED/ASK answer. "
            "Session C19out (syncer/vf_c19_test.go): the real RedisOutput.sendAof/sendCmdsBatch with client.NewRedis(cluster config) against "
            "the same double, transactional|plain x blocking|pipelined, BatchCmdCount 1-5, streams of 4-16 single-key commands, slots "
            "assigned/migrating from a chosen request count on, transactional batches spanning two nodes (client-side CROSSSLOT); real time; "
            "monitor on the double's execution log (no command twice in transactional mode, holder, per-key order and no gap, nothing lost "
            "when the run ends without a target error); tie: re-sends of the failing batch and final error class vs the Lean decision table "
            "ClusterSender.sendFunc / recvFinal for class x path (Exec/Dispatch vs pipelined receiver) x persistence of the error. C19out also: "
            "plain mode with redirect following switched off (real 1 s retry sleeps, 2 scenarios); injected faults on a stable cluster "
            "(-ERR reply, connection closed before / after the command was applied); the input is closed only when every command has "
            "executed or the run returned by itself (no real-time decision); the source of sendFunc/handleError/handleDirectError is pinned "
            "as extractor facts. Client harness also: modes stxn/stxnpipe (sender-style Put(multi)...Put(exec) through Batch/batch2, no "
            "redirect following), commands select/ping/publish, mset on one slot / two slots one node / two nodes, a command resolved only by "
            "COMMAND GETKEYS and one by the args[0] fallback; monitor put-silently-dropped; the driver evaluates QuietRun on every plain "
            "trace (`quiet` line, expected true for generated schedules); mode syncnf (blocking batches, redirect following off) with a "
            "STALLED node (the double holds what that node receives): monitor exec-returned-with-commands-in-flight - Exec must not return "
            "while another node of the batch still holds unprocessed commands (corpus failfast-exec.txt; the stall is lifted after 300 ms "
            "when Exec is still waiting, which is what the unchanged code does - the time never decides a verdict on a correct Exec). C19out resumable plain scenarios (checkpoint offset on the target): monitor "
            "checkpoint-ahead-of-execution (the largest stored offset covers a command that never took effect) with a trace-derived "
            "mechanism: offset-sent-after-failed-answer (fixed b47e97e: forced scenario nofollow-pipe, moved slot last in the stream, "
            "its node stalled until the sender is idle, client Close held until the write arrives) / offset-applied-before-failed-answer "
            "(cpbatch-block, cpbatch-pipe: data and checkpoint HSETs in one batch, data node stalled until the checkpoint node applied the "
            "offset, then -ERR); the `cause` of C19-F1 (D22) is set by the monitor only when the trace shows the mechanism. "
            "SESSION 4 - operational model (Model/ClusterExec.lean), op c19x: every sequential plain scenario of the client harness with keyed "
            "one-slot commands (sync/syncnf/stxn, pipe/stxnpipe with window 1; half of the generated scenarios are single-key only; group = key, or "
            "slot when the schedule has no ASK phase) and every blocking scenario of C19out (a wrapper around the real cluster client logs "
            "Exec/Dispatch/Receive boundaries into the double's trace) is translated into B (Put+Exec of the queue [p,q) with the routes) / x r (the "
            "queue's node executed / refused) / c (followed redirect executed) / A d (nil) / F:rd F:ot (error class) / ps px pr pc (position batch "
            "sent, applied, refused, applied after a followed redirect) / R (end of run) and replayed through ClusterExec.step with split = 1 "
            "(clientOk inserted by the driver); the driver prints accept, QuietRun, the closed segment events, ClusterSegments.run + Disciplined + "
            "PrefixRun evaluated on them, the real log and the stored position - the harness prints them from its own bookkeeping. C19out restart "
            "scenarios (restart-txn-block, restart-plain-block): after the run ended with an error a SECOND run (new output, new client) from the "
            "position stored on the target; monitors over the whole history: per-key-skip, lost-command after the restart, nothing twice within "
            "the second run. Monitor per-key-skip in both harnesses (time-ordered never-skip on the double's log; sequential modes; runs without an "
            "error REPLY). Corpus chase-fault.txt (a followed redirect cut by a lost connection: sync, pipe, two queues). Dispatch failure: 40/400 "
            "ops c19d on the real batch2.Put/Dispatch (transactional or not, 1-5 puts over 3 nodes, a Put the router refuses, one node pipeline "
            "closed) vs ClusterSender.puts/dispatch, monitor txn-dispatch-failed-but-submitted; C19out put-error scenarios (an MSET over two nodes "
            "in the stream; txn-pipe, plain-pipe, txn-block): op c19s attempts / submitted / final vs sendFunc + onceP + submitted. Forced "
            "txn-pipe-resume (repaired 2aa2a9b). Coverage counters exec_model_* / dispatch_fault_* / puterr_traces in the evidence. After the r4 "
            "review: the expected c19x lines are COMPUTED from the harness's own observations (vfdoubles.ExecExpect: auto / disc / prefix from the "
            "observed segments, quiet from refuse-then-execute of a group in one queue), not constants: adversarial ping-pong corpus scenarios "
            "(sync, pipe, two queues) are replayed too (quiet false, prefix false), the single-flush pipelined scenario cpbatch-pipe-cb with split = 0 "
            "(a storing cut: disc false; its monitor verdict is C19-F2); the client harness classifies Exec errors with errors.Is on the sentinels "
            "(the redirect guard and the in-segment retry F:rd B are exercised there: ~20 / ~5 traces per run); mode skips are counted "
            "(exec_model_skipped_mode). C19out forced chase-ac (a FOLLOWED data request applied, reply lost) and cp-chase-ac (the same on the "
            "position write, then a cut re-send, then a restart; repaired d698491) with monitor stale-value-below-stored-position (the last "
            "execution of a key below the stored position is its last command below it; blocking modes; = exec_effective_prefix); "
            "plain-block-crossput (a two-key command over two nodes: ErrCrossSlots from Put, retried three times by the plain sender, F:cs). "
            "txn-dispatch-failed-but-submitted flags the SUBMISSION of a transactional batch whose Dispatch failed - a precursor of the double "
            "execution the property forbids (the sender dispatches again), stricter than the statement. "
            "SESSION 5 - the verdict of a flush whose commands the router refuses at Put (multi-key DEL / UNLINK / MSET / MSETNX / SMOVE with 2-3 keys on "
            "different nodes): client harness vf_c19flush_test.go, op c19f: stable three-node double, 2-5 flushes of the real Batch (Exec) or batch2 "
            "(Dispatch, Receive), plain or with Put(multi)/Put(exec), Put errors not looked at (as sendFuncOnce); one or two flushes hold ONLY refused "
            "commands (4 modes x 5 commands forced, 40/600 generated, corpus lone-refused-flush.txt), the replay stops at the first reported flush; "
            "monitor lost-command (an ACKNOWLEDGED flush holds a command no node executed); tie: the verdict list vs ClusterFlush.verdicts with the "
            "guard order of Exec / Dispatch / Receive REGENERATED from the source (extractor c19GuardOrder -> Gen/C19Guards.lean, statement order, "
            "not text). C19out forced scenarios lone-cross:<txn|plain>-<block|pipe>:<del|unlink|mset|smove>:<mid|last>[:resume] (10): the real sender "
            "with BatchCmdCount 1, the refused command in the middle of the stream or last; the client wrapper logs refused Puts (PR), attempts = "
            "refusals; a refused command that is last ends the input only after the 5th refusal (sendFunc makes at most three attempts per flush: a "
            "count, not a time); monitors lost-command (run ended without a target error) and position-ahead-of-execution (the IN-MEMORY position "
            "covers a command no node executed); tie c19o (re-sends, final class). Repaired 510c7bb. "
            "Multi-key commands at a NODE: the client harness puts a multi-key command with all its keys (`P:<bid>:<cmd>:<k+k+..>:<node>`), a third of "
            "the multi-key scenarios are dense in MSET of 2-3 keys / SMOVE of one slot; the driver recomputes EVERY answer to such a command with "
            "ClusterMulti.answerM (CROSSSLOT, TRYAGAIN at the owner and at the importing node, ASK only when every key has gone) - no free error answer "
            "for them (reject answer-multi) - and runs ClusterRoute over the first key (answerM_refines_first); counters multikey_answer_*. c19f in "
            "transactional mode: monitors txn-flush-split-over-nodes / txn-path-multi-on-the-wire (txn_flush_ack_one_node). In-flight refresh: schedule "
            "event `p` (a quarter of the sequential plain scenarios) releases the parked CLUSTER SLOTS at a request count, WHILE a batch runs: the real "
            "update goroutine installs the map beside the running node batches and then takes the inform of a MOVED answer of the same batch (a refresh "
            "started by the batch, parked again); after the attempt the harness waits for `r`, makes sure the map is installed and logs `R` (counters "
            "note_refresh-in-flight / note_refresh-started-by-the-batch); real time, sampled - not enumerated. "
            "DIMENSION AUDIT (last round): C19out op tags are scenario NAMES (#g3668, #d146.x: stable across runs; VERIF_C19_DUMP=<tag> prints a scenario); "
            "forced dimensions vfoDim / vfoDimList (quick: 30 non-cut + 40 cuts drawn without repetition, thorough: all 544): cut:<mode>:<resume|mem>:"
            "<data|cp|same>:<cb|ac>:<at 0..8> (the connection of the data node / of the checkpoint key's node alone / of a node that holds both is "
            "cut before / after request <at>; 24 commands, BatchCmdCount 3, the run must end by itself), size (streams of exactly 1 / BatchCmdCount / "
            "BatchCmdCount+1 commands with BatchCmdCount 1 and 3, one slot moves), oneslot (every key one hash tag), unknown (a fourth node that owns "
            "nothing; a slot is assigned to it: MOVED to a node the client does not know, refreshes not parked there), nodes:1 / nodes:2, hole (a slot "
            "becomes unassigned: -CLUSTERDOWN, new double event `h`), cpdown (the checkpoint key's node goes down alone); counters dim_* and cfg_<option>_"
            "<value> (enableTransaction, replayMode pipeline + effective, resumeFromBreakPoint, handleMove/AskErr, batchCmdCount 1-5/many, flushBy, nodes); "
            "monitor failed-batch-not-reported (sendAof returned nil although the last batch ended with an error: repaired 6897116); client harness: "
            "corpus multikey-ask.txt (ASK for EVERY key of a multi-key command vs SOME: sync / pipe / syncnf / stxn), d21m-midput-multikey.txt + generator "
            "vfcGenMidPutMulti (every 20th generated scenario: a refresh between two Puts of one batch around a multi-key command; seeded change "
            "C19-r2-m2), c19f degenerate keys (the empty key \"\" = slot 0, a key of slot 16383, `{}x`) in the four modes",
    "trusted": [
        "Redis Cluster redirection rules as transcribed in Model/ClusterRoute.lean (answer, tanswer, applyMig) and in the cluster "
        "double vf_c19_double_test.go (getNodeByQuery: MOVED/ASK/ASKING/TRYAGAIN/CROSSSLOT, EXEC re-check over all queued keys, "
        "ASKING kept through MULTI); independent bitwise CRC16 for the double's slots",
        "a node answers OK only after it executed the command, processes the requests of one connection in order and stops at a closed connection "
        "(the double; Redis); the harness's translation of a trace into model events (which answer is a first-hand one, which a followed redirect)",
        "each request is one atomic step of a node (Redis is single-threaded per command); the double serialises all nodes under "
        "one mutex and that order is the trace",
    ],
    "assumptions": [
        "sender retry/escalation (output.go sendFunc) is a hand transcription (Model/ClusterSender.lean), tied by correspondence of "
        "(re-sends, final error) per mode and error class plus the execution-log monitor; not regenerated from the source",
        "model is protocol-level and hand-written; tied by trace membership (every observed run must be a run of the model, node "
        "answers recomputed by the model) on sampled interleavings - goroutine scheduling and socket timing are the runtime's",
        "ClusterExec.QuietRun (operational model): a node that refused a command of a key does not execute a later command of that key of the same "
        "queue while the refused one is unexecuted; shown necessary (xevsLoud in Props/C19Exec.lean); evaluated on every replayed run (`quiet` line)",
        "QuietRun: no node queue that still holds an unfollowed redirect of a key starts serving that key again inside the batch "
        "(A->B->A ping-pong); per_key_order_stmt_false shows the hypothesis is necessary for any pipelining client",
        "bytes already sent on an aborted connection are consumed by the node before the sender's retry (1 s back-off in output.go)",
        "the model's put admits only routes equal to those of unfinished commands of the same slot (repaired behaviour: D21 fixed, "
        "C19-F1 (D22) recorded finding); traces of the current code that violate it are reported as `reject route-split` by both sides",
    ],
    "partial": [
        "transactional + PIPELINED sender and a non-redirect error returned by Dispatch itself: sendFunc dispatches the queue again; PROVED harmless "
        "(one_node_batch_submitted_once with txn_batch_one_node, dispatch_error_prefix: a transactional batch has one node batch, a failed Dispatch has "
        "queued a strict prefix of the node batches) on the model ClusterSender.put/dispatch/submitted, tied by the dispatch-fault ops on the real "
        "batch2 (closed node pipeline, refused Put) and by the put-error scenarios of C19out on the real sender (3 attempts, nothing reached a node); "
        "still outside: nodePipeline.Submit is taken as 'queued or refused' from its pinned source (c19_submit); a Submit that wins the race against a "
        "closed pipeline queues a request nobody writes (counted, dispatch_fault_closed_pipeline_accepted) - Receive then waits for ever: liveness; the "
        "hand-over failure after a successful Dispatch (run closed) is the separate decision sendFuncClosed, covered by scenario close-outside",
        "composition over segments: the guards of the bookkeeping automaton (AppOK, Complete) and the hypotheses Disciplined / PrefixRun are now DERIVED "
        "(exec_refines_segments, exec_blocking_disciplined, exec_cut_is_prefix, exec_ack_complete) from an operational model of the batch attempt and the "
        "blocking sender (Model/ClusterExec.lean: node queues in any interleaving, cut anywhere, redirects followed at reply time, position batch after "
        "the acknowledgement, retry after a redirect error, restart at any moment), and exec_never_skip / exec_downward_closed / "
        "exec_stored_position_covered state the composition for the target's REAL log and stored position with the cluster hypothesis QuietRun only. "
        "What remains: (a) that model is hand-written; its guards (a node processes its queue in order, one key in one node queue of a batch, a redirect "
        "is followed only after the earlier replies of the queue, Exec returns nil only after a good reply to everything, the position batch is put "
        "together after the data batch returned nil, only a redirect error is retried) are tied to the code by trace membership on the runs of both "
        "harnesses (op c19x) and by pinned source (c19_doBatch, c19_receiveReply, c19_positionSplit) plus the REGENERATED shape constants of Exec / Receive / Dispatch / the sender's shortcut (Gen/C19Guards.lean, code_shapes_good: wait for every node batch, first batch error, reply errors, prefix submission), not by a regenerated model; (b) its fault "
        "alphabet has redirects, lost connections / cuts anywhere and failed followed redirects, NOT error replies: a node goes on with the commands "
        "pipelined behind an error reply and the client goes on following later redirects of the queue even after an error reply to a followed one "
        "(cluster.go handleReply returns such a reply as a reply; observed) - the gap this leaves in a key cannot be prevented by a pipelining client. "
        "A LOST reply (of a data command, of a followed request, of the position write) is in: `fail other`, the run ends, the request may still be "
        "applied afterwards (chaseExec / posChaseExec stay enabled after `fail other`); `fail redirect` means refused and NOT delivered elsewhere - "
        "true of the code since d698491 (before, handleReply reported a lost reply of a followed request as ErrMove/ErrAsk and the plain sender re-sent "
        "the queue below a position that request had stored: r4 review, scenario cp-chase-ac); `fail crossslot` = the recorded Put error, returned "
        "before anything is sent, retried by the plain sender; what executes of an OLD attempt after the retry's Put (bytes still on an aborted "
        "connection) is excluded by the back-off assumption, a late arrival makes the harness skip the trace (stray-answer / re-arrival), not reject it; (c) "
        "ClusterExec and ClusterRoute are two models of the same client, each tied to the code, with no refinement lemma between them: ClusterRoute "
        "computes the node answers from the migration state, ClusterExec takes them as events under QuietRun; identification of stream positions with "
        "command ids / byte offsets is done by the harness (position = index of the command, offset = its end); (d) keepLast theorems "
        "(segments_effective_prefix, segments_clean_final_equals_spec, exec_effective_prefix = the FINAL-VALUE statement on the real log below the "
        "stored position; exec_never_skip alone does not bound the final value) say nothing about APPEND/INCR-style repetition, which the property "
        "allows only as replay; (e) blocking modes only: the operational model has one attempt at a time (a single-flush pipelined run is replayed with "
        "split = 0 to show a storing cut); (f) of the required theorems exec_stored_position_covered_unsplit_false, dispatch_error_prefix, "
        "txn_batch_one_node, recv_failed_sends_nothing, stored_position_covered_pipelined_false restate a definition / a guard of the model (their "
        "content is the transcription, pinned as source facts); Complete's 'everything executed' and AppOK's 'nothing twice' are one step from the "
        "guards of ack / clientOk / Waiting - the derived content is the per-key ORDER and PREFIX part",
        "pipelined modes: the composition statement is false (stored_position_covered_pipelined_false, exec_stored_position_covered_unsplit_false: "
        "decide-checked counter-witnesses = C19-F2; reorder = C19-F1); stored_position_covered_stmt / exec_stored_position_covered_stmt are the full "
        "statements kept for them. The transactional pipelined resumable combination no longer exists (2aa2a9b: falls back to blocking). Without "
        "resuming from the target the same mechanism moves the IN-MEMORY position (setMemCP when Dispatch returns, before the acknowledgement): not "
        "driven by the harness",
        "the transaction system T* models txnBatcher (used by bisync); the transactional path of sendCmdsBatch goes through Batch/batch2 with "
        "Put(multi)/Put(exec) that the cluster client drops (one-node constraint, no atomicity): node side covered by the PLAIN system on traces of "
        "the harness modes stxn/stxnpipe and by C19out; the one-node constraint now has theorems of its own (Props/C19TxnPath.lean: "
        "txn_flush_ack_one_node - an acknowledged transactional flush sits whole in ONE node batch -, txn_flush_two_nodes_reported) tied by c19f "
        "(verdicts + monitors: executed at one node, no MULTI/EXEC on the wire); that the router returns no node for multi/exec is observed (monitor), "
        "not regenerated; atomicity is NOT provided by this path (an error reply in the middle leaves a prefix and a suffix executed)",
        "executed_at_owner is a lemma about the server model (a node only executes what it serves), unexecuted_blocks_ok and "
        "txn_mode_no_double_execution restate admissibility guards of the model through the bookkeeping invariants: the client's obligations "
        "are those guards, checked on the code by trace membership only",
        "liveness is out of scope: unbounded handleMove recursion, update() rejecting partial CLUSTER SLOTS coverage, delays beyond a read "
        "timeout (the cluster client of NewRedisCluster sets none)",
        "per_key_order: proved as per_key_order_partial under QuietRun; the unconditional statement is false in the model "
        "(per_key_order_stmt_false, ping-pong of a slot inside one pipeline)",
        "per-key order of pipelined transactions (txnpipe, window>1) is not a theorem: only sequential use (txn_sequential_order); "
        "C19-F1 (D22) shows it fails in the code",
        "multi-key commands: the node's answer to a multi-key command is modelled (Model/ClusterMulti.lean answerM = CROSSSLOT test + the key walk "
        "`tanswer`; answerM_exec_each_key, answerM_exec_at_holder, answerM_crossslot, answerM_split_executes_nowhere, answerM_refines_first) and every "
        "such answer of a replayed trace is recomputed by it; the TRANSITION SYSTEMS ClusterRoute / ClusterExec still run over the FIRST key of a "
        "command (the key the client routes by): the per-key order / never-skip theorems speak about first keys, the order on the other keys of a "
        "multi-key command is checked by the Go monitors only (keysOf); the double has no DEL / UNLINK (a key list without a place for the id), so "
        "same-node DEL under migration is not driven - cross-node DEL / UNLINK is (c19f). Also from session 5: a multi-key command the ROUTER refuses "
        "(keys on different nodes; a second node in a sender-transactional batch) is modelled (Model/ClusterFlush.lean over ClusterSender.put): "
        "flush_ack_all_routed(_code), flush_refused_reported, verdicts_acked_all_routed, once_shortcut_only_empty, once_ack_all_routed for every "
        "queue, with the guard order regenerated; what is NOT in that model: the nodes (a stable cluster that executes what it is sent - the node side "
        "is ClusterExec), multi-key commands on one node over two slots (server CROSSSLOT) and during a migration (TRYAGAIN), and the sender's retry "
        "loop around `once` (ClusterSender.sendFunc, tied by c19o); `once`'s `chk` is regenerated too (Gen.C19Guards.onceChecksPutErr, code_once_sound)",
        "dimension audit - NOT drawn: a hole that exists when the client starts (update() refuses a partial map: the run fails in NewRedisConn after "
        "3 x 2 s of real time - liveness, out of scope); a transactional and a plain batcher of ONE client used alternately (the client-global "
        "transactionEnable / transactionNode, pinned as c19_putWritesClientState: the sender always puts `exec` before it returns, the keepalive ping "
        "is the only plain flush on a transactional client); byte-size flushes (BatchBufferSize is 1 GiB in every scenario: the flush trigger is the "
        "sender's own concern - C01/C02); keepaliveTicker / updateCheckpointTicker values other than the two used; DEL/UNLINK on the double",
        "goroutine interleaving of per-node batches and socket timing are sampled by the tie, not enumerated; slot-map refresh races: a refresh "
        "installed while a batch is in flight and a refresh started by a MOVED answer of the running batch are now DRIVEN (schedule event `p`, ~60 "
        "runs per quick check, all accepted by the model) but sampled in real time: enumeration under synctest needs the cluster client's "
        "connections on an in-memory transport (node.go dials real TCP; a dial hook in the client would be a change of /repo) - not done; two "
        "informs racing for the update goroutine are resolved by the non-blocking send of inform() (one is dropped), which the harness exercises "
        "but does not observe separately",
    ],
}

MANIFEST = {
    "text": "Lean theorems over ALL event lists of a protocol-level transition system (cluster = owner/migrating/importing/atDst evolving by "
            "migration steps between or during batches; client slot map with asynchronous/synchronous refresh; per-node FIFO pipelines in any "
            "interleaving; MOVED/ASK(+ASKING)/error answers; sender retry segments): executed commands of each key are strictly increasing in "
            "source order per run segment (under the no-ping-pong hypothesis, shown necessary), every command of an acknowledged batch was "
            "executed by the slot owner or the ASK-designated importing node, an unexecuted command makes `ok` impossible, transactions execute "
            "at most once per run and in order when used sequentially. Composition over sender segments (retries, restarts from the stored position) "
            "is derived from an operational model of the batch attempt and the blocking sender (refinement to the segment automaton: never skips, stored "
            "position covered, no re-dispatch of a transactional batch reaches a node twice). A flush is acknowledged only when every command put into it "
            "sits in a node batch (a multi-key command whose keys live on different nodes is refused at Put and REPORTED, alone in its flush or not; guard "
            "order of Exec / Dispatch / Receive regenerated from the source). Tie: traces of the real client against a 3-4 node cluster double are "
            "replayed through the model (membership) and per-node/per-key sequences compared; an independent Go monitor checks the property on "
            "the double's execution log.",
    "note": "trusted: Lean kernel, Redis redirection rules (model + double), harness; model hand-written, tied by trace membership; "
            "QuietRun hypothesis; pipelined cross-batch reorder recorded as finding C19-F1 (D22)",
    "technique": "Lean 4 proof (invariants over a labelled transition system, induction on event lists) + trace-membership correspondence + runtime monitor",
}
