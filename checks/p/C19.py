# source of the sender's retry/escalation decision code, as printed by harness/extract/c19.go;
# Model/ClusterSender.lean (sendFunc, recvFinal, direct; put, dispatch) and Model/ClusterExec.lean (attStep, step:
# the position split, the reply loop of a node batch, Exec's return) are its hand transcription: when this
# changes, revisit the Lean transcription first, then this expectation.
EXPECTED_SENDER_FACTS = {
    "c19_sendFunc": "{ maxRetries := 0 for { if recvFailed.Load() { <-replayWait.Done() if err := replayWait.Error(); err != nil { return err } return errors.New(\"a pipelined batch failed\") } err := sendFuncOnce(shouldInTransaction, shouldUpdateCP, lastOffset) if err == nil { return err } if replayWait.IsClosed() { return err } maxRetries++ if errors.Is(err, common.ErrMove) || errors.Is(err, common.ErrAsk) || errors.Is(err, common.ErrCrossSlots) { if ro.cfg.CanTransaction && ro.cfg.Redis.IsCluster() { return handleDirectError(err) } if maxRetries < 3 { replayWait.Sleep(1 * time.Second) continue } err = handleDirectError(err) ro.logger.Errorf(\"send error : error(%v), offset(%d)\", err, lastOffset) return err } else if isPipeline { if maxRetries < 3 { replayWait.Sleep(1 * time.Second) continue } ro.logger.Errorf(\"send error : error(%v), offset(%d)\", err, lastOffset) } return err } }",
    "c19_handleError": "{ recvFailed.Store(true) if errors.Is(err, common.ErrMove) || errors.Is(err, common.ErrAsk) || errors.Is(err, common.ErrCrossSlots) { if ro.cfg.CanTransaction && ro.cfg.Redis.IsCluster() { err = handleDirectError(err) } ro.logger.Errorf(\"send error : error(%v), offset(%d)\", err, bat.offset) } failCounter.Add(float64(bat.cmdCounter), ro.cfg.InputName) batchSendCounter.Add(1, ro.cfg.InputName, transactionLabel, \"error\") replayWait.Close(err) }",
    "c19_handleDirectError": "{ if errors.Is(err, common.ErrMove) || errors.Is(err, common.ErrAsk) { return errors.Join(ErrRedisTypologyChanged, err) } if errors.Is(err, common.ErrCrossSlots) { return errors.Join(ErrBreak, err) } return err }",
    # session 4: the code Model/ClusterExec.lean (split, clientOk/chaseExec/fail/ack) and ClusterSender.put/dispatch transcribe
    "c19_positionSplit": "if !isPipeline && shouldUpdateCP && ro.cfg.EnableResumeFromBreakPoint && ro.cfg.Redis.IsCluster() && batcher.Len() > 0 { if shouldInTransaction { batcher.Put(\"exec\") } if _, err := batcher.Exec(); err != nil { return failed(err) } batcher = conn.NewBatcher(isPipeline) if shouldInTransaction { batcher.Put(\"multi\") } }",
    "c19_txnPipeFallback": "if ro.cfg.CanTransaction && ro.cfg.Redis.IsCluster() && !ro.bisyncEnabled() { ro.cfg.Redis.GetClusterOptions().HandleMoveErr = false ro.cfg.Redis.GetClusterOptions().HandleAskErr = false if ro.cfg.ReplayPipeline && ro.cfg.EnableResumeFromBreakPoint { ro.logger.Warnf(\"transactional replay to a cluster with resuming from the target : pipeline mode is switched off\") ro.cfg.ReplayPipeline = false } }",
    "c19_doBatch": "{ conn, err := batch.node.getConn() if err != nil { batch.err = err batch.done <- 1 return } exec := util.OpenCircuitExec{} for i := range batch.cmds { exec.Do(func() error { return conn.send(batch.cmds[i].cmd, batch.cmds[i].args...) }) } err = exec.Do(func() error { return conn.flush() }) if err != nil { batch.err = err conn.shutdown() batch.done <- 1 return } for i := range batch.cmds { reply, err := conn.receive() if err != nil { if err == common.ErrNil { continue } batch.err = err conn.shutdown() batch.done <- 1 return } reply, err = bat.cluster.handleReply(batch.node, reply, batch.cmds[i].cmd, batch.cmds[i].args...) if err != nil { batch.err = err conn.shutdown() batch.done <- 1 return } batch.cmds[i].reply, batch.cmds[i].err = reply, err } batch.node.releaseConn(conn) batch.done <- 1 }",
    "c19_receiveReply": "{ defer util.RecoverCallback(func(e interface{}) { batch.err = fmt.Errorf(\"panic : %v\", e) batch.done <- 1 }) if batch.request == nil { batch.err = ErrNoConnection batch.done <- 1 return } replies, err := batch.request.Wait() if err != nil { batch.err = err batch.done <- 1 return } for i := range batch.cmds { reply := replies[i] reply, err = bat.cluster.handleReply(batch.node, reply, batch.cmds[i].cmd, batch.cmds[i].args...) if err != nil { batch.err = err batch.done <- 1 return } batch.cmds[i].reply, batch.cmds[i].err = reply, err } batch.done <- 1 }",
    "c19_execReturn": "{ if bat.err != nil { return nil, bat.err } if bat == nil || bat.batches == nil || len(bat.batches) == 0 { return []interface{}{}, nil } for i := range bat.batches { go bat.doBatch(&bat.batches[i]) } for i := range bat.batches { <-bat.batches[i].done } var replies []interface{} for _, i := range bat.index { if bat.batches[i].err != nil { return nil, bat.batches[i].err } replies = append(replies, bat.batches[i].cmds[0].reply) bat.batches[i].cmds = bat.batches[i].cmds[1:] } if err := common.CheckRepliesError(replies); err != nil { return nil, err } return replies, nil }",
    "c19_dispatch": "{ if bat == nil || bat.batches == nil || len(bat.batches) == 0 { return nil } if bat.err != nil { return bat.err } for i := range bat.batches { batch := &bat.batches[i] req := newNodePipelineRequest( func(conn *redisConn) error { exec := util.OpenCircuitExec{} for j := range batch.cmds { cmd := batch.cmds[j] exec.Do(func() error { return conn.send(cmd.cmd, cmd.args...) }) } return exec.Do(func() error { return conn.flush() }) }, func(conn *redisConn) ([]interface{}, error) { replies := make([]interface{}, 0, len(batch.cmds)) for range batch.cmds { reply, err := conn.receive() if err != nil { if err == common.ErrNil { replies = append(replies, nil) continue } return nil, err } replies = append(replies, reply) } return replies, nil }, ) batch.request = req if err := bat.pipeline.getNodePipeline(batch.node).Submit(req); err != nil { batch.err = err return err } } return nil }",
    "c19_submit": "{ select { case <-p.closeCh: return fmt.Errorf(\"node pipeline closed: %s\", p.node.address) case p.reqCh <- req: return nil } }",
    "c19_handleReply": "{ resp := common.CheckReply(reply) switch resp { case common.KrespOK, common.KrespError: return reply, nil case common.KrespMove: if !cluster.handleMoveError { return nil, common.ErrMove } if ret, err := cluster.handleMove(node, reply.(common.RedisError).Error(), cmd, args); err != nil { if sentNoReply(err) { return ret, fmt.Errorf(\"handle move failed[%w]\", err) } return ret, errors.Join(common.ErrMove, fmt.Errorf(\"handle move failed[%w]\", err)) } else { return ret, nil } case common.KrespAsk: if !cluster.handleAskError { return nil, common.ErrAsk } if ret, err := cluster.handleAsk(node, reply.(common.RedisError).Error(), cmd, args); err != nil { if sentNoReply(err) { return ret, fmt.Errorf(\"handle ask failed[%w]\", err) } return ret, errors.Join(common.ErrAsk, fmt.Errorf(\"handle ask failed[%w]\", err)) } else { return ret, nil } case common.KrespConnTimeout: if ret, err := cluster.handleConnTimeout(node, cmd, args); err != nil { return ret, fmt.Errorf(\"handle timeout failed[%w]\", err) } else { return ret, nil } } panic(\"unreachable\") }",
    "c19_clusterDo": "{ reply, err := node.do(cmd, args...) if err != nil { if err == common.ErrNil { return nil, err } return nil, &sentNoReplyError{fmt.Errorf(\"Do failed[%v]\", err)} } return cluster.handleReply(node, reply, cmd, args...) }",
}

PROP = {
    "lean_modules": ["GunYu.Props.C19", "GunYu.Props.C19Exec"],
    "audit_namespaces": ["GunYu.Props.C19"],
    "required_theorems": [
        "GunYu.Props.C19.per_key_order_partial",
        "GunYu.Props.C19.per_key_pending_after_executed",
        "GunYu.Props.C19.redirect_never_loses",
        "GunYu.Props.C19.unexecuted_blocks_ok",
        "GunYu.Props.C19.executed_at_owner",
        "GunYu.Props.C19.txn_mode_no_double_execution",
        "GunYu.Props.C19.txn_redirect_never_loses",
        "GunYu.Props.C19.txn_sequential_order",
        "GunYu.Props.C19.per_key_order_stmt_false",
        "GunYu.Props.C19.txn_cluster_redirect_sent_once",
        "GunYu.Props.C19.txn_blocking_sent_once",
        "GunYu.Props.C19.recv_path_reports",
        "GunYu.Props.C19.recv_failed_sends_nothing",
        "GunYu.Props.C19.acked_batch_executed_in_order",
        "GunYu.Props.C19.segments_never_skip",
        "GunYu.Props.C19.segments_effective_prefix",
        "GunYu.Props.C19.segments_executed_downward_closed",
        "GunYu.Props.C19.segments_replay_only_unstored",
        "GunYu.Props.C19.segments_no_replay_no_duplicate",
        "GunYu.Props.C19.segments_position_sound",
        "GunYu.Props.C19.segments_clean_final_equals_spec",
        "GunYu.Props.C19.stored_position_covered_blocking",
        "GunYu.Props.C19.stored_position_covered_pipelined_false",
        "GunYu.Props.C19.sender_sends_at_most_three",
        "GunYu.Props.C19.exec_refines_segments",
        "GunYu.Props.C19.exec_blocking_disciplined",
        "GunYu.Props.C19.exec_cut_is_prefix",
        "GunYu.Props.C19.exec_ack_complete",
        "GunYu.Props.C19.exec_never_skip",
        "GunYu.Props.C19.exec_downward_closed",
        "GunYu.Props.C19.exec_stored_position_covered",
        "GunYu.Props.C19.exec_effective_prefix",
        "GunYu.Props.C19.exec_stored_position_covered_unsplit_false",
        "GunYu.Props.C19.txn_batch_one_node",
        "GunYu.Props.C19.dispatch_error_prefix",
        "GunYu.Props.C19.dispatch_error_one_node_submits_nothing",
        "GunYu.Props.C19.one_node_batch_submitted_once",
    ],
    "expected_facts": EXPECTED_SENDER_FACTS,
    "harness": [{"name": "C19", "pkg": "./pkg/redis/client/cluster/", "test": "TestVerifC19",
                 "timeout_quick": "5m", "timeout_thorough": "30m"},
                {"name": "C19out", "pkg": "./syncer/", "test": "TestVerifC19Out",
                 "timeout_quick": "5m", "timeout_thorough": "30m"}],
    "driver": "drv_C19",
    "rule": "scenarios: corpus (defect witnesses, adversarial ping-pong) then generated: 3-4 node cluster double (one node optionally "
            "without slots), 2-4 hash tags x 1-3 keys, 2-6 batches; mode sync (Batch.Exec, sender-style retry of a failed batch) | "
            "pipe (batch2 Dispatch/Receive, window 1-3) | txn (txnBatcher.Exec) | txnpipe (Dispatch/Receive, window 1-4); "
            "single-key set/append/lpush/sadd/hset and two-key smove; migration schedule of setMigrating/migrateKey/finish/assign "
            "events placed between batches or at a global request count (during a batch); asynchronous topology refreshes "
            "(the real handleUpdate goroutine, parked in the double's CLUSTER SLOTS and released where the schedule says, also "
            "between two Puts of one batch) and synchronous ones (MOVED to an unknown node). One op = the global trace of one "
            "scenario; the Lean driver replays it through ClusterRoute.step/tstep (membership) and prints per-node sequences and "
            "per-key executed subsequences, the harness prints them from the double's own logs. Independent Go monitor: "
            "execution at the key's holder, per-key increasing order per run segment, acknowledged batch complete, no double "
            "execution in transactional mode. distinct_nontrivial = distinct traces containing at least one MOVED/ASK answer. "
            "Session C19out (syncer/vf_c19_test.go): the real RedisOutput.sendAof/sendCmdsBatch with client.NewRedis(cluster config) against "
            "the same double, transactional|plain x blocking|pipelined, BatchCmdCount 1-5, streams of 4-16 single-key commands, slots "
            "assigned/migrating from a chosen request count on, transactional batches spanning two nodes (client-side CROSSSLOT); real time; "
            "monitor on the double's execution log (no command twice in transactional mode, holder, per-key order and no gap, nothing lost "
            "when the run ends without a target error); tie: re-sends of the failing batch and final error class vs the Lean decision table "
            "ClusterSender.sendFunc / recvFinal for class x path (Exec/Dispatch vs pipelined receiver) x persistence of the error. C19out also: "
            "plain mode with redirect following switched off (real 1 s retry sleeps, 2 scenarios); injected faults on a stable cluster "
            "(-ERR reply, connection closed before / after the command was applied); the input is closed only when every command has "
            "executed or the run returned by itself (no real-time decision); the source of sendFunc/handleError/handleDirectError is pinned "
            "as extractor facts. Client harness also: modes stxn/stxnpipe (sender-style Put(multi)...Put(exec) through Batch/batch2, no "
            "redirect following), commands select/ping/publish, mset on one slot / two slots one node / two nodes, a command resolved only by "
            "COMMAND GETKEYS and one by the args[0] fallback; monitor put-silently-dropped; the driver evaluates QuietRun on every plain "
            "trace (`quiet` line, expected true for generated schedules); mode syncnf (blocking batches, redirect following off) with a "
            "STALLED node (the double holds what that node receives): monitor exec-returned-with-commands-in-flight - Exec must not return "
            "while another node of the batch still holds unprocessed commands (corpus failfast-exec.txt; the stall is lifted after 300 ms "
            "when Exec is still waiting, which is what the unchanged code does - the time never decides a verdict on a correct Exec). C19out resumable plain scenarios (checkpoint offset on the target): monitor "
            "checkpoint-ahead-of-execution (the largest stored offset covers a command that never took effect) with a trace-derived "
            "mechanism: offset-sent-after-failed-answer (fixed b47e97e: forced scenario nofollow-pipe, moved slot last in the stream, "
            "its node stalled until the sender is idle, client Close held until the write arrives) / offset-applied-before-failed-answer "
            "(cpbatch-block, cpbatch-pipe: data and checkpoint HSETs in one batch, data node stalled until the checkpoint node applied the "
            "offset, then -ERR); the `cause` of C19-F1 (D22) is set by the monitor only when the trace shows the mechanism. "
            "SESSION 4 - operational model (Model/ClusterExec.lean), op c19x: every sequential plain scenario of the client harness with keyed "
            "one-slot commands (sync/syncnf/stxn, pipe/stxnpipe with window 1; half of the generated scenarios are single-key only; group = key, or "
            "slot when the schedule has no ASK phase) and every blocking scenario of C19out (a wrapper around the real cluster client logs "
            "Exec/Dispatch/Receive boundaries into the double's trace) is translated into B (Put+Exec of the queue [p,q) with the routes) / x r (the "
            "queue's node executed / refused) / c (followed redirect executed) / A d (nil) / F:rd F:ot (error class) / ps px pr pc (position batch "
            "sent, applied, refused, applied after a followed redirect) / R (end of run) and replayed through ClusterExec.step with split = 1 "
            "(clientOk inserted by the driver); the driver prints accept, QuietRun, the closed segment events, ClusterSegments.run + Disciplined + "
            "PrefixRun evaluated on them, the real log and the stored position - the harness prints them from its own bookkeeping. C19out restart "
            "scenarios (restart-txn-block, restart-plain-block): after the run ended with an error a SECOND run (new output, new client) from the "
            "position stored on the target; monitors over the whole history: per-key-skip, lost-command after the restart, nothing twice within "
            "the second run. Monitor per-key-skip in both harnesses (time-ordered never-skip on the double's log; sequential modes; runs without an "
            "error REPLY). Corpus chase-fault.txt (a followed redirect cut by a lost connection: sync, pipe, two queues). Dispatch failure: 40/400 "
            "ops c19d on the real batch2.Put/Dispatch (transactional or not, 1-5 puts over 3 nodes, a Put the router refuses, one node pipeline "
            "closed) vs ClusterSender.puts/dispatch, monitor txn-dispatch-failed-but-submitted; C19out put-error scenarios (an MSET over two nodes "
            "in the stream; txn-pipe, plain-pipe, txn-block): op c19s attempts / submitted / final vs sendFunc + onceP + submitted. Forced "
            "txn-pipe-resume (repaired 2aa2a9b). Coverage counters exec_model_* / dispatch_fault_* / puterr_traces in the evidence. After the r4 "
            "review: the expected c19x lines are COMPUTED from the harness's own observations (vfdoubles.ExecExpect: auto / disc / prefix from the "
            "observed segments, quiet from refuse-then-execute of a group in one queue), not constants: adversarial ping-pong corpus scenarios "
            "(sync, pipe, two queues) are replayed too (quiet false, prefix false), the single-flush pipelined scenario cpbatch-pipe-cb with split = 0 "
            "(a storing cut: disc false; its monitor verdict is C19-F2); the client harness classifies Exec errors with errors.Is on the sentinels "
            "(the redirect guard and the in-segment retry F:rd B are exercised there: ~20 / ~5 traces per run); mode skips are counted "
            "(exec_model_skipped_mode). C19out forced chase-ac (a FOLLOWED data request applied, reply lost) and cp-chase-ac (the same on the "
            "position write, then a cut re-send, then a restart; repaired d698491) with monitor stale-value-below-stored-position (the last "
            "execution of a key below the stored position is its last command below it; blocking modes; = exec_effective_prefix); "
            "plain-block-crossput (a two-key command over two nodes: ErrCrossSlots from Put, retried three times by the plain sender, F:cs). "
            "txn-dispatch-failed-but-submitted flags the SUBMISSION of a transactional batch whose Dispatch failed - a precursor of the double "
            "execution the property forbids (the sender dispatches again), stricter than the statement",
    "trusted": [
        "Redis Cluster redirection rules as transcribed in Model/ClusterRoute.lean (answer, tanswer, applyMig) and in the cluster "
        "double vf_c19_double_test.go (getNodeByQuery: MOVED/ASK/ASKING/TRYAGAIN/CROSSSLOT, EXEC re-check over all queued keys, "
        "ASKING kept through MULTI); independent bitwise CRC16 for the double's slots",
        "a node answers OK only after it executed the command, processes the requests of one connection in order and stops at a closed connection "
        "(the double; Redis); the harness's translation of a trace into model events (which answer is a first-hand one, which a followed redirect)",
        "each request is one atomic step of a node (Redis is single-threaded per command); the double serialises all nodes under "
        "one mutex and that order is the trace",
    ],
    "assumptions": [
        "sender retry/escalation (output.go sendFunc) is a hand transcription (Model/ClusterSender.lean), tied by correspondence of "
        "(re-sends, final error) per mode and error class plus the execution-log monitor; not regenerated from the source",
        "model is protocol-level and hand-written; tied by trace membership (every observed run must be a run of the model, node "
        "answers recomputed by the model) on sampled interleavings - goroutine scheduling and socket timing are the runtime's",
        "ClusterExec.QuietRun (operational model): a node that refused a command of a key does not execute a later command of that key of the same "
        "queue while the refused one is unexecuted; shown necessary (xevsLoud in Props/C19Exec.lean); evaluated on every replayed run (`quiet` line)",
        "QuietRun: no node queue that still holds an unfollowed redirect of a key starts serving that key again inside the batch "
        "(A->B->A ping-pong); per_key_order_stmt_false shows the hypothesis is necessary for any pipelining client",
        "bytes already sent on an aborted connection are consumed by the node before the sender's retry (1 s back-off in output.go)",
        "the model's put admits only routes equal to those of unfinished commands of the same slot (repaired behaviour: D21 fixed, "
        "C19-F1 (D22) recorded finding); traces of the current code that violate it are reported as `reject route-split` by both sides",
    ],
    "partial": [
        "transactional + PIPELINED sender and a non-redirect error returned by Dispatch itself: sendFunc dispatches the queue again; PROVED harmless "
        "(one_node_batch_submitted_once with txn_batch_one_node, dispatch_error_prefix: a transactional batch has one node batch, a failed Dispatch has "
        "queued a strict prefix of the node batches) on the model ClusterSender.put/dispatch/submitted, tied by the dispatch-fault ops on the real "
        "batch2 (closed node pipeline, refused Put) and by the put-error scenarios of C19out on the real sender (3 attempts, nothing reached a node); "
        "still outside: nodePipeline.Submit is taken as 'queued or refused' from its pinned source (c19_submit); a Submit that wins the race against a "
        "closed pipeline queues a request nobody writes (counted, dispatch_fault_closed_pipeline_accepted) - Receive then waits for ever: liveness; the "
        "hand-over failure after a successful Dispatch (run closed) is the separate decision sendFuncClosed, covered by scenario close-outside",
        "composition over segments: the guards of the bookkeeping automaton (AppOK, Complete) and the hypotheses Disciplined / PrefixRun are now DERIVED "
        "(exec_refines_segments, exec_blocking_disciplined, exec_cut_is_prefix, exec_ack_complete) from an operational model of the batch attempt and the "
        "blocking sender (Model/ClusterExec.lean: node queues in any interleaving, cut anywhere, redirects followed at reply time, position batch after "
        "the acknowledgement, retry after a redirect error, restart at any moment), and exec_never_skip / exec_downward_closed / "
        "exec_stored_position_covered state the composition for the target's REAL log and stored position with the cluster hypothesis QuietRun only. "
        "What remains: (a) that model is hand-written; its guards (a node processes its queue in order, one key in one node queue of a batch, a redirect "
        "is followed only after the earlier replies of the queue, Exec returns nil only after a good reply to everything, the position batch is put "
        "together after the data batch returned nil, only a redirect error is retried) are tied to the code by trace membership on the runs of both "
        "harnesses (op c19x) and by pinned source (c19_doBatch, c19_receiveReply, c19_execReturn, c19_positionSplit), not regenerated; (b) its fault "
        "alphabet has redirects, lost connections / cuts anywhere and failed followed redirects, NOT error replies: a node goes on with the commands "
        "pipelined behind an error reply and the client goes on following later redirects of the queue even after an error reply to a followed one "
        "(cluster.go handleReply returns such a reply as a reply; observed) - the gap this leaves in a key cannot be prevented by a pipelining client. "
        "A LOST reply (of a data command, of a followed request, of the position write) is in: `fail other`, the run ends, the request may still be "
        "applied afterwards (chaseExec / posChaseExec stay enabled after `fail other`); `fail redirect` means refused and NOT delivered elsewhere - "
        "true of the code since d698491 (before, handleReply reported a lost reply of a followed request as ErrMove/ErrAsk and the plain sender re-sent "
        "the queue below a position that request had stored: r4 review, scenario cp-chase-ac); `fail crossslot` = the recorded Put error, returned "
        "before anything is sent, retried by the plain sender; what executes of an OLD attempt after the retry's Put (bytes still on an aborted "
        "connection) is excluded by the back-off assumption, a late arrival makes the harness skip the trace (stray-answer / re-arrival), not reject it; (c) "
        "ClusterExec and ClusterRoute are two models of the same client, each tied to the code, with no refinement lemma between them: ClusterRoute "
        "computes the node answers from the migration state, ClusterExec takes them as events under QuietRun; identification of stream positions with "
        "command ids / byte offsets is done by the harness (position = index of the command, offset = its end); (d) keepLast theorems "
        "(segments_effective_prefix, segments_clean_final_equals_spec, exec_effective_prefix = the FINAL-VALUE statement on the real log below the "
        "stored position; exec_never_skip alone does not bound the final value) say nothing about APPEND/INCR-style repetition, which the property "
        "allows only as replay; (e) blocking modes only: the operational model has one attempt at a time (a single-flush pipelined run is replayed with "
        "split = 0 to show a storing cut); (f) of the required theorems exec_stored_position_covered_unsplit_false, dispatch_error_prefix, "
        "txn_batch_one_node, recv_failed_sends_nothing, stored_position_covered_pipelined_false restate a definition / a guard of the model (their "
        "content is the transcription, pinned as source facts); Complete's 'everything executed' and AppOK's 'nothing twice' are one step from the "
        "guards of ack / clientOk / Waiting - the derived content is the per-key ORDER and PREFIX part",
        "pipelined modes: the composition statement is false (stored_position_covered_pipelined_false, exec_stored_position_covered_unsplit_false: "
        "decide-checked counter-witnesses = C19-F2; reorder = C19-F1); stored_position_covered_stmt / exec_stored_position_covered_stmt are the full "
        "statements kept for them. The transactional pipelined resumable combination no longer exists (2aa2a9b: falls back to blocking). Without "
        "resuming from the target the same mechanism moves the IN-MEMORY position (setMemCP when Dispatch returns, before the acknowledgement): not "
        "driven by the harness",
        "the transaction system T* models txnBatcher (used by bisync); the transactional path of sendCmdsBatch goes through Batch/batch2 with "
        "Put(multi)/Put(exec) that the cluster client drops (one-node constraint, no atomicity): covered by the PLAIN system on traces of the "
        "harness modes stxn/stxnpipe and by C19out, with no theorem of its own about the one-node constraint",
        "executed_at_owner is a lemma about the server model (a node only executes what it serves), unexecuted_blocks_ok and "
        "txn_mode_no_double_execution restate admissibility guards of the model through the bookkeeping invariants: the client's obligations "
        "are those guards, checked on the code by trace membership only",
        "liveness is out of scope: unbounded handleMove recursion, update() rejecting partial CLUSTER SLOTS coverage, delays beyond a read "
        "timeout (the cluster client of NewRedisCluster sets none)",
        "per_key_order: proved as per_key_order_partial under QuietRun; the unconditional statement is false in the model "
        "(per_key_order_stmt_false, ping-pong of a slot inside one pipeline)",
        "per-key order of pipelined transactions (txnpipe, window>1) is not a theorem: only sequential use (txn_sequential_order); "
        "C19-F1 (D22) shows it fails in the code",
        "multi-key commands: the model has single-key commands; TRYAGAIN/CROSSSLOT are the generic `err` answer (executes nothing, "
        "batch reports an error); checked on the code by the monitor only",
        "goroutine interleaving of per-node batches and socket timing are sampled by the tie, not enumerated",
    ],
}

MANIFEST = {
    "text": "Lean theorems over ALL event lists of a protocol-level transition system (cluster = owner/migrating/importing/atDst evolving by "
            "migration steps between or during batches; client slot map with asynchronous/synchronous refresh; per-node FIFO pipelines in any "
            "interleaving; MOVED/ASK(+ASKING)/error answers; sender retry segments): executed commands of each key are strictly increasing in "
            "source order per run segment (under the no-ping-pong hypothesis, shown necessary), every command of an acknowledged batch was "
            "executed by the slot owner or the ASK-designated importing node, an unexecuted command makes `ok` impossible, transactions execute "
            "at most once per run and in order when used sequentially. Composition over sender segments (retries, restarts from the stored position) "
            "is derived from an operational model of the batch attempt and the blocking sender (refinement to the segment automaton: never skips, stored "
            "position covered, no re-dispatch of a transactional batch reaches a node twice). Tie: traces of the real client against a 3-4 node cluster double are "
            "replayed through the model (membership) and per-node/per-key sequences compared; an independent Go monitor checks the property on "
            "the double's execution log.",
    "note": "trusted: Lean kernel, Redis redirection rules (model + double), harness; model hand-written, tied by trace membership; "
            "QuietRun hypothesis; pipelined cross-batch reorder recorded as finding C19-F1 (D22)",
    "technique": "Lean 4 proof (invariants over a labelled transition system, induction on event lists) + trace-membership correspondence + runtime monitor",
}
