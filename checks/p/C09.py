PROP = {
    "lean_modules": ["GunYu.Props.C09"],
    "audit_namespaces": ["GunYu.Props.C09"],
    "required_theorems": ['GunYu.Props.C09.no_flush_inside_txn', 'GunYu.Props.C09.no_flush_inside_txn_run', 'GunYu.Props.C09.multi_opens', 'GunYu.Props.C09.exec_flushes_one_block', 'GunYu.Props.C09.block_prefix_applies_nothing', 'GunYu.Props.C09.block_complete_applies_all'],
    "expected_facts": {},
    "harness": [{"name": "Sender", "pkg": "./syncer/", "test": "TestVerifSender", "timeout_thorough": "60m"}],
    "driver": "drv_Sender",
    "gens": ["c10"],
    "violation_prefix": "C09:",
    "rule": "cases = (config, stream, schedule): config over txn/ticker mode x resumable x pipelined x batch count {1,2,3,4,8,100} x byte limit {1,40,200,2^30} x TargetDb/TargetDbMap x db/command/prefix filters x startDbId/pre-existing checkpoints; stream of 0-30 (quick) / 0-60 (thorough) source commands (binary args, SELECT to mapped/unmapped/filtered DBs, MULTI groups of 0-4 commands, PING, REPLCONF GETACK, sentinel hello, blacklisted and NoRoute commands, keys with reserved/filtered prefixes); schedule = writes of 1-6 commands at chosen virtual instants with idle gaps of 0-12 s (also before the first item) and five ticker-period triples, run on the REAL RedisOutput.sendAof (parser goroutine, sendCmdsBatch loop, real conn.RedisConn batchers) inside testing/synctest against the target double; output = the target's request log with the DB each request executes in, plus the real StartPoint after every (thorough) / sampled (quick) crash prefix of that log; compared line by line with the Lean model (parseStep, run, applyLog, startPoint). Independent Go monitors check the property on the real log. distinct_nontrivial = distinct non-empty request logs.",
    "trusted": ['target double (harness/overlay/pkg/vfdoubles/target.go): MULTI/EXEC atomicity, per-DB hashes, INFO keyspace; Redis command semantics of data commands are not interpreted', 'Go testing/synctest virtual time; select over simultaneously ready channels is never exercised (ticker periods and write instants are pairwise distinct)', 'RESP decoding (C12) and the filter functions (C10) are parameters of the model here: theorems hold for every filter'],
    "assumptions": ['healthy target (no error replies); receive-side error timing of the pipelined sender is runtime behaviour outside the model', 'source stream well formed: increasing offsets; transactions not nested (Redis never propagates nested MULTI)', 'strings.EqualFold on the sentinel hello channel is modelled as ASCII case folding'],
    "partial": ['stated per transaction segment (state InsideTxn) rather than as one theorem over whole streams with arbitrarily many transactions; composition is by no_flush_inside_txn_run + multi_opens + exec_flushes_one_block'],
}

MANIFEST = {
    "text": "Lean theorems: between a consumed MULTI and its EXEC no event of any kind (ticks, size/byte limits, keep-alive, commands) sends anything (no_flush_inside_txn_run); MULTI flushes the pending batch with the position BEFORE the MULTI and opens with an empty queue (multi_opens); EXEC sends the whole transaction as one MULTI..EXEC block with the EXEC's offset inside it (exec_flushes_one_block); on the target every strict prefix of a block applies nothing and the complete block applies all (block_prefix_applies_nothing, block_complete_applies_all). Tied to the real code by correspondence; monitors check block membership and resume-inside-transaction on the real log.",
    "note": "trusted: Lean kernel (propext, Classical.choice, Quot.sound only); hand-written models Sender.lean/Target.lean tied by correspondence (not regenerated); target double; synctest virtual time; healthy target assumed",
    "technique": "Lean 4 proof (invariants by induction over arbitrary event lists; wire-order invariant) + differential correspondence of the real sender under virtual time + crash-prefix exploration",
}
