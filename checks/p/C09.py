PROP = {
    "lean_modules": ["GunYu.Props.C09"],
    "audit_namespaces": ["GunYu.Props.C09"],
    "required_theorems": [],
    "expected_facts": {},
    "harness": [{"name": "Sender", "pkg": "./syncer/", "test": "TestVerifSender"}],
    "driver": "drv_Sender",
    "violation_prefix": "C09:",
    "rule": "TODO",
    "trusted": [],
    "assumptions": [],
}

MANIFEST = {
    "text": "TODO",
    "note": "TODO",
    "technique": "Lean 4 proof (invariants by induction over event lists) + differential correspondence under virtual time",
}
