PROP = {
    "lean_modules": ["GunYu.Props.C09"],
    "audit_namespaces": ["GunYu.Props.C09"],
    "required_theorems": ['GunYu.Props.C09.no_flush_inside_txn', 'GunYu.Props.C09.no_flush_inside_txn_run', 'GunYu.Props.C09.multi_opens', 'GunYu.Props.C09.exec_flushes_one_block', 'GunYu.Props.C09.block_prefix_applies_nothing', 'GunYu.Props.C09.block_complete_applies_all', 'GunYu.Props.C09.source_txn_is_one_block', 'GunYu.Props.C09.source_txn_is_one_block_src'],
    "expected_facts": {"sender_src": {
        "pkg/redis/checkpoint/checkpoint.go:GetCheckpoint": "50a563812be29664",
        "pkg/redis/checkpoint/checkpoint.go:fetchCheckpoint": "88bc56bddceba24b",
        "syncer/output.go:StartPoint": "7b6458574290bd0d",
        "syncer/output.go:buildSelectCmdExecution": "63f0b21f8a066f45",
        "syncer/output.go:checkpoint": "75bf5e2381107f2c",
        "syncer/output.go:parseAofCommand": "db39fcdce07f10d4",
        "syncer/output.go:selectDB": "2489f312ebee2a1e",
        "syncer/output.go:sendAof": "6607e517ed10bfb6",
        "syncer/output.go:sendCmdsBatch": "334c0aed36b88ff1",
        "syncer/transaction.go:transactionStatus": "07f49e3410d200d0"
}},
    "harness": [{"name": "Sender", "pkg": "./syncer/", "test": "TestVerifSender", "timeout_thorough": "60m"}],
    "driver": "drv_Sender",
    "gens": ["c10", "c01"],
    "violation_prefix": "C09:",
    "rule": "cases = (config, stream, schedule): config over txn/ticker mode x resumable x pipelined x batch count {1,2,3,4,8,100} x byte limit {1,40,200,2^30} x TargetDb and/or TargetDbMap (also both: TargetDb wins) x db/command/prefix filters x startDbId/pre-existing checkpoints (incl. records of other equal-length run ids) x start offsets up to 2^53; stream of 0-30 (quick) / 0-60 (thorough) source commands (binary args, SELECT to mapped/unmapped/filtered DBs incl. two-digit ones, MULTI groups of 0-4 and occasionally 9-25 commands with SELECTs inside, PING, REPLCONF GETACK, sentinel hello, blacklisted commands and ANY command of the fixed no-route list, keys with reserved/filtered prefixes incl. the bisync namespace); schedule = writes of 1-6 commands at chosen virtual instants with idle gaps of 0-12 s (also before the first item, also right after a MULTI) and five ticker-period triples, run on the REAL RedisOutput.sendAof (parser goroutine, sendCmdsBatch loop, real conn.RedisConn batchers) inside testing/synctest against the target double; output = the target's request log with the DB each request executes in, plus the real StartPoint after every (thorough) / sampled (quick) crash prefix of that log; compared line by line with the Lean model (parseStep, run, applyLog, startPoint). On top, judged by independent Go monitors on the real log only: (a) from 2 (quick) / 4 (thorough) sampled crash prefixes per case (every prefix for corpus cases) the REAL restart -- a fresh RedisOutput on the crashed target, real StartPoint, real sendAof over the stream suffix (resumed-run-differs / write-skipped / write-repeated); (b) for the in-memory position (resume off) the in-process re-run after a source reconnect on the SAME RedisOutput, the first run having received a prefix of the stream (rerun-wrong-db / rerun-repeats / rerun-differs); (c) a quarter of the cases again against a target that takes 1 ms .. 3.1 s of virtual time per request, so that ticks, the end of the stream and items become ready while a batch is in flight (not sent to the model: the order the loop picks is not a function of the instants). 1500 (quick) / 15000 (thorough) generated cases + corpus. distinct_nontrivial = distinct non-empty request logs.",
    "trusted": ['target double (harness/overlay/pkg/vfdoubles/target.go): MULTI/EXEC atomicity, per-DB hashes, INFO keyspace; Redis command semantics of data commands are not interpreted', 'Go testing/synctest virtual time; select over simultaneously ready channels is never exercised (ticker periods and write instants are pairwise distinct)', 'RESP decoding (C12) and the filter functions (C10) are parameters of the model here: theorems hold for every filter'],
    "assumptions": ['healthy target (no error replies); receive-side error timing of the pipelined sender is runtime behaviour outside the model', 'source stream well formed: increasing offsets; transactions not nested (Redis never propagates nested MULTI)', 'strings.EqualFold on the sentinel hello channel is modelled as ASCII case folding'],
    "partial": ['source_txn_is_one_block composes the per-segment theorems for a transaction at ANY position of ANY stream (arbitrary prefix, body and interleaved ticks); it is stated for a transaction that forwards at least one command (an empty or wholly filtered transaction sends at most a checkpoint-only block) ; source_txn_is_one_block_src replaces the hypothesis on the sender state before the MULTI by `the brackets of the schedule are not nested` (Redis never propagates a nested MULTI), which for the output of the parser follows from the source stream (Props.C01 noNested_of_items / parseAll_noNested)'],
}

MANIFEST = {
    "text": "Lean theorems: between a consumed MULTI and its EXEC no event of any kind (ticks, size/byte limits, keep-alive, commands) sends anything (no_flush_inside_txn_run); MULTI flushes the pending batch with the position BEFORE the MULTI and opens with an empty queue (multi_opens); EXEC sends the whole transaction as one MULTI..EXEC block with the EXEC's offset inside it (exec_flushes_one_block); on the target every strict prefix of a block applies nothing and the complete block applies all (block_prefix_applies_nothing, block_complete_applies_all). Tied to the real code by correspondence; monitors check block membership and resume-inside-transaction on the real log.",
    "note": "trusted: Lean kernel (propext, Classical.choice, Quot.sound only); hand-written models Sender.lean/Target.lean tied by correspondence (not regenerated); target double; synctest virtual time; healthy target assumed",
    "technique": "Lean 4 proof (invariants by induction over arbitrary event lists; wire-order invariant) + differential correspondence of the real sender under virtual time + crash-prefix exploration",
}
