EXPECTED_DECODER_SITES = [
    "NewDecoder: return &Decoder{r: r, offset: 0}",
    "MustDecodeOpt: return resp, -1, err",
    "MustDecodeOpt: return resp, d.offset, nil",
    "decodeResp: read UnreadByte",
    "decodeType: d.offset++",
    "decodeType: read ReadByte",
    "decodeText: read ReadBytes",
    "decodeText: d.offset += int64(len(b))",
    "decodeBulkBytes: read io.ReadFull",
    "decodeBulkBytes: d.offset += int64(len(b))",
    "decodeSingleLineBulkBytesArray: read ReadBytes",
    "decodeSingleLineBulkBytesArray: d.offset += int64(len(b))",
]

EXPECTED_DECODER_USERS = [
    "cmd/aof.go:Cmd:MustDecodeOpt",
    "cmd/aof.go:Cmd:NewDecoder",
    "syncer/bisync.go:parseAofReplayUnits:MustDecodeOpt",
    "syncer/bisync.go:parseAofReplayUnits:NewDecoder",
    "syncer/output.go:parseAofCommand:MustDecodeOpt",
    "syncer/output.go:parseAofCommand:NewDecoder",
]

# distinct forms (every use of the variable bound to MustDecodeOpt's offset must be one of these)
EXPECTED_OFFSET_USES = [
    "cmd/aof.go:Cmd:arg of log.Info",
    "syncer/bisync.go:parseAofReplayUnits:startOffset + incrOffset",
    "syncer/output.go:parseAofCommand:startOffset + incrOffset",
]

# textual tie only: how endOffset (= startOffset + incrOffset) becomes unit boundaries on the
# bidirectional path; the resulting offsets are checked on the real parser by C13
EXPECTED_BISYNC_FLOW = [
    "endOffset := startOffset + incrOffset",
    "makeCmd(.., endOffset)",
    "prevOffset = endOffset",
    "prevOffset = startOffset",
    "txnStart = prevOffset",
    "unit(prevOffset, endOffset)",
    "unit(txnStart, endOffset)",
]


PROP = {
    "lean_modules": ["GunYu.Props.C12"],
    "audit_namespaces": ["GunYu.Props.C12"],
    "required_theorems": [
        "GunYu.Props.C12.dec_natToDec",
        "GunYu.Props.C12.parseInt64_natToDec",
        "GunYu.Props.C12.parseInt64_intToDec",
        "GunYu.Props.C12.decodeOne_encode",
        "GunYu.Props.C12.decodeOne_newlines_encode",
        "GunYu.Props.C12.boundaries_getElem?",
        "GunYu.Props.C12.decodeAll_offsets",
        "GunYu.Props.C12.decodeAll_prefix",
        "GunYu.Props.C12.decodeOne_truncated",
        "GunYu.Props.C12.decodeAll_truncated",
        "GunYu.Props.C12.decodeAllFrom_offsets",
        "GunYu.Props.C12.decodeAll_offsets_int64",
        "GunYu.Props.C12.writeArgs_eq_encodeCmd",
        "GunYu.Props.C12.decode_writeArgs",
        "GunYu.Props.C12.decodeResp_offset_exact",
    ],
    "expected_facts": {
        "c12_decoder_sites": EXPECTED_DECODER_SITES,
        "c12_decoder_users": EXPECTED_DECODER_USERS,
        "c12_offset_uses": EXPECTED_OFFSET_USES,
        "c12_start_offset_reassigned": [],
        "c12_bisync_offset_flow": EXPECTED_BISYNC_FLOW,
    },
    "harness": [{"name": "C12", "pkg": "./pkg/redis/client/", "test": "TestVerifC12",
                 "timeout_quick": "10m", "timeout_thorough": "40m"}],
    "driver": "drv_C12",
    "rule": "streams: corpus of canonical / non-canonical-but-accepted / malformed forms; single commands with every argument size "
            "0,1,2,127-129,4095-4097,65535-65537 at argument positions 1-3 (random binary, protocol-character, all-LF, CRLF and "
            "embedded-command contents); argument counts 1-300; generated sequences of 1-60 (thorough 1-300) commands with "
            "LF keep-alive runs between commands and start offsets 0 … 2^62; one (thorough: four) 2-6 MiB argument per run; "
            "every truncation and every single-byte substitution/deletion of two short streams, token soup and corrupted "
            "generated streams. Each stream is read by the real client.Decoder (NewDecoder, MustDecodeOpt, ParseArgs, "
            "offset = start + incrOffset as in syncer.parseAofCommand) through bufio sizes 16 … 1 MiB over a reader that returns "
            "1 … k bytes per call (k = 1 … 2^30), 3 (thorough 6) configurations per stream which must agree line by line; the first "
            "is diffed with the Lean model (decodeAllFrom). For a quarter of the streams Decoder.offset is preset (in-package) to "
            "2^31-3, 2^32-3, 2^53-3 or 2^62 before the first read, so that the int64 MustDecodeOpt returns is exercised across those "
            "boundaries (monitor: offset == start + preset + bytes consumed). proto.Writer.WriteArgs (all integer widths, bool, nil, "
            "string, []byte, net.IP, Duration, float64/float32 incl. 0.1, 1e21, 5e-324, ±Inf, -0, 2^53±1, float32-unrepresentable "
            "values and random bit patterns — wire text must equal FormatFloat(f,'f',-1,64) and ParseFloat(text) must be bit-identical "
            "to f —, one multi-MiB []byte) and client.Encode outputs are diffed with writeArgs / encodeCmd and decoded "
            "again by the real decoder and by the model. Monitor (independent strict RESP oracle in the harness): decoded name "
            "and argument bytes == bytes sent, offset == start + bytes up to and including the command, clean io.EOF at the end. "
            "distinct_nontrivial = distinct well-formed streams with more than one command or more than 128 bytes. "
            "Arguments longer than 24 bytes are compared as length + FNV-1a-64.",
    "trusted": [
        "RESP multi-bulk framing as transcribed in Model/Resp.lean (encodeCmd/encodeBulk); client.Encode is diffed against it",
        "Go bufio.Reader / io.ReadFull: the byte sequence delivered is independent of buffer size and read fragmentation "
        "(exercised by the harness, not part of the theorems)",
        "strconv.ParseInt / AppendInt / AppendUint as modelled by parseInt64 / intToDec / natToDec (diffed on generated and boundary values)",
    ],
    "assumptions": [
        "decoder model (decodeType/decodeText/decodeInt/decodeBulk/decodeArray/inline/ParseArgs) is hand-written and tied by "
        "correspondence; read sites, `d.offset` updates and the return statements of MustDecodeOpt/NewDecoder in decoder.go, the users "
        "of the decoder (any package alias, in-package callers) and every use of incrOffset (`startOffset + incrOffset`, startOffset "
        "never reassigned) are re-extracted each run and compared with the expected lists",
        "DEPENDENCIES — C12 runs the decoder, ParseArgs, Encode and WriteArgs, not the parser loops around them. That the real "
        "syncer.parseAofCommand keeps each command's arguments intact while it decodes on (the `data` slice / sendBuf) and attaches "
        "startOffset+incrOffset to the right command is checked on the real loop by C01/C02 (sender harness); that "
        "syncer.parseAofReplayUnits turns endOffset/prevOffset/txnStart into correct unit boundaries is checked by C13. C12 only "
        "ties those call sites textually (c12_offset_uses, c12_bisync_offset_flow). The start offset passed in by the callers is C06/C16.",
        "offsets are natural numbers in the model; Go computes them in int64. decodeAll_offsets_int64 shows every reported offset is "
        "below 2^63 when the end of the stream is, so no wrap-around is needed; a narrowing inside the decoder or MustDecodeOpt is "
        "searched for by the preset-offset streams (2^31, 2^32, 2^53, 2^62), not proved absent for all counter values",
        "WF: argument and argument-list lengths below 2^63 (true of every Go slice), a non-empty and ASCII command name. "
        "strings.ToLower's Unicode path (non-ASCII / invalid UTF-8 names are rewritten by Go) is not modelled and not generated; "
        "arguments are arbitrary bytes",
        "error classes: io.EOF inside a header or length line (ReadBytes returns the partial line + io.EOF) is the same class `eof` as a "
        "clean end of stream, in the code and in the model; only a cut inside a bulk payload gives ErrUnexpectedEOF. "
        "decodeAll_truncated shows complete commands are unaffected; properties that reason about a 'clean EOF' (C04/C05) must not "
        "read `eof` as 'ended on a command boundary'",
        "float arguments DO reach WriteArgs: zset scores on the snapshot path (rdb_object.go ZSetParser.ExecCmd → Send/Do → "
        "Writer.float). The model carries a float as the text strconv.AppendFloat(f,'f',-1,64) produces and proves the framing of that "
        "text; the digits are trusted to strconv and checked on the real writer by the harness (text == FormatFloat, ParseFloat(text) "
        "bit-identical). time.Time and BinaryMarshaler arguments are not used by the tool and not modelled",
        "observation, outside the quantifier (multi-bulk only): an inline command's first byte is counted twice "
        "(decodeType counts it, UnreadByte, then the whole line is counted) — model transcribes it, example in Props/C12.lean",
        "observation, outside C12: the decoder allocates `$n`/`*n` without an upper bound, so a corrupt length can panic or exhaust "
        "memory instead of returning an error; the malformed-stream generator avoids 7-19 digit lengths",
        "observation: bisyncAofCommand.EndOffset (set by makeCmd in parseAofReplayUnits) is never read — dead field",
    ],
    "partial": [],
}

MANIFEST = {
    "text": "Lean theorems over ALL argument lists / command sequences / start offsets / trailing bytes: the model of client.Decoder + ParseArgs "
            "applied to the RESP encoding of any command returns exactly the sent argument bytes, an offset equal to the encoded length and "
            "leaves the rest unread (also after LF keep-alives); the parser loop reports offsets equal to the stream boundaries and ends with EOF; "
            "a damaged tail does not disturb the completely received prefix and a stream cut inside a command reports exactly the complete "
            "commands and then EOF/ErrUnexpectedEOF (nothing invented); a decoder whose counter is preset keeps exact offsets; WriteArgs framing decodes back to the same arguments; for every "
            "accepted typed value (canonical or not, nested or not) the counter advances by exactly the bytes consumed. The hand-written decoder "
            "model is tied to the Go code by differential correspondence through many bufio sizes and read fragmentations, plus extracted "
            "read-site / offset-arithmetic facts.",
    "note": "trusted: Lean kernel (propext, Classical.choice, Quot.sound only), RESP framing transcription, bufio fragmentation independence, "
            "strconv, extractor, harness; decoder functions modelled by hand (correspondence). Inline commands (outside the quantifier) double-count "
            "their first byte — recorded as an observation.",
    "technique": "Lean 4 proof (structural induction over argument lists / command sequences / fuel-bounded nesting, decimal round trip) "
                 "+ differential correspondence + direct monitor with an independent strict RESP oracle",
}
