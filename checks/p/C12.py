# multi-bulk path only; the inline-command path (decodeSingleLineBulkBytesArray, the `default:` clause
# of decodeResp) is extracted as c12_decoder_sites_inline but NOT pinned: it is outside the quantifier
EXPECTED_DECODER_SITES = [
    "NewDecoder: return &Decoder{r: v0, offset: 0}",
    "MustDecodeOpt: return v1, -1, v2",
    "MustDecodeOpt: return v1, v0.offset, nil",
    "decodeType: d.offset++",
    "decodeType: read ReadByte()",
    "decodeText: read ReadBytes('\\n')",
    "decodeText: d.offset += int64(len(d.r.ReadBytes('\\n')#0))",
    "decodeBulkBytes: read full(make([]byte, d.decodeInt()#0 + 2))",
    "decodeBulkBytes: d.offset += int64(len(make([]byte, d.decodeInt()#0 + 2)))",
]

# decodeType / decodeText / decodeBulkBytes are tied STRUCTURALLY (harness/extract/c12_flow.go), not by body digest:
# EXPECTED_DECODER_SITES renders their reader calls (with the size, by def-use: `full` = io.ReadFull or
# io.ReadAtLeast(.., len(b))) and their offset increments; EXPECTED_DECODER_CONSTS is what they - and any helper
# of decoder.go they are split into - compare and call (literals as a multiset, number of comparisons, fields,
# qualified calls, builtins). goto -> for, an extracted helper, ReadFull -> ReadAtLeast, renamed locals leave both
# alone; a new threshold, another size, a dropped / added reader call or increment, a new field do not.
EXPECTED_DECODER_CONSTS = ["lit '\\n'", "lit '\\n'", "lit '\\n'", "lit '\\r'", "lit '\\r'", "lit 0", "lit 0", "lit 0", "lit 0", "lit 1", "lit 1", "lit 1", "lit 2", "lit 2", "comparisons 11", "builtin len", "builtin make", "call errors.WithStack", "call io.full", "field d.decodeInt", "field d.offset", "field d.r"]

# digests of the function bodies the model transcribes (decodeResp without its default clause) and of
# RedisConn.Send/send, taken of a NORMAL FORM (harness/extract/c12_norm.go: local / parameter / label names
# replaced by position, comments dropped, error and log texts blanked), so that renaming a local or
# rewording an error is not a tie failure. A mismatch means "re-read the model against the code", it is a broken TIE,
# not evidence of a defect; size-dependent control flow that no practical input reaches (e.g. a cap
# on `$n` at 512 MiB) is only visible here.
EXPECTED_BODIES = {
    "pkg/redis/client/conn/redis_conn.go:Send": "25526f5e11f5",
    "pkg/redis/client/conn/redis_conn.go:send": "955436b105c1",
    "pkg/redis/client/decoder.go:MustDecodeOpt": "4bffc1e7d964",
    "pkg/redis/client/decoder.go:NewDecoder": "637b87f00bb7",
    "pkg/redis/client/decoder.go:decodeArray": "0173a76a069a",
    "pkg/redis/client/decoder.go:decodeInt": "7931778adf8a",
    "pkg/redis/client/decoder.go:decodeResp": "a267e76ba730",
    "pkg/redis/client/encoder.go:encodeArray": "7ba0219badfe",
    "pkg/redis/client/encoder.go:encodeBulkBytes": "51d1eaac2777",
    "pkg/redis/client/encoder.go:encodeInt": "5135ed61747c",
    "pkg/redis/client/encoder.go:encodeResp": "8abf28305905",
    "pkg/redis/client/encoder.go:encodeString": "bc85a2e84d27",
    "pkg/redis/client/encoder.go:encodeType": "c2f926b1f2bd",
    "pkg/redis/client/encoder.go:itos": "8e46bd2e4846",
    "pkg/redis/client/handler.go:ChangeArgsToResp": "6cb51a4ebac4",
    "pkg/redis/client/handler.go:ParseArgs": "2159b60c1b48",
    "pkg/redis/client/proto/writer.go:WriteArg": "c449f4e751e8",
    "pkg/redis/client/proto/writer.go:WriteArgs": "697009d6b6e8",
    "pkg/redis/client/proto/writer.go:bytes": "1d5ad83d59ec",
    "pkg/redis/client/proto/writer.go:crlf": "b867e199ea42",
    "pkg/redis/client/proto/writer.go:int": "4261da086039",
    "pkg/redis/client/proto/writer.go:string": "1bb1d8ee7019",
    "pkg/redis/client/proto/writer.go:uint": "e35f42cab711",
    "pkg/redis/client/proto/writer.go:writeLen": "a2de7ee00897",
    "pkg/redis/client/resp.go:AsArray": "bb7c23daf2ee",
    "pkg/redis/client/resp.go:AsBulkBytes": "f9bea8cc8294",
}

# the standard library functions the bufio model (Model/RespFrag.lean) transcribes, digested (normal form) from
# GOROOT/src of the toolchain that builds extractor and harness (go1.26.8 when recorded): another Go release with a
# changed bufio.Reader / io.ReadAtLeast is a broken TIE - re-read the model against it, then refresh
EXPECTED_BUFIO = {
    "bufio/bufio.go:Buffered": "e8093d78c27a",
    "bufio/bufio.go:NewReaderSize": "6ca2a409e22d",
    "bufio/bufio.go:Read": "2da3f88132d4",
    "bufio/bufio.go:ReadByte": "3c5964d40cc9",
    "bufio/bufio.go:ReadBytes": "e219390addfd",
    "bufio/bufio.go:ReadSlice": "7cd19b8d38a2",
    "bufio/bufio.go:UnreadByte": "d55bb28f7263",
    "bufio/bufio.go:collectFragments": "c50ffa91b4dd",
    "bufio/bufio.go:fill": "b91b2994ddae",
    "bufio/bufio.go:readErr": "4fd41e2cebe7",
    "io/io.go:ReadAtLeast": "a4b93bb2b527",
    "io/io.go:ReadFull": "33b44fb13af4",
}

# dimension audit, item 4: package-level variables of the decoder / encoder / writer files and the functions that
# write them. Only `imap` is written, and only in init (a read-only table for the code under test; its range
# -1024 … 524287 is a threshold the `en` ops draw on both sides): there is no mutable process-global state, so no
# first-use / concurrent-use dimension. A new entry here (a pool, a cache, a sync.Once) is a tie failure.
EXPECTED_GLOBALS = [
    "pkg/redis/client/decoder.go: var ErrBadRespArrayLen",
    "pkg/redis/client/decoder.go: var ErrBadRespBytesLen",
    "pkg/redis/client/decoder.go: var ErrBadRespCRLFEnd",
    "pkg/redis/client/encoder.go: imap written in init",
    "pkg/redis/client/encoder.go: var imap",
    "pkg/redis/client/proto/writer.go: var crlfBytes"
]

EXPECTED_DECODER_USERS = [
    "cmd/aof.go:Cmd:MustDecodeOpt",
    "cmd/aof.go:Cmd:NewDecoder",
    "syncer/bisync.go:parseAofReplayUnits:MustDecodeOpt",
    "syncer/bisync.go:parseAofReplayUnits:NewDecoder",
    "syncer/output.go:parseAofCommand:MustDecodeOpt",
    "syncer/output.go:parseAofCommand:NewDecoder",
]

# distinct uses of the variable bound to MustDecodeOpt's offset, each rendered as its WHOLE enclosing
# statement (or `Key: value`), so an extra term (`… - 1`) cannot hide behind the innermost sum
EXPECTED_OFFSET_USES = [
    "cmd/aof.go:Cmd:log.Info(\"offset(%d), cmd(%d), %s\", incrOffset, sCmd, argv)",
    "syncer/bisync.go:parseAofReplayUnits:endOffset := startOffset + incrOffset",
    "syncer/output.go:parseAofCommand:endOffset := startOffset + incrOffset",
    "syncer/output.go:parseAofCommand:lastSent = startOffset + incrOffset",
    "syncer/output.go:parseAofCommand:sendBuf <- buildSelectCmdExecution(currentDB, startOffset+incrOffset)"
]

# textual tie only: how endOffset (= startOffset + incrOffset) becomes unit boundaries on the
# bidirectional path; the resulting offsets are checked on the real parser by C13
EXPECTED_BISYNC_FLOW = [
    "endOffset := startOffset + incrOffset",
    "makeCmd(.., endOffset)",
    "prevOffset = endOffset",
    "prevOffset = startOffset",
    "txnStart = prevOffset",
    "unit(prevOffset, endOffset)",
    "unit(txnStart, endOffset)",
]


PROP = {
    "lean_modules": ["GunYu.Props.C12", "GunYu.Props.C12Frag"],
    "audit_namespaces": ["GunYu.Props.C12"],
    "required_theorems": [
        "GunYu.Props.C12.dec_natToDec",
        "GunYu.Props.C12.parseInt64_natToDec",
        "GunYu.Props.C12.parseInt64_intToDec",
        "GunYu.Props.C12.decodeOne_encode",
        "GunYu.Props.C12.decodeOne_newlines_encode",
        "GunYu.Props.C12.boundaries_getElem?",
        "GunYu.Props.C12.decodeAll_offsets",
        "GunYu.Props.C12.decodeAll_prefix",
        "GunYu.Props.C12.decodeOne_truncated",
        "GunYu.Props.C12.decodeAll_truncated",
        "GunYu.Props.C12.decodeAllFrom_offsets",
        "GunYu.Props.C12.decodeAll_offsets_le_end",
        "GunYu.Props.C12.int64_add_exact",
        "GunYu.Props.C12.counter_int64_exact",
        "GunYu.Props.C12.parser_sum_int64_exact",
        "GunYu.Props.C12.writeArgs_eq_encodeCmd",
        "GunYu.Props.C12.decode_writeArgs",
        "GunYu.Props.C12.decodeResp_offset_exact",
        # session 5: any buffer size, any fragmentation (Model/RespFrag.lean: a model of bufio.Reader over a
        # piecewise reader); the counter in wrapping int64 without a no-overflow hypothesis
        "GunYu.Props.C12.decodeAll_any_fragmentation",
        "GunYu.Props.C12.decodeAll_fragmentation_independent",
        "GunYu.Props.C12.decodeAll_offsets_fragmented",
        "GunYu.Props.C12.decodeAll_truncated_fragmented",
        "GunYu.Props.C12.decodeResp_fragmented",
        "GunYu.Props.C12.writeArgs_roundtrip_fragmented",
        "GunYu.Props.C12.counter_int64_wraps",
        "GunYu.Props.C12.parser_sum_int64_wraps",
    ],
    "expected_facts": {
        "c12_decoder_sites": EXPECTED_DECODER_SITES,
        "c12_decoder_consts": EXPECTED_DECODER_CONSTS,
        "c12_decoder_users": EXPECTED_DECODER_USERS,
        "c12_offset_uses": EXPECTED_OFFSET_USES,
        "c12_start_offset_reassigned": [],
        "c12_bisync_offset_flow": EXPECTED_BISYNC_FLOW,
        "c12_bodies": EXPECTED_BODIES,
        "c12_bufio": EXPECTED_BUFIO,
        "c12_globals": EXPECTED_GLOBALS,
    },
    "harness": [{"name": "C12", "pkg": "./pkg/redis/client/", "test": "TestVerifC12",
                 "timeout_quick": "10m", "timeout_thorough": "40m"}],
    "driver": "drv_C12",
    "rule": "streams: corpus of canonical / non-canonical-but-accepted / malformed forms; single commands with every argument size "
            "0,1,2,127-129,4095-4097,65535-65537 at argument positions 1-3 (random binary, protocol-character, all-LF, CRLF and "
            "embedded-command contents); argument counts 1-300, 1024, 1025, 65537 (thorough also 2^20+1); generated sequences of 1-60 (thorough 1-300) commands with "
            "LF keep-alive runs between commands and start offsets 0 … 2^62; one (thorough: four) 2-6 MiB argument per run; "
            "every truncation and every single-byte substitution/deletion of two short streams, token soup and corrupted "
            "generated streams. Each stream is read by the real client.Decoder (NewDecoder, MustDecodeOpt, ParseArgs, "
            "offset = start + incrOffset as in syncer.parseAofCommand) through bufio sizes 16 … 1 MiB over a reader that returns "
            "1 … k bytes per call (k = 1 … 2^30), 3 (thorough 6) configurations per stream which must agree line by line (exact lines, "
            "same code on both sides); the first is diffed with the Lean model: streams INSIDE the quantifier (accepted by the strict "
            "oracle: canonical multi-bulk commands, optionally separated by LF) exactly (`dec`: name, args, offset, final io.EOF; model "
            "decodeAllFrom); streams OUTSIDE it (malformed, non-canonical, inline commands) coarsely (`decx`: the commands decoded before "
            "the decoder stops, offsets only until the first inline command, any error class = `stop`), so that repairing the inline "
            "double count or reclassifying an error on a malformed stream is not reported against C12. For a quarter of the streams Decoder.offset is preset (in-package) to "
            "2^31-3, 2^32-3, 2^53-3 or 2^62 before the first read, so that the int64 MustDecodeOpt returns is exercised across those "
            "boundaries (monitor: offset == start + preset + bytes consumed). proto.Writer.WriteArgs (all integer widths, bool, nil, "
            "string, []byte, net.IP, Duration, float64/float32 incl. 0.1, 1e21, 5e-324, ±Inf, -0, 2^53±1, float32-unrepresentable "
            "values and random bit patterns — ParseFloat(wire text) must be bit-identical to f; which round-tripping rendering the "
            "writer chooses is not checked, the op carries the writer's own text —, one multi-MiB []byte), sent through the real "
            "conn.RedisConn.Send + Flush over an in-memory connection (bytes must equal a bare Writer.WriteArgs), and client.Encode outputs are diffed with writeArgs / encodeCmd and decoded "
            "again by the real decoder and by the model. Monitor (independent strict RESP oracle in the harness): decoded name "
            "and argument bytes == bytes sent, offset == start + bytes up to and including the command, clean io.EOF at the end; and on "
            "EVERY stream, for every command returned before the first inline command: offset == start + preset + bytes really taken "
            "from the reader (reader position minus bufio.Buffered(), independent of d.offset). "
            "distinct_nontrivial = distinct well-formed streams with more than one command or more than 128 bytes. "
            "Arguments longer than 24 bytes are compared as length + FNV-1a-64. "
            "FRAGMENTATION (session 5, `fr` / `frx` ops): four fixed streams (binary arguments holding CR, LF, `$`; empty arguments; LF "
            "keep-alive runs; 12 arguments), one of them with the counter preset to 2^32-3, three streams outside the strict form "
            "(zero-padded length lines longer than the smallest buffer, signed lengths, an inline command longer than the buffer, a null "
            "bulk, a cut stream) and 12 (thorough 120) generated short streams are each read unfragmented, one byte per read, with a piece "
            "boundary at EVERY index, with every single byte isolated in a read of its own, with 4 random piece lists, and with readers that return (n, io.EOF) with the last "
            "bytes and / or (0, nil) up to three times in a row, through bufio sizes "
            "16, 17, 23, 64, 4096; one 66-72 KB argument through sizes 16 / 4096 / 65536 with random pieces up to 30000 bytes. The reader returns "
            "exactly the recorded pieces and records len(p) of every Read call that returned data; the Lean driver runs the bufio MODEL "
            "(Model/RespFrag.lean) on the same pieces. Compared per configuration: commands, offsets, final error AND the request sizes up to the "
            "last complete command (ties the bufio model to the standard library: fill into the free space, ErrBufferFull rounds, the large-read "
            "bypass of Reader.Read). All configurations of a stream must agree with the unfragmented run (fragmentation-dependence), the property "
            "monitor runs on each, and no two decoded arguments of a stream may occupy overlapping memory (args-share-memory; also on every "
            "`dec` stream). SAME-SIZE VALUES: streams whose consecutive values have identical sizes 14 … 1 MiB+3 (all held to the end). "
            "DIMENSION AUDIT (forced cases, counters dim_* / cfg_readBufSize_*): argument sizes cap-3 … cap+1 for bufio sizes 16, 64, 1024, 4096, 65536 "
            "(n and n+2 on both sides of every bufio threshold) as fr ops with the value starting anywhere in the buffer; 1023-1025; 26 degenerate "
            "streams cut at every index (argument count 0, `*-1`, integer / simple-string / error / null-bulk / nested-array / null-array elements, "
            "top-level non-arrays, empty CRLF lines, only newlines, inline commands of spaces / ending in bare LF, CR without LF after a payload / in a "
            "length line / at the end, a stream ending right after a `$n` line / a `*n` line / a type byte, empty name, `$+4` `$04` `$-2`), all-empty "
            "arguments, a keep-alive run longer than the buffer; streams ending exactly at MaxInt64 (by start, by preset, by both); every type WriteArg "
            "accepts at its boundary values (int / int8-64 min max, uint / uint8-64 max, float64 / float32 NaN ±Inf -0 max smallest, bool, nil, "
            "[]byte(nil), []byte{}, \"\", Duration, net.IP nil / 4 / 16 bytes, time.Time, BinaryMarshaler) alone, in the middle and all in one command, "
            "a type it refuses (no complete command may be sent), values at conn.WriterBufferSize; client.Encode with bulk lengths on both sides of "
            "the itos table's end (524287 / 524288); the decoder created on a bufio.Reader that was USED before (1 … 3*cap+5 bytes consumed, optionally "
            "UnreadByte) - monitor only; thorough: an argument of exactly 512 MiB. "
            "ABOVE 512 MiB (monitor only, `huge` replay): SET k <512 MiB+1 … +4096 pattern bytes>; PING from a lazy reader (reads of up to 8 MiB) "
            "through the real decoder - argument bytes against the pattern, both offsets, reader position; thorough adds one of 768 MiB+.",
    "trusted": [
        "RESP multi-bulk framing as transcribed in Model/Resp.lean (encodeCmd/encodeBulk); client.Encode is diffed against it",
        "Go bufio.Reader / io.ReadFull as MODELLED in Model/RespFrag.lean (fill, ReadByte, UnreadByte, ReadBytes = collectFragments over "
        "ReadSlice with its ErrBufferFull rounds and its pending-error branch, io.ReadFull = ReadAtLeast over Reader.Read with the large-read bypass "
        "and the single read into an empty buffer; the pending error b.err) - a hand transcription of go1.26.8 src/bufio/bufio.go and io/io.go, for "
        "EVERY reader io.Reader allows: pieces of any length including EMPTY ones (a `0, nil` read, retried by fill and by ReadAtLeast) and readers "
        "that return io.EOF TOGETHER with the last bytes (`eofLast`; the error stays pending in `err` and later operations answer without calling "
        "the reader; invariant ErrOK: pending implies exhausted). Independence of buffer size, fragmentation and kind of reader is a THEOREM about "
        "this model (decodeAll_any_fragmentation, quantified over size, pieces and eofLast). That the model IS the toolchain's bufio is tied (a) by "
        "the `fr` ops: same commands, offsets, final error AND same request sizes on the underlying reader, also for readers returning (0, nil) up "
        "to three times in a row and / or (n, io.EOF) (counters frag_reader_returns_zero_bytes_without_error / frag_reader_returns_eof_with_data), "
        "(b) by the source fact c12_bufio: digests of fill / readErr / Read / ReadByte / UnreadByte / Buffered / ReadSlice / collectFragments / "
        "ReadBytes / NewReaderSize and io.ReadAtLeast / ReadFull read from GOROOT/src of the toolchain that builds extractor and harness - "
        "ANOTHER GO RELEASE whose bufio differs is a broken tie (re-read the model, refresh EXPECTED_BUFIO), not silently another bufio. Two "
        "deviations, both unobservable in results and in the data-returning requests: fill's limit of 100 consecutive empty reads "
        "(io.ErrNoProgress) is not modelled - a reader that stalls 100 times in a row is outside the theorem; after a LARGE read that came with "
        "io.EOF bufio forgets the error (ReadAtLeast got it) and would call the reader once more, the model keeps it pending. The ghost fields "
        "`reqs` and `gas`: gas is proved never to run out for a reader created by Rd.new (Rd.new_inv + the invariant kept by every operation)",
        "strconv.ParseInt / AppendInt / AppendUint as modelled by parseInt64 / intToDec / natToDec (diffed on generated and boundary values)",
    ],
    "assumptions": [
        "decoder model (decodeType/decodeText/decodeInt/decodeBulk/decodeArray/inline/ParseArgs) is hand-written and tied by "
        "correspondence plus extracted facts compared each run: read sites, `d.offset` updates and return statements of the multi-bulk "
        "path of decoder.go; digests of the bodies of the transcribed functions (decoder multi-bulk path, ParseArgs, AsBulkBytes, "
        "AsArray, encoder, proto.Writer, RedisConn.Send/send); the users of the decoder; every use of incrOffset rendered as its "
        "whole enclosing statement; startOffset never reassigned. Sites and digests are taken of a normal form (harness/extract/c12_norm.go: "
        "receiver -> d, parameters / locals / labels -> v<i> by declaration order, comments dropped, error and log texts blanked), so a renamed "
        "local or receiver or a reworded error is not a tie failure. The three functions that read and count (decodeType, decodeText, "
        "decodeBulkBytes) are not digested at all: c12_decoder_sites renders their reader calls with the size and their offset increments by def-use "
        "(`read full(make([]byte, d.decodeInt()#0 + 2))`), c12_decoder_consts lists what they and any helper of decoder.go compare and call "
        "(literal multiset, comparison count, fields, qualified calls) - goto -> for, an extracted helper, ReadFull -> ReadAtLeast stay OK, a new "
        "threshold / size / reader call / increment / field does not. A fact mismatch is a broken TIE (`no-failing-input-found`): it means "
        "the model must be re-read against the changed code, it is not by itself evidence of a defect",
        "QUANTIFIER — replication streams are multi-bulk only (Redis propagates every command as `*n\\r\\n$len…`; an inline command is "
        "what a human types into telnet, the master never sends one). Inline commands are therefore OUTSIDE C12: the decoder counts "
        "their first byte twice (decodeType counts it, UnreadByte, then the whole line is counted again), which is recorded as an "
        "observation, not a C12 violation and not fixed here. The model transcribes the current behaviour (example in Props/C12.lean) "
        "but the check does not defend it: inline-path sites are not pinned and offsets are not compared from the first inline command "
        "on, so the one-line repair (`d.offset--` after UnreadByte) passes the check",
        "LARGE VALUES — one argument above 512 MiB (quick) and one above 768 MiB (thorough) go through the real decoder under the monitor "
        "(bytes, offsets, reader position) - not through the Lean driver, whose list representation would need ~12 GiB; the theorems hold for "
        "every length below 2^63 in the model. Control flow that depends on an argument larger than ~1 GiB stays visible only in the body "
        "digests (c12_bodies)",
        "ALIASING — the Lean model is value-based and cannot express shared memory: that a decoded argument stays intact while later commands "
        "are decoded is checked on the real decoder only (every result of a stream is held until its end and then compared; no two arguments may "
        "occupy overlapping memory; same-size values, values above 1 MiB and above 512 MiB included)",
        "DEPENDENCIES — C12 runs the decoder, ParseArgs, Encode and WriteArgs, not the parser loops around them. That the real "
        "syncer.parseAofCommand keeps each command's arguments intact while it decodes on (the `data` slice / sendBuf) and attaches "
        "startOffset+incrOffset to the right command is checked on the real loop by C01/C02 (sender harness); that "
        "syncer.parseAofReplayUnits turns endOffset/prevOffset/txnStart into correct unit boundaries is checked by C13. C12 only "
        "ties those call sites textually (c12_offset_uses, c12_bisync_offset_flow). The start offset passed in by the callers is C06/C16.",
        "offsets are natural numbers in the model; Go computes them in wrapping int64. Bridge (explicit no-overflow hypothesis "
        "`start + |stream| < 2^63`): decodeAll_offsets_le_end (every reported offset lies between start and the end of the stream), "
        "int64_add_exact / counter_int64_exact / parser_sum_int64_exact (Lean's Int64: the wrapping counter and the wrapping "
        "`startOffset + incrOffset` equal the natural-number values); WITHOUT the hypothesis: counter_int64_wraps / parser_sum_int64_wraps - the "
        "wrapping int64 counter and sum are ALWAYS the model's natural numbers reduced to 64 bits (so the hypothesis is only needed to read the "
        "result as a non-negative number). That the Go code really uses plain int64 additions and no narrower "
        "type is the body digests + the preset-offset streams (2^31, 2^32, 2^53, 2^62), not a theorem",
        "WF: argument and argument-list lengths below 2^63 (true of every Go slice), a non-empty and ASCII command name. "
        "strings.ToLower's Unicode path (non-ASCII / invalid UTF-8 names are rewritten by Go) is not modelled and not generated; "
        "arguments are arbitrary bytes",
        "error classes: io.EOF inside a header or length line (ReadBytes returns the partial line + io.EOF) is the same class `eof` as a "
        "clean end of stream, in the code and in the model; only a cut inside a bulk payload gives ErrUnexpectedEOF. "
        "decodeAll_truncated shows complete commands are unaffected; properties that reason about a 'clean EOF' (C04/C05) must not "
        "read `eof` as 'ended on a command boundary'",
        "float arguments DO reach WriteArgs: zset scores on the snapshot path (rdb_object.go ZSetParser.ExecCmd → Send/Do → "
        "Writer.float). The model carries a float as the text strconv.AppendFloat(f,'f',-1,64) produces and proves the framing of that "
        "text; the digits are trusted to strconv and checked on the real writer by the harness (ParseFloat(wire text) bit-identical "
        "to the float64 passed; the rendering itself is free). time.Time and BinaryMarshaler arguments are not used by the tool and not modelled",
        "observation, outside C12: the decoder allocates `$n`/`*n` without an upper bound, so a corrupt length can panic or exhaust "
        "memory instead of returning an error; the malformed-stream generator avoids 7-19 digit lengths",
        "observation: bisyncAofCommand.EndOffset (set by makeCmd in parseAofReplayUnits) is never read — dead field",
    ],
    "partial": [],
}

MANIFEST = {
    "text": "Lean theorems over ALL argument lists / command sequences / start offsets / trailing bytes: the model of client.Decoder + ParseArgs "
            "applied to the RESP encoding of any command returns exactly the sent argument bytes, an offset equal to the encoded length and "
            "leaves the rest unread (also after LF keep-alives); the parser loop reports offsets equal to the stream boundaries and ends with EOF; "
            "a damaged tail does not disturb the completely received prefix and a stream cut inside a command reports exactly the complete "
            "commands and then EOF/ErrUnexpectedEOF (nothing invented); a decoder whose counter is preset keeps exact offsets; WriteArgs framing decodes back to the same arguments; for every "
            "accepted typed value (canonical or not, nested or not) the counter advances by exactly the bytes consumed. FRAGMENTATION is in the theorems: "
            "the same decoder written over a model of bufio.Reader in front of a reader that cuts the stream into ARBITRARY pieces gives, for every "
            "buffer size and every piece list, exactly the result of the decoder over the plain bytes (decodeAll_any_fragmentation; "
            "decodeAll_offsets_fragmented: lossless with exact offsets through any buffer and fragmentation); the counter in wrapping int64 is the "
            "model's count mod 2^64 unconditionally. The hand-written decoder model is tied to the Go code by differential correspondence (random "
            "fragmentations; a piece boundary at every index with the bufio model's request sizes compared with the real bufio's), plus extracted "
            "read-site / offset-arithmetic facts over a rename-insensitive normal form.",
    "note": "trusted: Lean kernel (propext, Classical.choice, Quot.sound only), RESP framing transcription, the bufio model (tied by request-size traces), "
            "strconv, extractor, harness; decoder functions modelled by hand (correspondence). Inline commands (outside the quantifier) double-count "
            "their first byte — recorded as an observation.",
    "technique": "Lean 4 proof (structural induction over argument lists / command sequences / fuel-bounded nesting, decimal round trip; simulation "
                 "between the decoder over a chunked bufio model and the decoder over plain bytes with a gas/measure invariant) "
                 "+ differential correspondence + direct monitor with an independent strict RESP oracle",
}
