EXPECTED_DECODER_SITES = [
    "decodeResp: read UnreadByte",
    "decodeType: d.offset++",
    "decodeType: read ReadByte",
    "decodeText: read ReadBytes",
    "decodeText: d.offset += int64(len(b))",
    "decodeBulkBytes: read io.ReadFull",
    "decodeBulkBytes: d.offset += int64(len(b))",
    "decodeSingleLineBulkBytesArray: read ReadBytes",
    "decodeSingleLineBulkBytesArray: d.offset += int64(len(b))",
]

EXPECTED_DECODER_USERS = [
    "cmd/aof.go:Cmd:MustDecodeOpt",
    "cmd/aof.go:Cmd:NewDecoder",
    "syncer/bisync.go:parseAofReplayUnits:MustDecodeOpt",
    "syncer/bisync.go:parseAofReplayUnits:NewDecoder",
    "syncer/output.go:parseAofCommand:MustDecodeOpt",
    "syncer/output.go:parseAofCommand:NewDecoder",
]

EXPECTED_OFFSET_USES = [
    "cmd/aof.go:Cmd:arg of log.Info",
    "syncer/bisync.go:parseAofReplayUnits:startOffset + incrOffset",
    "syncer/output.go:parseAofCommand:startOffset + incrOffset",
    "syncer/output.go:parseAofCommand:startOffset + incrOffset",
]


PROP = {
    "lean_modules": ["GunYu.Props.C12"],
    "audit_namespaces": ["GunYu.Props.C12"],
    "required_theorems": [
        "GunYu.Props.C12.dec_natToDec",
        "GunYu.Props.C12.parseInt64_natToDec",
        "GunYu.Props.C12.parseInt64_intToDec",
        "GunYu.Props.C12.decodeOne_encode",
        "GunYu.Props.C12.decodeOne_newlines_encode",
        "GunYu.Props.C12.boundaries_getElem?",
        "GunYu.Props.C12.decodeAll_offsets",
        "GunYu.Props.C12.decodeAll_prefix",
        "GunYu.Props.C12.writeArgs_eq_encodeCmd",
        "GunYu.Props.C12.decode_writeArgs",
        "GunYu.Props.C12.decodeResp_offset_exact",
    ],
    "expected_facts": {
        "c12_decoder_sites": EXPECTED_DECODER_SITES,
        "c12_decoder_users": EXPECTED_DECODER_USERS,
        "c12_offset_uses": EXPECTED_OFFSET_USES,
        "c12_start_offset_reassigned": [],
    },
    "harness": [{"name": "C12", "pkg": "./pkg/redis/client/", "test": "TestVerifC12",
                 "timeout_quick": "10m", "timeout_thorough": "40m"}],
    "driver": "drv_C12",
    "rule": "streams: corpus of canonical / non-canonical-but-accepted / malformed forms; single commands with every argument size "
            "0,1,2,127-129,4095-4097,65535-65537 at argument positions 1-3 (random binary, protocol-character, all-LF, CRLF and "
            "embedded-command contents); argument counts 1-300; generated sequences of 1-60 (thorough 1-300) commands with "
            "LF keep-alive runs between commands and start offsets 0 … 2^62; one (thorough: four) 2-6 MiB argument per run; "
            "every truncation and every single-byte substitution/deletion of two short streams, token soup and corrupted "
            "generated streams. Each stream is read by the real client.Decoder (NewDecoder, MustDecodeOpt, ParseArgs, "
            "offset = start + incrOffset as in syncer.parseAofCommand) through bufio sizes 16 … 1 MiB over a reader that returns "
            "1 … k bytes per call (k = 1 … 2^30), 3 (thorough 6) configurations per stream which must agree line by line; the first "
            "is diffed with the Lean model (decodeAll). proto.Writer.WriteArgs (all integer widths, bool, nil, string, []byte, "
            "net.IP, Duration, one multi-MiB []byte) and client.Encode outputs are diffed with writeArgs / encodeCmd and decoded "
            "again by the real decoder and by the model. Monitor (independent strict RESP oracle in the harness): decoded name "
            "and argument bytes == bytes sent, offset == start + bytes up to and including the command, clean io.EOF at the end. "
            "distinct_nontrivial = distinct well-formed streams with more than one command or more than 128 bytes. "
            "Arguments longer than 24 bytes are compared as length + FNV-1a-64.",
    "trusted": [
        "RESP multi-bulk framing as transcribed in Model/Resp.lean (encodeCmd/encodeBulk); client.Encode is diffed against it",
        "Go bufio.Reader / io.ReadFull: the byte sequence delivered is independent of buffer size and read fragmentation "
        "(exercised by the harness, not part of the theorems)",
        "strconv.ParseInt / AppendInt / AppendUint as modelled by parseInt64 / intToDec / natToDec (diffed on generated and boundary values)",
    ],
    "assumptions": [
        "decoder model (decodeType/decodeText/decodeInt/decodeBulk/decodeArray/inline/ParseArgs) is hand-written and tied by "
        "correspondence; read sites and `d.offset` updates of decoder.go, the users of the decoder and every use of incrOffset "
        "(`startOffset + incrOffset`, startOffset never reassigned) are re-extracted each run and compared with the expected lists",
        "WF: argument and argument-list lengths below 2^63 (true of every Go slice) and a non-empty command name",
        "command names are ASCII: strings.ToLower's Unicode path (non-ASCII / invalid UTF-8 names) is not modelled; arguments are arbitrary bytes",
        "observation, outside the quantifier (multi-bulk only): an inline command's first byte is counted twice "
        "(decodeType counts it, UnreadByte, then the whole line is counted) — model transcribes it, example in Props/C12.lean",
        "observation, outside C12: the decoder allocates `$n`/`*n` without an upper bound, so a corrupt length can panic or exhaust "
        "memory instead of returning an error; the malformed-stream generator avoids 7-19 digit lengths",
        "floats, time.Time and BinaryMarshaler arguments of WriteArgs are not modelled (not used on the replay path)",
    ],
    "partial": [],
}

MANIFEST = {
    "text": "Lean theorems over ALL argument lists / command sequences / start offsets / trailing bytes: the model of client.Decoder + ParseArgs "
            "applied to the RESP encoding of any command returns exactly the sent argument bytes, an offset equal to the encoded length and "
            "leaves the rest unread (also after LF keep-alives); the parser loop reports offsets equal to the stream boundaries and ends with EOF; "
            "a damaged tail does not disturb the completely received prefix; WriteArgs framing decodes back to the same arguments; for every "
            "accepted typed value (canonical or not, nested or not) the counter advances by exactly the bytes consumed. The hand-written decoder "
            "model is tied to the Go code by differential correspondence through many bufio sizes and read fragmentations, plus extracted "
            "read-site / offset-arithmetic facts.",
    "note": "trusted: Lean kernel (propext, Classical.choice, Quot.sound only), RESP framing transcription, bufio fragmentation independence, "
            "strconv, extractor, harness; decoder functions modelled by hand (correspondence). Inline commands (outside the quantifier) double-count "
            "their first byte — recorded as an observation.",
    "technique": "Lean 4 proof (structural induction over argument lists / command sequences / fuel-bounded nesting, decimal round trip) "
                 "+ differential correspondence + direct monitor with an independent strict RESP oracle",
}
