# multi-bulk path only; the inline-command path (decodeSingleLineBulkBytesArray, the `default:` clause
# of decodeResp) is extracted as c12_decoder_sites_inline but NOT pinned: it is outside the quantifier
EXPECTED_DECODER_SITES = [
    "NewDecoder: return &Decoder{r: r, offset: 0}",
    "MustDecodeOpt: return resp, -1, err",
    "MustDecodeOpt: return resp, d.offset, nil",
    "decodeType: d.offset++",
    "decodeType: read ReadByte",
    "decodeText: read ReadBytes",
    "decodeText: d.offset += int64(len(b))",
    "decodeBulkBytes: read io.ReadFull",
    "decodeBulkBytes: d.offset += int64(len(b))"
]

# digests of the function bodies the model transcribes (decodeResp without its default clause) and of
# RedisConn.Send/send. A mismatch means "re-read the model against the code", it is a broken TIE,
# not evidence of a defect; size-dependent control flow that no practical input reaches (e.g. a cap
# on `$n` at 512 MiB) is only visible here.
EXPECTED_BODIES = {
    "pkg/redis/client/conn/redis_conn.go:Send": "80178038c23a",
    "pkg/redis/client/conn/redis_conn.go:send": "6f6fdb8dd1a5",
    "pkg/redis/client/decoder.go:MustDecodeOpt": "ba0ce340a001",
    "pkg/redis/client/decoder.go:NewDecoder": "6b54a39a377e",
    "pkg/redis/client/decoder.go:decodeArray": "dd894a6ff23a",
    "pkg/redis/client/decoder.go:decodeBulkBytes": "73e12a9548e6",
    "pkg/redis/client/decoder.go:decodeInt": "91d01079d250",
    "pkg/redis/client/decoder.go:decodeResp": "2ce567d36dff",
    "pkg/redis/client/decoder.go:decodeText": "5a81f098c807",
    "pkg/redis/client/decoder.go:decodeType": "1dfad94c7833",
    "pkg/redis/client/encoder.go:encodeArray": "cfbf5dcf3467",
    "pkg/redis/client/encoder.go:encodeBulkBytes": "93feabd4cdac",
    "pkg/redis/client/encoder.go:encodeInt": "4b20c3ad5e6a",
    "pkg/redis/client/encoder.go:encodeResp": "4310b9ef1ec1",
    "pkg/redis/client/encoder.go:encodeString": "f55548b0fef4",
    "pkg/redis/client/encoder.go:encodeType": "dceb11040110",
    "pkg/redis/client/encoder.go:itos": "bf076046a798",
    "pkg/redis/client/handler.go:ChangeArgsToResp": "75a708d46ab9",
    "pkg/redis/client/handler.go:ParseArgs": "122fb040e753",
    "pkg/redis/client/proto/writer.go:WriteArg": "c6de4818c4bf",
    "pkg/redis/client/proto/writer.go:WriteArgs": "c2b94c4e34ee",
    "pkg/redis/client/proto/writer.go:bytes": "546dd69ce953",
    "pkg/redis/client/proto/writer.go:crlf": "2739d17cbf5c",
    "pkg/redis/client/proto/writer.go:int": "047df52c198c",
    "pkg/redis/client/proto/writer.go:string": "9c796880ca91",
    "pkg/redis/client/proto/writer.go:uint": "de10744b43d8",
    "pkg/redis/client/proto/writer.go:writeLen": "130617b64042",
    "pkg/redis/client/resp.go:AsArray": "1615b4b267c1",
    "pkg/redis/client/resp.go:AsBulkBytes": "4fdc5c142d93"
}

EXPECTED_DECODER_USERS = [
    "cmd/aof.go:Cmd:MustDecodeOpt",
    "cmd/aof.go:Cmd:NewDecoder",
    "syncer/bisync.go:parseAofReplayUnits:MustDecodeOpt",
    "syncer/bisync.go:parseAofReplayUnits:NewDecoder",
    "syncer/output.go:parseAofCommand:MustDecodeOpt",
    "syncer/output.go:parseAofCommand:NewDecoder",
]

# distinct uses of the variable bound to MustDecodeOpt's offset, each rendered as its WHOLE enclosing
# statement (or `Key: value`), so an extra term (`… - 1`) cannot hide behind the innermost sum
EXPECTED_OFFSET_USES = [
    "cmd/aof.go:Cmd:log.Info(\"offset(%d), cmd(%d), %s\", incrOffset, sCmd, argv)",
    "syncer/bisync.go:parseAofReplayUnits:endOffset := startOffset + incrOffset",
    "syncer/output.go:parseAofCommand:endOffset := startOffset + incrOffset",
    "syncer/output.go:parseAofCommand:lastSent = startOffset + incrOffset",
    "syncer/output.go:parseAofCommand:sendBuf <- buildSelectCmdExecution(currentDB, startOffset+incrOffset)"
]

# textual tie only: how endOffset (= startOffset + incrOffset) becomes unit boundaries on the
# bidirectional path; the resulting offsets are checked on the real parser by C13
EXPECTED_BISYNC_FLOW = [
    "endOffset := startOffset + incrOffset",
    "makeCmd(.., endOffset)",
    "prevOffset = endOffset",
    "prevOffset = startOffset",
    "txnStart = prevOffset",
    "unit(prevOffset, endOffset)",
    "unit(txnStart, endOffset)",
]


PROP = {
    "lean_modules": ["GunYu.Props.C12"],
    "audit_namespaces": ["GunYu.Props.C12"],
    "required_theorems": [
        "GunYu.Props.C12.dec_natToDec",
        "GunYu.Props.C12.parseInt64_natToDec",
        "GunYu.Props.C12.parseInt64_intToDec",
        "GunYu.Props.C12.decodeOne_encode",
        "GunYu.Props.C12.decodeOne_newlines_encode",
        "GunYu.Props.C12.boundaries_getElem?",
        "GunYu.Props.C12.decodeAll_offsets",
        "GunYu.Props.C12.decodeAll_prefix",
        "GunYu.Props.C12.decodeOne_truncated",
        "GunYu.Props.C12.decodeAll_truncated",
        "GunYu.Props.C12.decodeAllFrom_offsets",
        "GunYu.Props.C12.decodeAll_offsets_le_end",
        "GunYu.Props.C12.int64_add_exact",
        "GunYu.Props.C12.counter_int64_exact",
        "GunYu.Props.C12.parser_sum_int64_exact",
        "GunYu.Props.C12.writeArgs_eq_encodeCmd",
        "GunYu.Props.C12.decode_writeArgs",
        "GunYu.Props.C12.decodeResp_offset_exact",
    ],
    "expected_facts": {
        "c12_decoder_sites": EXPECTED_DECODER_SITES,
        "c12_decoder_users": EXPECTED_DECODER_USERS,
        "c12_offset_uses": EXPECTED_OFFSET_USES,
        "c12_start_offset_reassigned": [],
        "c12_bisync_offset_flow": EXPECTED_BISYNC_FLOW,
        "c12_bodies": EXPECTED_BODIES,
    },
    "harness": [{"name": "C12", "pkg": "./pkg/redis/client/", "test": "TestVerifC12",
                 "timeout_quick": "10m", "timeout_thorough": "40m"}],
    "driver": "drv_C12",
    "rule": "streams: corpus of canonical / non-canonical-but-accepted / malformed forms; single commands with every argument size "
            "0,1,2,127-129,4095-4097,65535-65537 at argument positions 1-3 (random binary, protocol-character, all-LF, CRLF and "
            "embedded-command contents); argument counts 1-300; generated sequences of 1-60 (thorough 1-300) commands with "
            "LF keep-alive runs between commands and start offsets 0 … 2^62; one (thorough: four) 2-6 MiB argument per run; "
            "every truncation and every single-byte substitution/deletion of two short streams, token soup and corrupted "
            "generated streams. Each stream is read by the real client.Decoder (NewDecoder, MustDecodeOpt, ParseArgs, "
            "offset = start + incrOffset as in syncer.parseAofCommand) through bufio sizes 16 … 1 MiB over a reader that returns "
            "1 … k bytes per call (k = 1 … 2^30), 3 (thorough 6) configurations per stream which must agree line by line (exact lines, "
            "same code on both sides); the first is diffed with the Lean model: streams INSIDE the quantifier (accepted by the strict "
            "oracle: canonical multi-bulk commands, optionally separated by LF) exactly (`dec`: name, args, offset, final io.EOF; model "
            "decodeAllFrom); streams OUTSIDE it (malformed, non-canonical, inline commands) coarsely (`decx`: the commands decoded before "
            "the decoder stops, offsets only until the first inline command, any error class = `stop`), so that repairing the inline "
            "double count or reclassifying an error on a malformed stream is not reported against C12. For a quarter of the streams Decoder.offset is preset (in-package) to "
            "2^31-3, 2^32-3, 2^53-3 or 2^62 before the first read, so that the int64 MustDecodeOpt returns is exercised across those "
            "boundaries (monitor: offset == start + preset + bytes consumed). proto.Writer.WriteArgs (all integer widths, bool, nil, "
            "string, []byte, net.IP, Duration, float64/float32 incl. 0.1, 1e21, 5e-324, ±Inf, -0, 2^53±1, float32-unrepresentable "
            "values and random bit patterns — ParseFloat(wire text) must be bit-identical to f; which round-tripping rendering the "
            "writer chooses is not checked, the op carries the writer's own text —, one multi-MiB []byte), sent through the real "
            "conn.RedisConn.Send + Flush over an in-memory connection (bytes must equal a bare Writer.WriteArgs), and client.Encode outputs are diffed with writeArgs / encodeCmd and decoded "
            "again by the real decoder and by the model. Monitor (independent strict RESP oracle in the harness): decoded name "
            "and argument bytes == bytes sent, offset == start + bytes up to and including the command, clean io.EOF at the end; and on "
            "EVERY stream, for every command returned before the first inline command: offset == start + preset + bytes really taken "
            "from the reader (reader position minus bufio.Buffered(), independent of d.offset). "
            "distinct_nontrivial = distinct well-formed streams with more than one command or more than 128 bytes. "
            "Arguments longer than 24 bytes are compared as length + FNV-1a-64.",
    "trusted": [
        "RESP multi-bulk framing as transcribed in Model/Resp.lean (encodeCmd/encodeBulk); client.Encode is diffed against it",
        "Go bufio.Reader / io.ReadFull: the byte sequence delivered is independent of buffer size and read fragmentation "
        "(exercised by the harness, not part of the theorems)",
        "strconv.ParseInt / AppendInt / AppendUint as modelled by parseInt64 / intToDec / natToDec (diffed on generated and boundary values)",
    ],
    "assumptions": [
        "decoder model (decodeType/decodeText/decodeInt/decodeBulk/decodeArray/inline/ParseArgs) is hand-written and tied by "
        "correspondence plus extracted facts compared each run: read sites, `d.offset` updates and return statements of the multi-bulk "
        "path of decoder.go; digests of the bodies of the transcribed functions (decoder multi-bulk path, ParseArgs, AsBulkBytes, "
        "AsArray, encoder, proto.Writer, RedisConn.Send/send); the users of the decoder; every use of incrOffset rendered as its "
        "whole enclosing statement; startOffset never reassigned. A fact mismatch is a broken TIE (`no-failing-input-found`): it means "
        "the model must be re-read against the changed code, it is not by itself evidence of a defect",
        "QUANTIFIER — replication streams are multi-bulk only (Redis propagates every command as `*n\\r\\n$len…`; an inline command is "
        "what a human types into telnet, the master never sends one). Inline commands are therefore OUTSIDE C12: the decoder counts "
        "their first byte twice (decodeType counts it, UnreadByte, then the whole line is counted again), which is recorded as an "
        "observation, not a C12 violation and not fixed here. The model transcribes the current behaviour (example in Props/C12.lean) "
        "but the check does not defend it: inline-path sites are not pinned and offsets are not compared from the first inline command "
        "on, so the one-line repair (`d.offset--` after UnreadByte) passes the check",
        "NOT REACHABLE — control flow that depends on an argument being larger than what can be generated (largest generated argument "
        "6 MiB; a 512 MiB bulk would need ~12 GiB in the Lean driver's list representation) is covered only by the body digests "
        "(c12_bodies), e.g. an allocation cap in decodeBulkBytes; the theorems hold for every length below 2^63 in the model",
        "DEPENDENCIES — C12 runs the decoder, ParseArgs, Encode and WriteArgs, not the parser loops around them. That the real "
        "syncer.parseAofCommand keeps each command's arguments intact while it decodes on (the `data` slice / sendBuf) and attaches "
        "startOffset+incrOffset to the right command is checked on the real loop by C01/C02 (sender harness); that "
        "syncer.parseAofReplayUnits turns endOffset/prevOffset/txnStart into correct unit boundaries is checked by C13. C12 only "
        "ties those call sites textually (c12_offset_uses, c12_bisync_offset_flow). The start offset passed in by the callers is C06/C16.",
        "offsets are natural numbers in the model; Go computes them in wrapping int64. Bridge (explicit no-overflow hypothesis "
        "`start + |stream| < 2^63`): decodeAll_offsets_le_end (every reported offset lies between start and the end of the stream), "
        "int64_add_exact / counter_int64_exact / parser_sum_int64_exact (Lean's Int64: the wrapping counter and the wrapping "
        "`startOffset + incrOffset` equal the natural-number values). That the Go code really uses plain int64 additions and no narrower "
        "type is the body digests + the preset-offset streams (2^31, 2^32, 2^53, 2^62), not a theorem",
        "WF: argument and argument-list lengths below 2^63 (true of every Go slice), a non-empty and ASCII command name. "
        "strings.ToLower's Unicode path (non-ASCII / invalid UTF-8 names are rewritten by Go) is not modelled and not generated; "
        "arguments are arbitrary bytes",
        "error classes: io.EOF inside a header or length line (ReadBytes returns the partial line + io.EOF) is the same class `eof` as a "
        "clean end of stream, in the code and in the model; only a cut inside a bulk payload gives ErrUnexpectedEOF. "
        "decodeAll_truncated shows complete commands are unaffected; properties that reason about a 'clean EOF' (C04/C05) must not "
        "read `eof` as 'ended on a command boundary'",
        "float arguments DO reach WriteArgs: zset scores on the snapshot path (rdb_object.go ZSetParser.ExecCmd → Send/Do → "
        "Writer.float). The model carries a float as the text strconv.AppendFloat(f,'f',-1,64) produces and proves the framing of that "
        "text; the digits are trusted to strconv and checked on the real writer by the harness (ParseFloat(wire text) bit-identical "
        "to the float64 passed; the rendering itself is free). time.Time and BinaryMarshaler arguments are not used by the tool and not modelled",
        "observation, outside C12: the decoder allocates `$n`/`*n` without an upper bound, so a corrupt length can panic or exhaust "
        "memory instead of returning an error; the malformed-stream generator avoids 7-19 digit lengths",
        "observation: bisyncAofCommand.EndOffset (set by makeCmd in parseAofReplayUnits) is never read — dead field",
    ],
    "partial": [],
}

MANIFEST = {
    "text": "Lean theorems over ALL argument lists / command sequences / start offsets / trailing bytes: the model of client.Decoder + ParseArgs "
            "applied to the RESP encoding of any command returns exactly the sent argument bytes, an offset equal to the encoded length and "
            "leaves the rest unread (also after LF keep-alives); the parser loop reports offsets equal to the stream boundaries and ends with EOF; "
            "a damaged tail does not disturb the completely received prefix and a stream cut inside a command reports exactly the complete "
            "commands and then EOF/ErrUnexpectedEOF (nothing invented); a decoder whose counter is preset keeps exact offsets; WriteArgs framing decodes back to the same arguments; for every "
            "accepted typed value (canonical or not, nested or not) the counter advances by exactly the bytes consumed. The hand-written decoder "
            "model is tied to the Go code by differential correspondence through many bufio sizes and read fragmentations, plus extracted "
            "read-site / offset-arithmetic facts.",
    "note": "trusted: Lean kernel (propext, Classical.choice, Quot.sound only), RESP framing transcription, bufio fragmentation independence, "
            "strconv, extractor, harness; decoder functions modelled by hand (correspondence). Inline commands (outside the quantifier) double-count "
            "their first byte — recorded as an observation.",
    "technique": "Lean 4 proof (structural induction over argument lists / command sequences / fuel-bounded nesting, decimal round trip) "
                 "+ differential correspondence + direct monitor with an independent strict RESP oracle",
}
