# session 5, gofn owner: definitions regenerated from /repo by the Go->Lean translator for C03
# (merged into PROPS["C03"] by checks/props.py; see reviews/gofn-s5.md)
EXTRA = {
    "gens": ["gofn_crc64", "gofn_listpack"],
    "lean_modules": ["GunYu.Props.C03GenS5", "GunYu.Props.C03GenS5L"],
    "required_theorems": [
        "GunYu.Props.C03.gen_crc64Update_eq_model",
        "GunYu.Props.C03.gen_crc64_eq_jones",
        "GunYu.Props.C03.gen_crc64Update_append",
        "GunYu.Props.C03.gen_lpEncodeBacklen_eq_model",
        "GunYu.Props.C03.gen_lpNext_eq_model",
        "GunYu.Props.C03.gen_lpNext_frame",
        "GunYu.Props.C03.gen_lpNext_invalid_panics",
    ],
    "trusted": [
        "gofn (session 5): the translator's reading of digest.update, lpEncodeBacklen and Listpack.Next (Basic/GoSem.lean + "
        "Basic/GoSemS5.lean: narrowing / sign conversions, strconv.FormatInt, panic = no value); the differential "
        "correspondence of C03 runs the real functions on the same inputs as the hand models these are proved equal to",
    ],
}
