PROP = {
    "lean_modules": ["GunYu.Props.C07"],
    "audit_namespaces": ["GunYu.Props.C07"],
    "required_theorems": [],
    "expected_facts": {},
    "harness": [{"name": "Sender", "pkg": "./syncer/", "test": "TestVerifSender"}],
    "driver": "drv_Sender",
    "violation_prefix": "C07:",
    "rule": "TODO",
    "trusted": [],
    "assumptions": [],
}

MANIFEST = {
    "text": "TODO",
    "note": "TODO",
    "technique": "Lean 4 proof (invariants by induction over event lists) + differential correspondence under virtual time",
}
