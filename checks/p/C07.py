PROP = {
    "lean_modules": ["GunYu.Props.C07"],
    "audit_namespaces": ["GunYu.Props.C07"],
    "required_theorems": ['GunYu.Props.C07.cp_boundary', 'GunYu.Props.C07.cp_boundary_fresh', 'GunYu.Props.C07.cp_monotone', 'GunYu.Props.C07.restart_monotone', 'GunYu.Props.C07.idle_stores_nothing_fresh', 'GunYu.Props.C07.restart_never_lowers_position', 'GunYu.Props.C07.restarts_monotone', 'GunYu.Props.C07.resumed_items_not_below_start', 'GunYu.Props.C07.cp_offset_has_runid', 'GunYu.Props.C07.parser_items_selOK'],
    "expected_facts": {"sender_src": {
        "pkg/redis/checkpoint/checkpoint.go:GetCheckpoint": "50a563812be29664",
        "pkg/redis/checkpoint/checkpoint.go:fetchCheckpoint": "88bc56bddceba24b",
        "syncer/output.go:StartPoint": "7b6458574290bd0d",
        "syncer/output.go:buildSelectCmdExecution": "63f0b21f8a066f45",
        "syncer/output.go:checkpoint": "75bf5e2381107f2c",
        "syncer/output.go:parseAofCommand": "db39fcdce07f10d4",
        "syncer/output.go:selectDB": "2489f312ebee2a1e",
        "syncer/output.go:sendAof": "6607e517ed10bfb6",
        "syncer/output.go:sendCmdsBatch": "334c0aed36b88ff1",
        "syncer/transaction.go:transactionStatus": "07f49e3410d200d0"
}},
    "harness": [{"name": "Sender", "pkg": "./syncer/", "test": "TestVerifSender", "timeout_thorough": "60m"}],
    "driver": "drv_Sender",
    "gens": ["c10", "c01"],
    "violation_prefix": "C07:",
    "rule": "cases = (config, stream, schedule): config over txn/ticker mode x resumable x pipelined x batch count {1,2,3,4,8,100} x byte limit {1,40,200,2^30} x TargetDb/TargetDbMap x db/command/prefix filters x startDbId/pre-existing checkpoints; stream of 0-30 (quick) / 0-60 (thorough) source commands (binary args, SELECT to mapped/unmapped/filtered DBs, MULTI groups of 0-4 commands, PING, REPLCONF GETACK, sentinel hello, blacklisted and NoRoute commands, keys with reserved/filtered prefixes); schedule = writes of 1-6 commands at chosen virtual instants with idle gaps of 0-12 s (also before the first item) and five ticker-period triples, run on the REAL RedisOutput.sendAof (parser goroutine, sendCmdsBatch loop, real conn.RedisConn batchers) inside testing/synctest against the target double; output = the target's request log with the DB each request executes in, plus the real StartPoint after every (thorough) / sampled (quick) crash prefix of that log; compared line by line with the Lean model (parseStep, run, applyLog, startPoint). Independent Go monitors check the property on the real log. distinct_nontrivial = distinct non-empty request logs.",
    "trusted": ['target double (harness/overlay/pkg/vfdoubles/target.go): MULTI/EXEC atomicity, per-DB hashes, INFO keyspace; Redis command semantics of data commands are not interpreted', 'Go testing/synctest virtual time; select over simultaneously ready channels is never exercised (ticker periods and write instants are pairwise distinct)', 'RESP decoding (C12) and the filter functions (C10) are parameters of the model here: theorems hold for every filter'],
    "assumptions": ['healthy target (no error replies); receive-side error timing of the pipelined sender is runtime behaviour outside the model', 'source stream well formed: increasing offsets; transactions not nested (Redis never propagates nested MULTI)', 'strings.EqualFold on the sentinel hello channel is modelled as ASCII case folding'],
    "partial": ['restarts_monotone covers the positions written by the replay loop (sendCmdsBatch) over any number of lives, any crash points and any databases, read back as the maximum over databases (the model of GetCheckpoint); the OTHER writers of <rid>_offset are outside this model and owned by other properties: the end-of-snapshot write (setCheckpoint/SetCheckpoint, value = snapshot offset: C04 checks it is written iff the snapshot completed, C06 checks the hand-off from it on the real Send), the relabel (UpdateCheckpoint incl. the -1 marker only when no position exists: C17) and the sanctioned reset on FULLRESYNC (ResetStartPoint deletes the position on purpose: C06)', 'run ids are replication ids of equal length (40 hex characters): fetchCheckpoint matches hash fields by id PREFIX, so an id that is a proper prefix of another would read the other id\'s fields; records of OTHER equal-length ids are generated and must be invisible', 'in-memory position (resumeFromBreakPoint=false) has no observable in this harness (C06 pins its assignments as source facts)'],
}

MANIFEST = {
    "text": 'Lean theorems by induction over ANY event list: every stored offset is non-negative and is an offset carried by a received item (a command end, or the start offset item) or the position held at the start (cp_boundary); within a run stored offsets never decrease (cp_monotone); a fresh run stores nothing while idle, however many ticks fire (idle_stores_nothing_fresh); a resumed run never stores below its resume position (restart_monotone). Tied to the real loop by correspondence under virtual time; the real StartPoint is evaluated after every crash prefix.',
    "note": "trusted: Lean kernel (propext, Classical.choice, Quot.sound only); hand-written models Sender.lean/Target.lean tied by correspondence (not regenerated); target double; synctest virtual time; healthy target assumed",
    "technique": "Lean 4 proof (invariants by induction over arbitrary event lists; wire-order invariant) + differential correspondence of the real sender under virtual time + crash-prefix exploration",
}
