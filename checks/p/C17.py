PROP = {
    "lean_modules": ["GunYu.Props.C17", "GunYu.Props.C17Reach", "GunYu.Props.C17RunId", "GunYu.Props.C17Migrate", "GunYu.Props.C17RunIdSeq", "GunYu.Props.C17RunIdFix", "GunYu.Props.C17Gen", "GunYu.Props.C17Fresh", "GunYu.Props.C17GcRelabel"],
    "gens": ["c17guards"],
    "audit_namespaces": ["GunYu.Props.C17"],
    "required_theorems": [
        "GunYu.Props.C17.update_prefix_safe",
        "GunYu.Props.C17.update_position_before",
        "GunYu.Props.C17.update_restart_reads_local",
        "GunYu.Props.C17.update_restart_reads_local_swapped",
        "GunYu.Props.C17.update_rerun_reads_local",
        "GunYu.Props.C17.setrunid_retries_read_local",
        "GunYu.Props.C17.setrunid_retries_start_safe",
        "GunYu.Props.C17.migrate_prefix_safe",
        "GunYu.Props.C17.gc_prefix_safe",
        "GunYu.Props.C17.gc_spares_live_id",
        "GunYu.Props.C17.gc_newest_is_largest",
        "GunYu.Props.C17.consts_match_source",
        # the preconditions as invariants of the writers (Props/C17Reach.lean)
        "GunYu.Props.C17.reach_inv",
        "GunYu.Props.C17.reach_good",
        "GunYu.Props.C17.reach_bare_no_position",
        "GunYu.Props.C17.reach_session_safe",
        "GunYu.Props.C17.goodChecks_decide_good",
        "GunYu.Props.C17.bareChecks_decide_bare",
        "GunYu.Props.C17.update_real_is_prefix",
        "GunYu.Props.C17.reach_position",
        "GunYu.Props.C17.reach_no_tie",
        "GunYu.Props.C17.reach_updPre_start",
        "GunYu.Props.C17.reach_updPre_relabel",
        "GunYu.Props.C17.reach_gcPre",
        "GunYu.Props.C17.reach_solo",
        "GunYu.Props.C17.reach_start_safe",
        "GunYu.Props.C17.reach_start_complete",
        "GunYu.Props.C17.reach_relabel_safe",
        "GunYu.Props.C17.reach_gc_safe",
        "GunYu.Props.C17.reach_gc_spares_label",
        # RedisOutput.SetRunId across calls (Props/C17RunId.lean)
        "GunYu.Props.C17.setRunId_good",
        "GunYu.Props.C17.setRunIdCalls_good",
        "GunYu.Props.C17.setRunIdCalls_position",
        # one RedisOutput, SetRunId with DIFFERENT ids in sequence (a second failover between two calls), attempts that fail
        # with all their writes applied (Props/C17RunIdSeq.lean)
        "GunYu.Props.C17.setRunIdF_good",
        "GunYu.Props.C17.setRunIdF_nil_field",
        "GunYu.Props.C17.setRunIdSeq_partial",
        "GunYu.Props.C17.setRunIdSeq_position",
        "GunYu.Props.C17.setRunIdSeq_stmt_refuted",
        # the freshness hypotheses of goodChecks_decide_good / bareChecks_decide_bare decided on the dump (op c17fresh)
        "GunYu.Props.C17.namesOk_decides",
        "GunYu.Props.C17.idsOk_decides",
        # gc beside a failover relabel: the relabel stamps the time of the write, a gc pass with a stale live-id snapshot spares
        # a record younger than the stale duration and the id's hash entry (Props/C17GcRelabel.lean)
        "GunYu.Props.C17.update_stamps_now",
        "GunYu.Props.C17.delStale_only_old",
        "GunYu.Props.C17.delStale_fresh_not_all",
        "GunYu.Props.C17.gcLoop_head_fresh",
        # the REPAIRED SetRunId (pendingRunId; Props/C17RunIdFix.lean)
        "GunYu.Props.C17.setRunIdP_good",
        "GunYu.Props.C17.setRunIdP_no_name",
        "GunYu.Props.C17.setRunIdSeq_fixed_good",
        "GunYu.Props.C17.setRunIdSeq_fixed",
        # the decisions of GetCheckpoint / DelStaleCheckpoint regenerated from the source (Gen/CheckpointGuards.lean, Props/C17Gen.lean)
        "GunYu.Props.C17.gen_cpBetter_eq_model",
        "GunYu.Props.C17.gen_bestStep_eq_model",
        "GunYu.Props.C17.gen_staleNewest0_eq_model",
        "GunYu.Props.C17.gen_staleScanStep_eq_model",
        "GunYu.Props.C17.gen_staleVictims_eq_model",
        # the position a bidirectional start really uses across the recovery-format switch (Props/C17Migrate.lean)
        "GunYu.Props.C17.migrate_start_exact",
        "GunYu.Props.C17.migrate_start_inferred",
    ],
    # cmd/syncer.go is not run in-process: the closure `gcStaleCp` (log statements removed), the control flow
    # around it (c17_gc_frame: which nodes are asked for run ids, `return` when one cannot be reached - never
    # `continue`, an unreachable source must not look dead -, which output clients gc runs on) and the
    # construction of the live-id set are compared with what the harness transliterates / the model assumes
    "expected_facts": {
        "c17_gcStaleCp": '{ data, err := checkpoint.GetAllCheckpointHash(cli) if err != nil { return } if len(data)%2 == 1 { return } for i := 0; i < len(data)-1; i += 2 { runId := data[i] cpn := data[i+1] _, exist := runIdMap[runId] total, deleted, err := checkpoint.DelStaleCheckpoint(cli, cpn, runId, config.GetSyncerConfig().Channel.StaleCheckpointDuration, exist) if err != nil { } if !exist && total == deleted { err = checkpoint.DelCheckpointHash(cli, runId) if err == nil { } else { } } } }',
        "c17_gc_frame": ['inputs := config.GetSyncerConfig().Input.Redis.SelNodes(true, config.SelNodeStrategyMaster)', 'inputs = append(inputs, config.GetSyncerConfig().Input.Redis.SelNodes(true, config.SelNodeStrategySlave)...)', 'runIdMap := make(map[string]struct{}, len(inputs)*2)', 'for _, input := range inputs { input.Type = config.RedisTypeStandalone cli, err := client.NewRedis(input) if err != nil { return } id1, id2, err := redis.GetRunIds(cli) if err != nil { cli.Close() return } runIdMap[id1] = struct{}{} runIdMap[id2] = struct{}{} cli.Close() }', 'gcStaleCp := <closure>', 'if config.GetSyncerConfig().Output.Redis.Type == config.RedisTypeCluster { cli, err := client.NewRedis(*config.GetSyncerConfig().Output.Redis) if err != nil { return } gcStaleCp(cli) cli.Close() } else if config.GetSyncerConfig().Output.Redis.Type == config.RedisTypeStandalone { outputs := config.GetSyncerConfig().Output.Redis.SelNodes(true, config.SelNodeStrategyMaster) for _, out := range outputs { cli, err := client.NewRedis(out) if err != nil { return } gcStaleCp(cli) cli.Close() } }'],
        "c17_gc_live_ids": ['runIdMap[id1] = struct{}{}', 'runIdMap[id2] = struct{}{}'],
        # SetCheckpoint stamps <id>_mtime with the time of the WRITE (Model/Checkpoint.lean cpEntries `now`; Props/C17GcRelabel.lean):
        # the statements of its body that mention the mtime
        "c17_setcheckpoint_mtime": ['kvs := []interface{}{cp.Key, cp.MTimeKey(), time.Now().UnixNano()}'],
        # how a start orders the reported ids before UpdateCheckpoint (Model/Checkpoint.lean startIds / nextStart)
        "c17_start_order": ['ordered := ids',
                            'if len(ids) > 1 && cpRunId == ids[1] && ids[1] != ids[0] { ordered = []string{ids[1], ids[0]} }',
                            'label = ordered[0]',
                            'err = checkpoint.UpdateCheckpoint(cli, localCheckpoint, ordered)'],
        # RedisOutput.SetRunId as Model/BookRunIdSeq.lean setRunIdP transcribes it (logger calls removed; repaired, bf252d5): the early
        # return, the finishing step for a pending id, the ids passed, the in-memory fields assigned only after a step succeeded,
        # three attempts. Model/BookSys.lean setRunId is the same machine for calls that all carry one id (no finishing step)
        "c17_setrunid": '{ if ro.cfg.RunId == id { return nil } if ro.cfg.CheckpointName == "" { ro.cfg.RunId = id return nil } return util.RetryLinearJitter(ctx, func() error { cli, err := ro.NewRedisConn(ctx) if err != nil { return err } defer cli.Close() if pending := ro.pendingRunId; pending != "" && pending != id { err = checkpoint.UpdateCheckpoint(cli, ro.cfg.CheckpointName, []string{pending, ro.cfg.RunId}) if err != nil { return err } ro.cfg.RunId = pending } ro.pendingRunId = id err = checkpoint.UpdateCheckpoint(cli, ro.cfg.CheckpointName, []string{id, ro.cfg.RunId}) if err != nil { return err } ro.cfg.RunId = id ro.pendingRunId = "" return nil }, 3, time.Second*4, 0.3) }',
        # the checkpoint-key HSETs of the replay path (Model/BookSys.lean senderEntries / writeReq)
        "c17_sender_cp_writes": ['batcher.Put("hset", checkpointKv.Key, checkpointKv.RunIdKey(), runId, checkpointKv.VersionKey(), config.Version)',
                                 'batcher.Put("hset", checkpointKv.Key, checkpointKv.OffsetKey(), lastOffset)'],
    },
    "harness": [
        {"name": "C17", "pkg": "./pkg/redis/checkpoint/", "test": "TestVerifC17"},
        {"name": "C17m", "pkg": "./syncer/", "test": "TestVerifC17Migrate"},
        {"name": "C17gs", "pkg": "./syncer/", "test": "TestVerifC17GcSender"},
        {"name": "C17gf", "pkg": "./cmd/", "test": "TestVerifC17GcFrame"},
        {"name": "C17st", "pkg": "./syncer/", "test": "TestVerifC17Start"},
        {"name": "C17sys", "pkg": "./syncer/", "test": "TestVerifC17Sys"},
        {"name": "C17sq", "pkg": "./syncer/", "test": "TestVerifC17Seq"},
        {"name": "C17gr", "pkg": "./cmd/", "test": "TestVerifC17GcRelabel"},
        {"name": "C17dim", "pkg": "./pkg/redis/checkpoint/", "test": "TestVerifC17Dims"},
    ],
    "driver": "drv_C17",
    "rule": "c17u (UpdateCheckpoint): corpus (D13 witnesses); generated bookkeeping states on the target double: nothing stored / rename / "
            "failover on the same key / failover + rename / up to date / both ids mapped (also to different keys) / both ids' fields side by "
            "side / wild (unparsable values, '?' run ids, shuffled or truncated field lists, new key already populated); 1-3 of the DBs "
            "{0,1,2,3,5,9,15} hold the checkpoint with a strict or tied maximum, foreign ids' fields, bisync mode markers, busy DBs; one third "
            "of the states are what a previous UpdateCheckpoint leaves when cut after a random request (restart under the same or another key). "
            "c17g (gc): 1-4 hash pairs (live and dead ids, shared or own keys), offsets incl. -1/0/1, mtimes at threshold-1/0/+1 and far on both "
            "sides (synctest clock, thresholds 1 s / 1 h / 12 h), missing offset fields, run id fields naming another id, unparsable mtimes; "
            "real GetAllCheckpointHash + DelStaleCheckpoint + DelCheckpointHash driven as cmd/syncer.go's gcStaleCp does. "
            "c17m (recovery-format switch, package syncer): corpus (D22 witnesses); new / old id mapped, mode marker stored / missing (inferred) / "
            "invalid, desired mode sync / pipeline / parallel, root checkpoint older or newer than the recovery state, second DB holding an older "
            "root, frontier + journal (gaps, trimmed records) or latest record: real resolveBisyncCheckpointNameWithClient. "
            "Every write request of an operation is a crash point (format switch: EVERY request it issues, also those on the old namespace's "
            "latest / marker / journal keys): vfdoubles.Replay of the request prefix, then the REAL GetCheckpointHash + "
            "GetCheckpoint. Requests (DB, key, fields, values) and the position after every prefix vs Lean (updateReqs / gcReqs / migrateReqs); "
            "one HSET / HDEL / DEL is atomic, so the order of its field-value pairs / fields / keys is not an observable: both sides render them sorted by name. "
            "Monitors on the real code: position after any prefix not smaller and in the same DB (on states meeting the stated preconditions, "
            "counted per reason in input_distribution pre_*; a rename cut after its first HSET is monitored as class rename-cut); the REAL next start "
            "after every update prefix (id ordering of syncer.updateCheckpoint + UpdateCheckpoint re-run to completion + GetCheckpoint under the LOCAL key; "
            "this transcription, VfNextStart, is tied in c17st); an entry whose offset was stored without its run id is never promoted to a position "
            "(update-invents-position, D27); "
            "after every prefix of a format switch the real resolve re-run + real RedisOutput.StartPoint (bisyncStartPoint) must not resume before the old "
            "namespace's start; gc never deletes in the DB holding the unique largest offset of a live id; entries WITHOUT _mtime (what the replay path "
            "writes) and mtime 0 are generated in 1/3 of the DBs incl. the newest. "
            "c17gf (the REAL SyncerCmd.gcStaleCheckpoint, frame included, package cmd): loopback source doubles answering INFO replication with "
            "master_replid AND master_replid2, the target double behind a loopback listener; position labelled with the current id or (failover pending) "
            "with the previous one, younger / older than staleCheckpointDuration or without _mtime, 1-3 DBs, a dead id sharing the key, one source node "
            "unreachable (gc must issue nothing); requests + position after every prefix vs the Lean model of gcStaleCp with live = every reported id; "
            "monitor: the next start after every prefix reads a position not smaller, same DB. Error path: every request of the gc pass (scan requests "
            "included: hgetall of the hash, info keyspace, select, exists, hgetall of the entries, hdel) gets an error reply in turn (connection stays usable), "
            "the run goes on as the code does, then the next start on what it left must read a position not smaller, same DB (gc-error-reply-loses-live-position; "
            "quick tier: 8 requests per case spread over the pass, all for corpus cases; position in DB 0 in >= 1/3 of the cases). "
            "c17gs (gc while the sender runs): the real sendAof under virtual time replays a stream visiting several source DBs, the real gc runs between two "
            "batches, the stream returns to a DB visited before; after EVERY request prefix a fresh RedisOutput.StartPoint must still read the session's run id "
            "and a not smaller offset. "
            "c17st (the production path of 'move to a new replication id', package syncer): the REAL syncer.updateCheckpoint (it dials: the double sits "
            "behind a loopback listener), the REAL RedisOutput.SetRunId and the REAL RedisOutput.StartPoint: restart after a failover (ids [new, old]) reads the "
            "stored position; SetRunId(new) - every request prefix a crash point, the next real start reads a position not smaller in the same DB; the "
            "replay's fields under the new id advance it; once the source stops reporting the old id (ids [new, other]) the next start still reads it "
            "(position in DB 0 and in other DBs, pending key rename). On 150+ arbitrary bookkeeping states the real start and VfNextStart must read the same "
            "position and leave the same state (harness-next-start-differs). Error REPLIES: every request of the real SetRunId (reads included) "
            "is answered with an error in turn, SetRunId goes on by itself (its RetryLinearJitter under virtual time), then the real next start with "
            "[new, old] and - if SetRunId reported success - with [new, other] must read a position not smaller, same DB "
            "(setrunid-error-reply-loses-position); the persistent variant: every request of SetRunId fails until it gives up, the SAME RedisOutput "
            "calls SetRunId again, the replay stores a larger offset under the new id, a NEW process starts and relabels - every prefix a crash "
            "point (relabel-after-failed-relabel-loses-position). "
            "c17sys (the WRITERS as one system, package syncer; Props/C17Reach.lean): traces from an EMPTY target with the REAL code - first start "
            "(syncer.updateCheckpoint through a loopback listener) + RedisOutput.setCheckpoint, then 6-14 steps drawn from: a sender life (real RedisOutput.StartPoint + "
            "sendAof under virtual time, stream of SELECTs / SETs over 4 databases, txn / pipeline / batch sizes varied, the target dying after a random request; in half of the "
            "lives with >= 2 chunks the REAL gc pass - everything written before the session stale - runs on its own connection WHILE the session is alive, between two chunks, "
            "and the session goes on: the D24 scenario, Reach.session), a start "
            "with the current key / the key a cut rename wrote to / a new key name (one start in four stopped after its FIRST request: pending rename), RedisOutput.SetRunId, a gc pass "
            "(threshold 1 ns three times in four / 1 h; favoured when a dry run on a copy says it would delete), each cut after a random "
            "write request (vfdoubles.Replay of the prefix), a source failover (new master id), a new second id, a crash, and - D27's scenario, Reach.reset / relabelB / gcB / startB / "
            "reseed - the REAL RedisOutput.ResetStartPoint (complete), after which the state has NO position: SetRunId on it (UpdateCheckpoint's `dbid < 0` branch, cut anywhere), gc, "
            "start, crash, and RedisOutput.setCheckpoint giving the new history's first position. After EVERY step: op c17good (c17bare on a position-less state) - the Lean driver "
            "evaluates `goodChecks` (`bareChecks`), the Bool that DECIDES the invariant `Good` (`Bare`) (Proofs/BookGoodB.lean; theorems goodChecks_decide_good / bareChecks_decide_bare: "
            "every clause incl. CtlOK.l0 / s0 / upk and PendOK.hasrid, the process-alive flag `up` passed by the harness), on the dumped state for the control state the model's step "
            "functions predict and must read the position the real GetCheckpointHash + GetCheckpoint read (`bare`: none / the -1 placeholder); monitors (a violation = the position is "
            "LOST, SMALLER or in ANOTHER database; a position that is merely different-but-larger where the model says equal is a difference at tie level, op c17eq): a maintenance step / "
            "a failover / a new second id never loses or lowers that position, a life never lowers it (system-step-loses-position), a position-less state never reads a position >= 0 "
            "(position-after-reset), the first position is not below X0 (first-position-unreadable), a complete SetRunId issued at least the entry HSET and the hash "
            "repointing (tie c17eq relabel-writes>=2 = theorem relabel_len). Op c17fresh beside every c17good / c17bare: the names / ids used so far (recorded by the harness) vs the dump - every key name and hash value is a used name, every field's run id and hash key a used id, key / ids / pending name among them (Drive/C17Fresh.lean). Op c17life (replaces the self-comparison c17w): the REAL request log of the target double on the sender's "
            "connection up to the cut / the gc pass (SELECT, MULTI, EXEC, the checkpoint-key HSETs classified by their field names, other commands) is fed to BookSys.lifeReqs (the model tracks "
            "the executing database through SELECT and applies a MULTI at its EXEC) from the state before the session; the model's fields under the key in every database vs what the double "
            "REALLY holds there (HGETALL order) - a write the model attributes to another database, loses inside an aborted MULTI or orders differently is a DIFF "
            "(an HSET of the key with other fields: sender-bookkeeping-write-shape). Op c17sr (RedisOutput.SetRunId across calls): 1-3 calls of the real SetRunId of ONE RedisOutput under virtual time, "
            "error replies planted at the (k+1)-th write request of chosen attempts (k in 0..5, one call in four failing entirely before the hash is repointed): per attempt "
            "the applied requests, per call the return value and the in-memory field, the final position vs BookSys.setRunId; monitors setrunid-calls-lose-position, "
            "setrunid-nil-without-relabel (a call that returned nil: position readable under [new, other]); both fire on lost / smaller / other database only. "
            "DIMENSION AUDIT (harness C17dim, package checkpoint; forced cases, 3 per dimension value in quick / 40 in thorough, each through the c17g / c17u pipeline = real code vs model at every request prefix, plus the precondition-free monitors "
            "dim-foreign-bookkeeping-touched and dim-live-id-loses-position; counters dim_<kind>_<value>, cfg_staleCheckpointDuration_<0|1ns|1h|12h|100y>, cfg_live_ids_<n>, cfg_sources_<n>, cfg_resumeFromBreakPoint_false): stored mtime missing / 0 / negative / "
            "in the future / = threshold / threshold +-1 / old, for a live and for a dead label; staleCheckpointDuration 0 / 1 ns / 1 h / 12 h / 100 years; equal offsets in 2-3 databases with different and with equal mtimes (INJECTED: proved unreachable, nothing "
            "may be lost), three databases descending; hash entry without records (live / dead id), records without hash entry, hash value \"\"; a user's hash and another tool's checkpoint-like key that the hash does not name, two names with two ids, two ids "
            "sharing one key; live set of 0 / 1 / 2 / 6 ids; offsets -1 / 0 / 1 / max int64. c17gf now draws 1 / 2 / 4 reachable source nodes (the labelling node LAST) besides the unreachable one. resumeFromBreakPoint=false (CheckpointName \"\"): the real "
            "SetRunId must issue nothing (monitor setrunid-writes-without-checkpoint-name). NOT drawn: ids that are prefixes of one another (the model reads HasPrefix / Contains as equality on 40-hex ids - assumption 1 - so such ids would be a model difference by "
            "construction; Redis ids have one length), zero sources (not a legal configuration: the input list is validated non-empty). "
            "INTERLEAVINGS at request level - enumerated: every request PREFIX of each single operation (crash points); gc pass x relabel with the relabel landing exactly between the poll and the hash read (c17gr, every case); sampled: the relabel landing 1-10 "
            "requests INSIDE the gc pass (c17gr, one case in three, monitors only), gc pass between two chunks of a live sender session (c17sys / c17gs), SetRunId x SetRunId of one RedisOutput sequentially with failovers in between (c17sp); NOT interleaved with "
            "each other: start (UpdateCheckpoint at process start) x gc, rename x relabel, the bidirectional format switch x anything (each runs before the process starts its cron / link: sequential in production), two gc passes. "
            "c17gr (gc BESIDE a failover relabel, package cmd, harness C17gr; Props/C17GcRelabel.lean): the REAL gcStaleCheckpoint polls the source double (ids [old, other]); when its `hgetall redis-gunyu-checkpoint-hash` reaches the target double - "
            "after the poll, before the hash is read - the double's Hook runs the REAL RedisOutput.SetRunId(new id) of the link's RedisOutput (the source failed over, PSYNC CONTINUE); the stored position is OLD (older than staleCheckpointDuration "
            "in three cases of four, as a long-running link leaves it; young; without _mtime), 1-3 databases, thresholds 1 h / 12 h; the gc's requests after the relabel and the position after every prefix vs gcReqs on the dumped post-relabel "
            "state with live = the ids polled BEFORE the relabel (op c17g); monitor gc-beside-relabel-loses-live-position: the real next start (ids [new, old]) after every request prefix of the pass reads a position not smaller, same database "
            "(the record the relabel wrote is protected only by the time SetCheckpoint stamps it with: source fact c17_setcheckpoint_mtime, theorem update_stamps_now). "
            "Op c17sp (package syncer, harness C17sq; Model/BookRunIdSeq.lean srRunP = the REPAIRED SetRunId): ONE RedisOutput, the real SetRunId called with 2-3 DIFFERENT ids in turn (a failover of the source between two calls) under virtual time; "
            "error replies planted on write requests (the step stops after k writes) AND on the first request of an attempt (a read: the step fails with all / none of its writes applied, AttemptF.rfail); in half of the cases a call's first "
            "attempt stops at one of its last writes and its retries fail on a read (the call fails with cfg.RunId behind the label: the next call runs the finishing step); position in database 0 in two cases of three; each connection's requests are "
            "split into the finishing UpdateCheckpoint and the relabel proper (at `hget <hash> <id of the call>`): per step the applied requests, per call the return value, cfg.RunId and pendingRunId, the final position under the ids reported "
            "at the end vs BookSys.srRunP; monitor setrunid-second-failover-loses-position (the position was readable after every failover, the final start reads none / less / elsewhere; replay.class = field-current | stale-field-other | "
            "stale-field-db0-records-gone - the last was finding C17-F1, fixed by bf252d5, its witnesses stay in corpus/C17/setrunid_second_failover.txt and the monitor is silent on them now). "
            "c17mb (in c17m): the offset the REAL bidirectional start resumes at before the switch (RedisOutput.StartPoint in the namespace's current mode) and after EVERY request "
            "the switch issued (the real resolve re-run + StartPoint in the desired mode), consecutive duplicates removed, vs MigrateNs.bisyncStart / nextStart over the prefixes of "
            "MigrateNs.migrateReqsB (all branches of the switch; refused switches excluded). "
            "distinct_nontrivial = distinct (operation, precondition class, #requests, #hashes, DB of the position)",
    "trusted": ["target double harness/overlay/pkg/vfdoubles/target.go (per-DB keyspace, HSET keeps field order / HDEL removes the key when empty, INFO keyspace lists non-empty DBs, SELECT per connection)",
                "Go map iteration over INFO keyspace = any order (parameter of the model; the order the real code used is read from the request log)"],
    "assumptions": [
        "replication ids are 40 hex characters (equal length, no '_'): fetchCheckpoint's HasPrefix/Contains field match is modelled as equality of the parsed (run id, suffix) - the harness generates ids of that shape",
        "the preconditions of the safety theorems (UpdPre / GcPre / Solo: one DB holds the STRICTLY largest offset X >= 0 of the two ids, every numeric field parses, `_runid` fields store their own id, a new key name holds no field of the ids, an orphaned new-id record is a copy, one id alone reads X) are no longer assumed: Props/C17Reach.lean derives them as INVARIANTS of the writers (reach_good) for every state reachable from an EMPTY target by seed / sender lives / sender sessions with gc passes running beside them / starts / SetRunId / gc passes (each stopped after any request) / failovers / crashes / ResetStartPoint + SetRunId, gc, start on the position-less state + the next setCheckpoint, and restates the C17 theorems with reachability as the only hypothesis (reach_start_safe, reach_relabel_safe, reach_gc_safe, reach_gc_spares_label). A tie between two databases (exTie) is unreachable (reach_no_tie). What `Reach` ASSUMES about the environment (stated in its constructors): (1) a sender session replays what Props.C02.Lives assumes of the source stream (LifeHyp: sorted offsets above the stored one, no nested MULTI, SELECT arguments / mapped databases >= 0, the parser does not fail) and the offsets it stores are int64; (2) a new master id / second id was never used on this target before (replication ids are random) and a source failover is learnt while the position is labelled with the current master id (two failovers with no relabel in between leave the position unreadable under the reported ids: outside the model, full resynchronisation); (3) a key name is the current one, the one a cut rename wrote to, or was never used (a name abandoned in the middle of a rename and taken again AFTER the position moved on is outside LocOk; the real code overwrites / outgrows the stale copy); (4) INFO keyspace lists every database holding the key; (5) a sender runs only in a process whose start completed and whose SetRunId returned nil (syncMeta returns the error otherwise); (6) the monitor still checks the preconditions per case on the GENERATED states of c17u / c17g (they are arbitrary, not reachable ones)",
        "reset + new full sync later in the life of a target IS a step of `Reach` (reset / relabelB / gcB / startB / crashB / reseed; invariant `Bare` on the position-less states, reach_bare_no_position: the next start reads no position >= 0 there) with these limits: ResetStartPoint is COMPLETE (a reset cut between its requests is C06's subject: Model/PositionWriters.lean resetCps; not composed here), the process does not rename the key and the source does not fail over between the reset and the next setCheckpoint (the real code goes straight from ResetStartPoint to the snapshot replay), and DelCheckpoints' order (ascending (offset, mtime, db), all records read before the first delete, an unreadable record aborts: BookSys.delCheckpointsReqs) is modelled for the reset and, for the tie, for UpdateCheckpoint's clean-up (BookSys.updateReqsReal: op c17u no longer takes the order from the harness; update_real_is_prefix: it is a prefix of updateReqs for SOME order o2, and the theorems hold for every o2 and every prefix) - `Reach` itself keeps o2 universally quantified. A gc pass beside a session starts between two requests of the sender OUTSIDE a MULTI...EXEC (SchedOK: the target executes a transaction atomically) and the session then continues on its own connection with the database it had selected. A target with other syncers' keys / ids beside this one (foreign hash entries) is not modelled in `Reach` (gc_prefix_safe / gc_spares_live_id themselves allow them)",
        "recovery-format switch: the namespace root checkpoint lives in DB 0 (setCheckpoint / seedBisyncNamespace write it there)",
        "D24's repair keeps <id>_runid/<id>_version of a live id in every DB a gc pass empties of its _offset/_mtime. These two small fields per (id, DB) are never collected, not even when the id dies: DelStaleCheckpoint only visits entries with offset > 0 (the same pre-existing filter never collects the offset -1 placeholder entry UpdateCheckpoint writes for a new id either). A permanent but bounded leak (<= #ids ever live x #DBs visited), not a correctness problem: fetchCheckpoint reads such a record as offset -1, which is never selected as a position (generated: norunid / nooffset records, corpus d24_*); visible effects: the DB stays listed in INFO keyspace, so every start / gc pass keeps visiting it. Collecting them needs the dead-id branch to drop the offset > 0 filter (gc change + model + proof), not done",
        "standalone target double: getDbMap's cluster short-cut ({0:0}) and the cluster client's routing of GetAllCheckpointHash / HDEL are not executed (a change there is invisible to this check)",
        "SEVERAL TOOL PROCESSES ON ONE TARGET (dimension audit): gcStaleCp treats every id its OWN sources do not report as dead and protects it only by the freshness of `_mtime`; the replay path never rewrites `_mtime`, so the position of ANOTHER redis-GunYu process writing to the same target looks stale once that process has streamed longer than staleCheckpointDuration, and this process's gc deletes it (records and hash entry). The property speaks of ids `a source still reports` = the sources of the process that runs the gc; C17dim draws such foreign entries (two_names_two_ids, shared_key_two_ids, live_0) and the model agrees with the code that they ARE collected when stale. Not recorded as a finding (by design of the shared hash; a repair needs a per-process namespace or an mtime refreshed by the replay path), stated here so that nobody reads gc_spares_live_id as covering it",
        "other writers of the same bookkeeping are outside the property by declaration: the fullsync API's delCheckpoints (cmd/syncer_api.go) and RedisOutput.ResetStartPoint (C06) delete positions on purpose",
        "one maintenance operation at a time on a target EXCEPT gc beside a replaying sender, which production does run: Reach.session / reach_session_safe interleave gc passes (each cut anywhere) with the requests of a running session, c17sys and c17gs execute it with the real code; two maintenance operations interleaved with each other (gc during a start / SetRunId) are not modelled",
        "foreign DEL / FLUSHDB of a database holding a checkpoint is outside the property (remark: writing <id>_runid/<id>_version with every checkpoint HSET in sendCmdsBatch would make the sender robust against it; not done, sender core unchanged)",
        "a format switch the code REFUSES (no authoritative seed: root checkpoint only - pinned by the repo test TestResolveBisyncCheckpointNameRejectsPlainCheckpointFallback -, or a journal gap) issues no request and leaves the target as it was; the start keeps failing until the configured mode is reverted - counted as migrate_refused, not a loss of position",
    ],
    "partial": [
        "RedisOutput.SetRunId is now modelled as a state machine over the in-memory field (Model/BookSys.lean setRunId / retryLoop / setRunIdCalls: early return, [new, field] passed, field assigned only after a complete attempt, at most three attempts) and proved (Props/C17RunId.lean): on every reachable state any sequence of calls with any fate of the attempts keeps the SAME position readable under the reported ids and the field equal to the label or (hash already repointed by a failed attempt) to the second id (FieldOK); a call that returns nil has relabelled. In BookSys.setRunId an attempt is `k write requests applied, then an error or completion` (c17sr plants errors on write requests only); the fate `an attempt fails with ALL its writes applied` (dial error, error reply to a READ request, failed Flush - the only way an attempt with nothing left to write fails) is Model/BookRunIdSeq.lean AttemptF.rfail: setRunIdF_good re-proves the statement with it, c17sq plants read errors on the real SetRunId",
        "migrate_start_exact / migrate_start_inferred (Props/C17Migrate.lean) prove, for the migration PROPER (stored mode marker, or none and the mode inferred; another recovery family, authoritative seed), that after ANY prefix of the switch's requests - namespace-level ones included (frontier snapshot / latest record seed, journal / slot-key / root clean-up: Model/MigrateNs.lean) - the next bidirectional start (switch re-run to completion into a second drawn name, then bisyncStartPoint in the new mode = C14's Frontier.startLatest / startFrontier) resumes at EXACTLY the offset the start in the old mode resumed at. In-place switches (same recovery family) / namespace creation / refused switches have no theorem on the bidirectional start (c17mb compares the former two with the real code). The model ignores the marker keys (`…:marker:{tag}`) and the UpdateCheckpoint the start runs between resolve and StartPoint (a no-op once the hash maps ids[0] to the resolved name)",
        "`Reach`'s sender step is the sender model's wire log made concrete (BookSys.lifeReqs): c17life ties lifeReqs to the REAL request log (what the double holds after it), fact c17_sender_cp_writes the shape of the HSETs; that the real log is one the sender MODEL produces (LifeHyp: sorted offsets etc.) is C02/C07's tie, not re-checked here beyond `Good` on the states real sessions leave (c17good)",
        "c17good / c17bare evaluate goodChecks / bareChecks, proved to IMPLY Good / Bare (goodChecks_decide_good / bareChecks_decide_bare; only that direction) given that the dump is the whole state and the freshness clauses hold. The freshness clauses (hkeyIn / hmasIn / hsecIn / hpmem / hnames / hids: key, ids and pending name are among the names / ids used so far, a name / id never used occurs nowhere on the target) are now EVALUATED: c17sys records every key name that was current or pending and every id the source reported (at every check) and op c17fresh evaluates Drive/C17Fresh.lean freshWhy on the dump beside every c17good / c17bare; Props/C17Fresh.lean namesOk_decides / idsOk_decides prove that the Bool implies hnames / hids for the target the driver builds from the dump (mkTarget). Still a hypothesis: the dump is the whole state (VfDumpState lists every hash of every database of the double), and the recorded lists are the harness's own bookkeeping of Ctl.names / Ctl.ids (recorded at checks, i.e. after every step)",
        "calls with DIFFERENT ids in sequence (a second failover between two calls of ONE RedisOutput): Model/BookRunIdSeq.lean has BOTH state machines - srRun (before the repair bf252d5: setRunIdSeq_partial holds when every failover is learnt while cfg.RunId is the master id, and the general statement setRunIdSeq_stmt is refuted: setRunIdSeq_stmt_refuted, the witness of C17-F1) and srRunP (the repaired code with pendingRunId: dial error, finishing step and relabel proper each with any fate). Props/C17RunIdFix.lean setRunIdSeq_fixed proves the general statement for the repaired machine: a fresh RedisOutput on any reachable state, any failovers (each while the hash maps the master id, its id never used before) and calls: the SAME position stays readable (invariant InvP over cfg.RunId / pendingRunId). Not covered: a failover while the position is still labelled with the id before (no request of the relabel applied; the position is unreadable under the reported ids - outside the property, counted sq_unreadable_after_failover), an id that returns (a source failing BACK to an id used before; ids are fresh in Reach), a dial error is in the model but not planted by the harness (vfSysOutput's connection factory always succeeds)",
        "REGENERATED decisions (harness/extract/c17guards.go -> Gen/CheckpointGuards.lean, Props/C17Gen.lean gen_*_eq_model): GetCheckpoint's selection condition (larger offset, newer mtime on a tie), DelStaleCheckpoint's `newest` / candidate / spare conditions and the initial newest. NOT regenerated (still hand model + correspondence ops c17u / c17g + facts): fetchCheckpoint's field loop (HasPrefix / Contains matching, which field overwrites which), UpdateCheckpoint's re-key plan (which requests in which order, the `dbid < 0` and `rewritten` branches), the field lists of the two HDELs, gcStaleCp's `!exist && total == deleted` - they are interleaved with I/O, gofn translates whole pure functions only; a condition moved into a helper function makes the generator fail (broken tie, no guess)",
        "migrate_start_exact / migrate_start_inferred keep their own preconditions (MigStartPre): they are not derived from a reachability predicate of the bidirectional writers",
        "gc beside a relabel (round-8 mutation: SetCheckpoint keeping the caller's OLD mtime): the model always wrote `now` (cpEntries) but op c17u takes `now` from the mtime the real request carries, so the tie could not see a stale stamp; now pinned by the source fact c17_setcheckpoint_mtime (the statements of SetCheckpoint that mention the mtime), stated as theorems (update_stamps_now; delStale_only_old / delStale_fresh_not_all / gcLoop_head_fresh: a pass whose live-id snapshot predates the relabel deletes only records with mtime <= before and never the hash entry of an id holding a younger record) and EXECUTED (c17gr: poll, real SetRunId, hash read). The two halves are not composed into one theorem over `Reach` (that fetch reads back the stamped mtime from the HSET is shown on the example rxT1b only), and gc's live set in `Reach.gc` / `Reach.session` still CONTAINS the reported ids (a stale snapshot is covered by these theorems and c17gr, not by reach_gc_safe)",
        "gc_spares_newest_of_live_id / gc_passes_exceptNewest are lemmas that restate the definition (kept for the audit, not required); the property's second sentence is gc_spares_live_id (whole gc pass, ANY live id) and, on reachable states, reach_gc_spares_label",
    ],
}

MANIFEST = {
    "text": "The preconditions are invariants of the writers: every state reachable from an empty target by sender lives (also with gc passes running beside the live session), SetCheckpoint, UpdateCheckpoint (start / SetRunId), gc passes - each stopped after any request -, failovers, crashes, and ResetStartPoint followed by maintenance on the position-less state and the next SetCheckpoint satisfies them (Props/C17Reach.lean, the sender's part imported from C02/C07), so the statements below hold on all reachable states; RedisOutput.SetRunId over calls and failed attempts (Props/C17RunId.lean); the bidirectional start resumes at exactly the same offset after any prefix of the recovery-format switch (Props/C17Migrate.lean). "
            "Lean theorems for EVERY initial bookkeeping state meeting the stated preconditions, EVERY database iteration order of every loop and "
            "EVERY prefix of the write requests issued: UpdateCheckpoint (rename / re-key), the bidirectional recovery-format switch and stale-checkpoint "
            "gc leave a target on which GetCheckpointHash + GetCheckpoint read the same (switch: a not smaller) offset in the same database; "
            "DelStaleCheckpoint with exceptNewest never deletes in the database holding the id's largest offset, for every clock position. "
            "Tied to the code by differential correspondence of the real functions against the target double with every request prefix replayed and "
            "the real start-point read, plus independent monitors; literal field/key names regenerated from the source. "
            "One RedisOutput across several failovers (Props/C17RunIdFix.lean setRunIdSeq_fixed, the repaired SetRunId with pendingRunId). The selection conditions of GetCheckpoint / DelStaleCheckpoint are regenerated from the source (Props/C17Gen.lean). Seven defects found and fixed (C17-F1, bf252d5: a SetRunId call that failed after repointing the hash left cfg.RunId behind the label; after a second failover the next call overwrote the position in database 0 with the placeholder -1 - proved on the model of the old state machine, setRunIdSeq_stmt_refuted, and executed on the real code; D13: re-keyed position written into an arbitrary database; D22: format switch dropped a newer root checkpoint; D24: gc deleted the run id fields a running sender relies on; D27: an offset stored without its run id was promoted to a position in DB 0; D33: SetRunId's retry after a failed attempt ran with [new,new] and overwrote the position with -1; D34: UpdateCheckpoint run again deleted the entry it had just written).",
    "note": "trusted: Lean kernel (propext, Classical.choice, Quot.sound only), target double, extractor, harness; cmd/syncer.go gcStaleCp closure compared textually with the transliteration",
    "technique": "Lean 4 proof (position predicate preserved request by request, fold invariants over arbitrary DB orders) + differential correspondence over every request prefix (crash points)",
}
