PROP = {
    "lean_modules": ["GunYu.Props.C17"],
    "audit_namespaces": ["GunYu.Props.C17"],
    "required_theorems": [
        "GunYu.Props.C17.update_prefix_safe",
        "GunYu.Props.C17.update_position_before",
        "GunYu.Props.C17.update_restart_reads_local",
        "GunYu.Props.C17.update_restart_reads_local_swapped",
        "GunYu.Props.C17.update_rerun_reads_local",
        "GunYu.Props.C17.setrunid_retries_read_local",
        "GunYu.Props.C17.setrunid_retries_start_safe",
        "GunYu.Props.C17.migrate_prefix_safe",
        "GunYu.Props.C17.gc_prefix_safe",
        "GunYu.Props.C17.gc_spares_live_id",
        "GunYu.Props.C17.gc_newest_is_largest",
        "GunYu.Props.C17.consts_match_source",
    ],
    # cmd/syncer.go is not run in-process: the closure `gcStaleCp` (log statements removed), the control flow
    # around it (c17_gc_frame: which nodes are asked for run ids, `return` when one cannot be reached - never
    # `continue`, an unreachable source must not look dead -, which output clients gc runs on) and the
    # construction of the live-id set are compared with what the harness transliterates / the model assumes
    "expected_facts": {
        "c17_gcStaleCp": '{ data, err := checkpoint.GetAllCheckpointHash(cli) if err != nil { return } if len(data)%2 == 1 { return } for i := 0; i < len(data)-1; i += 2 { runId := data[i] cpn := data[i+1] _, exist := runIdMap[runId] total, deleted, err := checkpoint.DelStaleCheckpoint(cli, cpn, runId, config.GetSyncerConfig().Channel.StaleCheckpointDuration, exist) if err != nil { } if !exist && total == deleted { err = checkpoint.DelCheckpointHash(cli, runId) if err == nil { } else { } } } }',
        "c17_gc_frame": ['inputs := config.GetSyncerConfig().Input.Redis.SelNodes(true, config.SelNodeStrategyMaster)', 'inputs = append(inputs, config.GetSyncerConfig().Input.Redis.SelNodes(true, config.SelNodeStrategySlave)...)', 'runIdMap := make(map[string]struct{}, len(inputs)*2)', 'for _, input := range inputs { input.Type = config.RedisTypeStandalone cli, err := client.NewRedis(input) if err != nil { return } id1, id2, err := redis.GetRunIds(cli) if err != nil { cli.Close() return } runIdMap[id1] = struct{}{} runIdMap[id2] = struct{}{} cli.Close() }', 'gcStaleCp := <closure>', 'if config.GetSyncerConfig().Output.Redis.Type == config.RedisTypeCluster { cli, err := client.NewRedis(*config.GetSyncerConfig().Output.Redis) if err != nil { return } gcStaleCp(cli) cli.Close() } else if config.GetSyncerConfig().Output.Redis.Type == config.RedisTypeStandalone { outputs := config.GetSyncerConfig().Output.Redis.SelNodes(true, config.SelNodeStrategyMaster) for _, out := range outputs { cli, err := client.NewRedis(out) if err != nil { return } gcStaleCp(cli) cli.Close() } }'],
        "c17_gc_live_ids": ['runIdMap[id1] = struct{}{}', 'runIdMap[id2] = struct{}{}'],
        # how a start orders the reported ids before UpdateCheckpoint (Model/Checkpoint.lean startIds / nextStart)
        "c17_start_order": ['ordered := ids',
                            'if len(ids) > 1 && cpRunId == ids[1] && ids[1] != ids[0] { ordered = []string{ids[1], ids[0]} }',
                            'label = ordered[0]',
                            'err = checkpoint.UpdateCheckpoint(cli, localCheckpoint, ordered)'],
    },
    "harness": [
        {"name": "C17", "pkg": "./pkg/redis/checkpoint/", "test": "TestVerifC17"},
        {"name": "C17m", "pkg": "./syncer/", "test": "TestVerifC17Migrate"},
        {"name": "C17gs", "pkg": "./syncer/", "test": "TestVerifC17GcSender"},
        {"name": "C17gf", "pkg": "./cmd/", "test": "TestVerifC17GcFrame"},
        {"name": "C17st", "pkg": "./syncer/", "test": "TestVerifC17Start"},
    ],
    "driver": "drv_C17",
    "rule": "c17u (UpdateCheckpoint): corpus (D13 witnesses); generated bookkeeping states on the target double: nothing stored / rename / "
            "failover on the same key / failover + rename / up to date / both ids mapped (also to different keys) / both ids' fields side by "
            "side / wild (unparsable values, '?' run ids, shuffled or truncated field lists, new key already populated); 1-3 of the DBs "
            "{0,1,2,3,5,9,15} hold the checkpoint with a strict or tied maximum, foreign ids' fields, bisync mode markers, busy DBs; one third "
            "of the states are what a previous UpdateCheckpoint leaves when cut after a random request (restart under the same or another key). "
            "c17g (gc): 1-4 hash pairs (live and dead ids, shared or own keys), offsets incl. -1/0/1, mtimes at threshold-1/0/+1 and far on both "
            "sides (synctest clock, thresholds 1 s / 1 h / 12 h), missing offset fields, run id fields naming another id, unparsable mtimes; "
            "real GetAllCheckpointHash + DelStaleCheckpoint + DelCheckpointHash driven as cmd/syncer.go's gcStaleCp does. "
            "c17m (recovery-format switch, package syncer): corpus (D22 witnesses); new / old id mapped, mode marker stored / missing (inferred) / "
            "invalid, desired mode sync / pipeline / parallel, root checkpoint older or newer than the recovery state, second DB holding an older "
            "root, frontier + journal (gaps, trimmed records) or latest record: real resolveBisyncCheckpointNameWithClient. "
            "Every write request of an operation is a crash point (format switch: EVERY request it issues, also those on the old namespace's "
            "latest / marker / journal keys): vfdoubles.Replay of the request prefix, then the REAL GetCheckpointHash + "
            "GetCheckpoint. Requests (DB, key, fields, values) and the position after every prefix vs Lean (updateReqs / gcReqs / migrateReqs); "
            "one HSET / HDEL / DEL is atomic, so the order of its field-value pairs / fields / keys is not an observable: both sides render them sorted by name. "
            "Monitors on the real code: position after any prefix not smaller and in the same DB (on states meeting the stated preconditions, "
            "counted per reason in input_distribution pre_*; a rename cut after its first HSET is monitored as class rename-cut); the REAL next start "
            "after every update prefix (id ordering of syncer.updateCheckpoint + UpdateCheckpoint re-run to completion + GetCheckpoint under the LOCAL key; "
            "this transcription, VfNextStart, is tied in c17st); an entry whose offset was stored without its run id is never promoted to a position "
            "(update-invents-position, D27); "
            "after every prefix of a format switch the real resolve re-run + real RedisOutput.StartPoint (bisyncStartPoint) must not resume before the old "
            "namespace's start; gc never deletes in the DB holding the unique largest offset of a live id; entries WITHOUT _mtime (what the replay path "
            "writes) and mtime 0 are generated in 1/3 of the DBs incl. the newest. "
            "c17gf (the REAL SyncerCmd.gcStaleCheckpoint, frame included, package cmd): loopback source doubles answering INFO replication with "
            "master_replid AND master_replid2, the target double behind a loopback listener; position labelled with the current id or (failover pending) "
            "with the previous one, younger / older than staleCheckpointDuration or without _mtime, 1-3 DBs, a dead id sharing the key, one source node "
            "unreachable (gc must issue nothing); requests + position after every prefix vs the Lean model of gcStaleCp with live = every reported id; "
            "monitor: the next start after every prefix reads a position not smaller, same DB. Error path: every request of the gc pass (scan requests "
            "included: hgetall of the hash, info keyspace, select, exists, hgetall of the entries, hdel) gets an error reply in turn (connection stays usable), "
            "the run goes on as the code does, then the next start on what it left must read a position not smaller, same DB (gc-error-reply-loses-live-position; "
            "quick tier: 8 requests per case spread over the pass, all for corpus cases; position in DB 0 in >= 1/3 of the cases). "
            "c17gs (gc while the sender runs): the real sendAof under virtual time replays a stream visiting several source DBs, the real gc runs between two "
            "batches, the stream returns to a DB visited before; after EVERY request prefix a fresh RedisOutput.StartPoint must still read the session's run id "
            "and a not smaller offset. "
            "c17st (the production path of 'move to a new replication id', package syncer): the REAL syncer.updateCheckpoint (it dials: the double sits "
            "behind a loopback listener), the REAL RedisOutput.SetRunId and the REAL RedisOutput.StartPoint: restart after a failover (ids [new, old]) reads the "
            "stored position; SetRunId(new) - every request prefix a crash point, the next real start reads a position not smaller in the same DB; the "
            "replay's fields under the new id advance it; once the source stops reporting the old id (ids [new, other]) the next start still reads it "
            "(position in DB 0 and in other DBs, pending key rename). On 150+ arbitrary bookkeeping states the real start and VfNextStart must read the same "
            "position and leave the same state (harness-next-start-differs). Error REPLIES: every request of the real SetRunId (reads included) "
            "is answered with an error in turn, SetRunId goes on by itself (its RetryLinearJitter under virtual time), then the real next start with "
            "[new, old] and - if SetRunId reported success - with [new, other] must read a position not smaller, same DB "
            "(setrunid-error-reply-loses-position); the persistent variant: every request of SetRunId fails until it gives up, the SAME RedisOutput "
            "calls SetRunId again, the replay stores a larger offset under the new id, a NEW process starts and relabels - every prefix a crash "
            "point (relabel-after-failed-relabel-loses-position). "
            "distinct_nontrivial = distinct (operation, precondition class, #requests, #hashes, DB of the position)",
    "trusted": ["target double harness/overlay/pkg/vfdoubles/target.go (per-DB keyspace, HSET keeps field order / HDEL removes the key when empty, INFO keyspace lists non-empty DBs, SELECT per connection)",
                "Go map iteration over INFO keyspace = any order (parameter of the model; the order the real code used is read from the request log)"],
    "assumptions": [
        "replication ids are 40 hex characters (equal length, no '_'): fetchCheckpoint's HasPrefix/Contains field match is modelled as equality of the parsed (run id, suffix) - the harness generates ids of that shape",
        "preconditions of the safety theorems (checked by the monitor before it judges a case): under the key the hash resolves to, one DB holds the STRICTLY largest offset X >= 0 of the two ids (C02 after the D5 repair: the position written after a SELECT is larger than the one left in the previous DB; with EQUAL offsets in two DBs gc can move the position to the other DB - example in Props/C17.lean), every numeric field of the ids parses, `_runid` fields store their own id, a new key name holds no field of the ids, an orphaned new-id record left by an interrupted re-key is a copy of the old id's record beside it; gc: both ids are reported by a source and one of them alone reads X in that DB",
        "recovery-format switch: the namespace root checkpoint lives in DB 0 (setCheckpoint / seedBisyncNamespace write it there)",
        "D24's repair keeps <id>_runid/<id>_version of a live id in every DB a gc pass empties of its _offset/_mtime. These two small fields per (id, DB) are never collected, not even when the id dies: DelStaleCheckpoint only visits entries with offset > 0 (the same pre-existing filter never collects the offset -1 placeholder entry UpdateCheckpoint writes for a new id either). A permanent but bounded leak (<= #ids ever live x #DBs visited), not a correctness problem: fetchCheckpoint reads such a record as offset -1, which is never selected as a position (generated: norunid / nooffset records, corpus d24_*); visible effects: the DB stays listed in INFO keyspace, so every start / gc pass keeps visiting it. Collecting them needs the dead-id branch to drop the offset > 0 filter (gc change + model + proof), not done",
        "standalone target double: getDbMap's cluster short-cut ({0:0}) and the cluster client's routing of GetAllCheckpointHash / HDEL are not executed (a change there is invisible to this check)",
        "other writers of the same bookkeeping are outside the property by declaration: the fullsync API's delCheckpoints (cmd/syncer_api.go) and RedisOutput.ResetStartPoint (C06) delete positions on purpose",
        "one maintenance operation at a time on a target; gc DOES run concurrently with a replaying sender in production: covered sequentially by c17gs (gc between two batches), not as true interleaving inside one request",
        "foreign DEL / FLUSHDB of a database holding a checkpoint is outside the property (remark: writing <id>_runid/<id>_version with every checkpoint HSET in sendCmdsBatch would make the sender robust against it; not done, sender core unchanged)",
        "a format switch the code REFUSES (no authoritative seed: root checkpoint only - pinned by the repo test TestResolveBisyncCheckpointNameRejectsPlainCheckpointFallback -, or a journal gap) issues no request and leaves the target as it was; the start keeps failing until the configured mode is reverted - counted as migrate_refused, not a loss of position",
    ],
    "partial": [
        "after an attempt of UpdateCheckpoint that does not complete (a stop after k requests, or an error reply to request k+1: the same target state) the operation run again to completion, and the read under the LOCAL key, is PROVED for every way the code runs it again: the START (update_restart_reads_local / _swapped: ids ordered by the checkpoint hash as syncer.updateCheckpoint does - source fact c17_start_order) and the RETRY with the same ids (update_rerun_reads_local; setrunid_retries_read_local / _start_safe: ANY number of incomplete attempts, each on what the ones before left - RedisOutput.SetRunId's RetryLinearJitter, later calls, later processes). That the retry passes the same ids is true of the code only since D33 (SetRunId assigned cfg.RunId = new id even when the attempt failed: its retry ran UpdateCheckpoint(name,[new,new]) and wrote offset -1 over the position - reproduced by c17st with an error reply at every request, fixed ef4c8b8). The precondition `Carrier id2` the retry needed in the previous round is gone: it excluded a state that was REACHABLE on the code before D33 (three failed attempts, early return of the next SetRunId, the replay writes under the unmapped new id) and that UpdateCheckpoint mishandled by deleting the entry it had just written (D34, fixed d026798; model updateReqs follows, UpdPre.orphan removed). Not modelled: SetRunId's early return `cfg.RunId == id` and the in-memory field itself (the harness runs the real function)",
        "migrate_prefix_safe bounds the ROOT checkpoint of the namespace in DB 0 (X <= X'); the position a bidirectional start really uses (root overridden by latest record / rebuilt frontier) is not in the theorem - it is monitored on every crash point with the real resolveBisyncCheckpointNameWithClient re-run + the real RedisOutput.StartPoint (migrate-next-start-regresses, migrate_next_start_checked); only requests on the checkpoint hash and the two root keys are crash points",
        "gc_spares_newest_of_live_id / gc_passes_exceptNewest are lemmas that restate the definition (kept for the audit, not required); the property's second sentence is gc_spares_live_id (whole gc pass, ANY live id)",
    ],
}

MANIFEST = {
    "text": "Lean theorems for EVERY initial bookkeeping state meeting the stated preconditions, EVERY database iteration order of every loop and "
            "EVERY prefix of the write requests issued: UpdateCheckpoint (rename / re-key), the bidirectional recovery-format switch and stale-checkpoint "
            "gc leave a target on which GetCheckpointHash + GetCheckpoint read the same (switch: a not smaller) offset in the same database; "
            "DelStaleCheckpoint with exceptNewest never deletes in the database holding the id's largest offset, for every clock position. "
            "Tied to the code by differential correspondence of the real functions against the target double with every request prefix replayed and "
            "the real start-point read, plus independent monitors; literal field/key names regenerated from the source. "
            "Six defects found and fixed (D13: re-keyed position written into an arbitrary database; D22: format switch dropped a newer root checkpoint; D24: gc deleted the run id fields a running sender relies on; D27: an offset stored without its run id was promoted to a position in DB 0; D33: SetRunId's retry after a failed attempt ran with [new,new] and overwrote the position with -1; D34: UpdateCheckpoint run again deleted the entry it had just written).",
    "note": "trusted: Lean kernel (propext, Classical.choice, Quot.sound only), target double, extractor, harness; cmd/syncer.go gcStaleCp closure compared textually with the transliteration",
    "technique": "Lean 4 proof (position predicate preserved request by request, fold invariants over arbitrary DB orders) + differential correspondence over every request prefix (crash points)",
}
