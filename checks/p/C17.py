PROP = {
    "lean_modules": ["GunYu.Model.Checkpoint"],
    "audit_namespaces": [],
    "required_theorems": [],
    "expected_facts": {},
    "harness": [{"name": "C17", "pkg": "./pkg/redis/checkpoint/", "test": "TestVerifC17"}],
    "driver": "drv_C17",
    "rule": "TODO",
    "trusted": [],
    "assumptions": [],
}

MANIFEST = {
    "text": "TODO",
    "note": "TODO",
    "technique": "Lean 4 proof + differential correspondence over crash prefixes",
}
