EXPECTED_WIRING = [
    "ro.outFilter.InsertCmdBlackList(filter.NoRouteCmds, true)",
    "ro.outFilter.InsertCmdBlackList(cfg.Filter.CmdBlacklist, true)",
    "ro.outFilter.InsertPrefixKeyBlackList([]string{config.CheckpointKey, config.NamespacePrefixKey})",
    "ro.bisyncNsFilter.InsertPrefixKeyBlackList([]string{checkpoint.BisyncKeyPrefix + \":\"})",
    "ro.outFilter.InsertPrefixKeyBlackList(keyFilter.PrefixKeyBlacklist) [if keyFilter != nil]",
    "ro.outFilter.InsertPrefixKeyWhiteList(keyFilter.PrefixKeyWhitelist) [if keyFilter != nil]",
    "ro.outFilter.InsertSlotWhiteList(slotFilter.KeySlotWhitelist) [if slotFilter != nil]",
    "ro.outFilter.InsertSlotBlackList(slotFilter.KeySlotBlacklist) [if slotFilter != nil]",
    "ro.outFilter.InsertDbBlackList(dbBlackList) [if len(dbBlackList) > 0]",
]

# every place package syncer consults the filter: file:func: statement/condition [guards]
EXPECTED_USES = [
    "bisync.go:parseAofReplayUnits: bypass = ro.outFilter.FilterDb(n) [in strings.EqualFold(sCmd, \"select\") ; sCmd != \"ping\"]",
    "bisync.go:parseAofReplayUnits: if ro.outFilter.FilterCmd(sCmd) [in !(strings.EqualFold(sCmd, \"select\")) ; sCmd != \"ping\"]",
    "bisync.go:parseAofReplayUnits: newArgv, reject := ro.outFilter.FilterCmdKey(sCmd, argv)",
    "bisync_rdb.go:rdbReplayBisync: if ro.outFilter.FilterDb(int(e.DB))",
    "bisync_rdb.go:rdbReplayBisync: if ro.outFilter.FilterKey(string(e.Key)) || ro.outFilter.FilterSlot(string(e.Key)) || isBisyncNamespaceKey(string(e.Key)) || ro.bisyncRdbTargetReserved(e.Key) [in !(ro.outFilter.FilterDb(int(e.DB)))]",
    "bisync_rdb.go:rdbReplayBisync: if ro.outFilter.FilterKey(string(e.Key)) || ro.outFilter.FilterSlot(string(e.Key)) || isBisyncNamespaceKey(string(e.Key)) || ro.bisyncRdbTargetReserved(e.Key) [in !(ro.outFilter.FilterDb(int(e.DB)))]",
    "output.go:parseAofCommand: bypass = ro.outFilter.FilterDb(n) [in strings.EqualFold(sCmd, \"select\") ; sCmd != \"ping\"]",
    "output.go:parseAofCommand: if ro.outFilter.FilterCmd(sCmd) [in !(strings.EqualFold(sCmd, \"select\")) ; sCmd != \"ping\"]",
    "output.go:parseAofCommand: newArgv, reject = ro.bisyncNsFilter.FilterCmdKey(sCmd, newArgv) [in !reject]",
    "output.go:parseAofCommand: newArgv, reject = ro.outFilter.FilterCmdKey(sCmd, argv)",
    "output.go:rdbReplay: if ro.outFilter.FilterDb(int(e.DB))",
    "output.go:rdbReplay: if ro.outFilter.FilterKey(util.BytesToString(e.Key)) || ro.outFilter.FilterSlot(util.BytesToString(e.Key)) || ro.bisyncNsFilter.FilterKey(util.BytesToString(e.Key)) || ro.bisyncRdbTargetReserved(e.Key) [in !(ro.outFilter.FilterDb(int(e.DB)))]",
    "output.go:rdbReplay: if ro.outFilter.FilterKey(util.BytesToString(e.Key)) || ro.outFilter.FilterSlot(util.BytesToString(e.Key)) || ro.bisyncNsFilter.FilterKey(util.BytesToString(e.Key)) || ro.bisyncRdbTargetReserved(e.Key) [in !(ro.outFilter.FilterDb(int(e.DB)))]",
    "output.go:rdbReplay: if ro.outFilter.FilterKey(util.BytesToString(e.Key)) || ro.outFilter.FilterSlot(util.BytesToString(e.Key)) || ro.bisyncNsFilter.FilterKey(util.BytesToString(e.Key)) || ro.bisyncRdbTargetReserved(e.Key) [in !(ro.outFilter.FilterDb(int(e.DB)))]",
]

EXPECTED_HANDOFF = [
    "syncer/syncer.go: Filter: config.GetSyncerConfig().Output.Filter",
    "cmd/rdb.go: Filter: cfg.Filter",
]

# the two keyspec tables as reviewed (name:first,last,step / name:extractor); an edited, added or removed
# row fails the tie until the expectation is updated on purpose
EXPECTED_POSITION_ROWS = [
    "append:1,1,1", "bf.add:1,1,1", "bf.insert:1,1,1", "bf.madd:1,1,1", "bitfield:1,1,1", "bitop:2,-1,1", "blmove:1,2,1", "blpop:1,-2,1",
    "brpop:1,-2,1", "brpoplpush:1,2,1", "bzpopmax:1,-2,1", "bzpopmin:1,-2,1", "cf.add:1,1,1", "cf.addnx:1,1,1", "cf.insert:1,1,1",
    "cf.insertnx:1,1,1", "cms.incrby:1,1,1", "cms.initbydim:1,1,1", "cms.initbyprob:1,1,1", "copy:1,2,1", "decr:1,1,1", "decrby:1,1,1", "del:1,0,1",
    "delex:1,1,1", "expire:1,1,1", "expireat:1,1,1", "ft.create:1,1,1", "ft.dropindex:1,1,1", "ft.search:1,1,1", "geoadd:1,1,1",
    "geosearchstore:1,2,1", "getdel:1,1,1", "getex:1,1,1", "getset:1,1,1", "hdel:1,1,1", "hexpire:1,1,1", "hexpireat:1,1,1", "hgetdel:1,1,1",
    "hgetex:1,1,1", "hincrby:1,1,1", "hincrbyfloat:1,1,1", "hmset:1,1,1", "hpersist:1,1,1", "hpexpire:1,1,1", "hpexpireat:1,1,1", "hset:1,1,1",
    "hsetex:1,1,1", "hsetnx:1,1,1", "incr:1,1,1", "incrby:1,1,1", "incrbyfloat:1,1,1", "json.arrappend:1,1,1", "json.arrinsert:1,1,1",
    "json.arrpop:1,1,1", "json.arrtrim:1,1,1", "json.clear:1,1,1", "json.del:1,1,1", "json.forget:1,1,1", "json.merge:1,1,1", "json.mset:1,-1,3",
    "json.numincrby:1,1,1", "json.nummultby:1,1,1", "json.set:1,1,1", "json.strappend:1,1,1", "json.toggle:1,1,1", "linsert:1,1,1", "lmove:1,2,1",
    "lpop:1,1,1", "lpush:1,1,1", "lpushx:1,1,1", "lrem:1,1,1", "lset:1,1,1", "ltrim:1,1,1", "move:1,1,1", "mset:1,-1,2", "msetnx:1,-1,2",
    "persist:1,1,1", "pexpire:1,1,1", "pexpireat:1,1,1", "pfadd:1,1,1", "pfmerge:1,-1,1", "psetex:1,1,1", "rename:1,2,1", "renamenx:1,2,1",
    "restore-asking:1,1,1", "restore:1,1,1", "rpop:1,1,1", "rpoplpush:1,2,1", "rpush:1,1,1", "rpushx:1,1,1", "sadd:1,1,1", "sdiffstore:1,-1,1",
    "set:1,1,1", "setbit:1,1,1", "setex:1,1,1", "setnx:1,1,1", "setrange:1,1,1", "sinterstore:1,-1,1", "smove:1,2,1", "spop:1,1,1", "srem:1,1,1",
    "sunionstore:1,-1,1", "tdigest.add:1,1,1", "tdigest.byrevrank:1,1,1", "tdigest.byrevscore:1,1,1", "tdigest.cdf:1,1,1", "tdigest.create:1,1,1",
    "tdigest.incrby:1,1,1", "tdigest.max:1,1,1", "tdigest.min:1,1,1", "tdigest.quantile:1,1,1", "tdigest.rank:1,1,1", "tdigest.reset:1,1,1",
    "tdigest.revrank:1,1,1", "tdigest.trimmed_mean:1,1,1", "topk.add:1,1,1", "topk.incrby:1,1,1", "topk.list:1,1,1", "topk.reserve:1,1,1",
    "unlink:1,-1,1", "xack:1,1,1", "xackdel:1,1,1", "xadd:1,1,1", "xautoclaim:1,1,1", "xclaim:1,1,1", "xdel:1,1,1", "xdelex:1,1,1", "xsetid:1,1,1",
    "xtrim:1,1,1", "zadd:1,1,1", "zincrby:1,1,1", "zpopmax:1,1,1", "zpopmin:1,1,1", "zrangestore:1,2,1", "zrem:1,1,1", "zremrangebylex:1,1,1",
    "zremrangebyrank:1,1,1", "zremrangebyscore:1,1,1",
]

EXPECTED_EXTRACTOR_ROWS = [
    "blmpop:.numkeysStep 1 2 1 []", "bzmpop:.numkeysStep 1 2 1 []", "cms.merge:.fixedKeys [0]", "eval:.numkeysStep 1 2 1 []",
    "evalsha:.numkeysStep 1 2 1 []", "fcall:.numkeysStep 1 2 1 []", "fcall_ro:.numkeysStep 1 2 1 []", "georadius:.geoRadiusStore",
    "georadiusbymember:.geoRadiusStore", "lmpop:.numkeysStep 0 1 1 []", "msetex:.numkeysStep 0 1 2 []", "sort:.sort", "tdigest.merge:.fixedKeys [0]",
    "xgroup:.xgroup", "xreadgroup:.streams", "zdiffstore:.numkeysStep 1 2 1 [0]", "zinterstore:.numkeysStep 1 2 1 [0]", "zmpop:.numkeysStep 0 1 1 []",
    "zunionstore:.numkeysStep 1 2 1 [0]",
]

PROP = {
    "lean_modules": ["GunYu.Props.C10", "GunYu.Props.C10Gen", "GunYu.Props.C10Trie", "GunYu.Props.C10Slot"],
    "audit_namespaces": ["GunYu.Props.C10"],
    "required_theorems": [
        "GunYu.Props.C10.rangeLookup_iff",
        "GunYu.Props.C10.filterSlot_iff",
        "GunYu.Props.C10.prefixMatch_iff",
        "GunYu.Props.C10.filterKey_iff",
        "GunYu.Props.C10.filterCmdKey_spec",
        "GunYu.Props.C10.forwarded_keys_accepted",
        "GunYu.Props.C10.forwarded_keys_not_reserved",
        "GunYu.Props.C10.rdbKeep_iff",
        "GunYu.Props.C10.no_forward_in_listed_db",
        "GunYu.Props.C10.parse_forward_iff",
        "GunYu.Props.C10.unlisted_db_forwards_exactly",
        "GunYu.Props.C10.plain_forwarded_keys_accepted",
        "GunYu.Props.C10.bookkeeping_never_forwarded_plain",
        "GunYu.Props.C10.bisync_keys_in_namespace",
        "GunYu.Props.C10.snapshot_never_replays_bookkeeping",
        "GunYu.Props.C10.bookkeeping_never_forwarded",
        "GunYu.Props.C10.cmd_blacklist_iff",
        "GunYu.Props.C10.db_iff",
        # pkg/filter/range.go TRANSLATED from the Go source each run (Gen/FnRangeList.lean) equals the hand model; the range theorem about the translation
        "GunYu.Props.C10.gen_newRangeList_eq_model",
        "GunYu.Props.C10.gen_isSlotInList_eq_model",
        "GunYu.Props.C10.gen_insertSlotInList_eq_model",
        "GunYu.Props.C10.gen_insertAll_eq_model",
        "GunYu.Props.C10.gen_rangeLookup_iff",
        # pkg/filter/trie.go and FilterCmd / FilterKey TRANSLATED each run (Gen/FnTrie.lean, heap of map-linked nodes as a tree with cursors):
        # refinement of the hand model, both uses (exact lists / prefix lists) about the ONE generated Insert, any insertion order
        "GunYu.Props.C10.gen_newTrie_refines",
        "GunYu.Props.C10.gen_trieInsert_refines",
        "GunYu.Props.C10.gen_trieSearch_eq_model",
        "GunYu.Props.C10.gen_trieIsPrefixMatch_eq_model",
        "GunYu.Props.C10.gen_trieInsertAll_refines",
        "GunYu.Props.C10.gen_trie_search_iff",
        "GunYu.Props.C10.gen_trie_prefix_iff",
        "GunYu.Props.C10.gen_filterCmd_eq_model",
        "GunYu.Props.C10.gen_filterKey_eq_model",
        "GunYu.Props.C10.gen_parseCommandInt_eq_model",
        # FilterSlot translated each run (its IsSlotInList calls are gofn's translation): the model's slot rule for EVERY key, the empty key (slot 0) included
        "GunYu.Props.C10.gen_filterSlot_eq_model",
        "GunYu.Props.C10.keyToSlot_empty",
    ],
    "expected_facts": {
        "output_filter_wiring": EXPECTED_WIRING,
        "output_filter_uses": EXPECTED_USES,
        "output_filter_handoff": EXPECTED_HANDOFF,
        "config_filter_writes": [],
        # process-global state reachable from the filter / slot code (harness/extract/c11.go): none; a cache or memo added there is a first-use / concurrency dimension to draw
        "slot_filter_globals_written": [],
        "output_filter_wiring_defs": ["keyFilter := cfg.Filter.KeyFilter", "slotFilter := cfg.Filter.SlotFilter", "dbBlackList := cfg.Filter.DbBlacklist"],
        "keyspec_numkeysExtractor_body": "{ return numkeysStepExtractor(numkeysIdx, firstKeyIdx, 1, fixedKeys...) }",
        "keyspec_partial_projection": ["mset", "del", "unlink"],
        "keyspec_position_rows": EXPECTED_POSITION_ROWS,
        "keyspec_extractor_rows": EXPECTED_EXTRACTOR_ROWS,
        "keyspec_positions": 138,
        "keyspec_extractors": 19,
        "noroute_cmds": 35,
        "noroute_cmds_list": ["CLUSTER", "ASKING", "READONLY", "READWRITE", "AUTH", "CLIENT", "QUIT", "RESET", "ECHO", "COMMAND", "FLUSHALL", "FLUSHDB", "LATENCY", "MODULE", "PSYNC", "REPLCONF", "SAVE", "SHUTDOWN", "SLAVEOF", "SLOWLOG", "SWAPDB", "SYNC", "BGSAVE", "BGREWRITEAOF", "OPINFO", "LASTSAVE", "MONITOR", "ROLE", "DEBUG", "RESTORE-ASKING", "MIGRATE", "ASKING", "WAIT", "PFSELFTEST", "PFDEBUG"],
        "reserved_prefixes": ["redis-gunyu-checkpoint", "/redis-gunyu"],
    },
    "harness": [
        {"name": "C10", "pkg": "./pkg/filter/", "test": "TestVerifC10"},
        {"name": "C10out", "pkg": "./syncer/", "test": "TestVerifC10"},
        {"name": "C10cfg", "pkg": "./config/", "test": "TestVerifC10"},
        # the real-goroutine part (8 readers of one built filter) in its own run: thorough tier builds it with the Go race detector
        {"name": "C10conc", "pkg": "./pkg/filter/", "test": "TestVerifC10conc", "go_flags_thorough": ["-race"]},
    ],
    "driver": "drv_C10",
    "gens": ["gofn_rangelist", "gofn_keytoslot", "gofn_crc16", "crc16", "gofn_trie", "gofn_keyspec", "c11"],
    "rule": "generated (configuration, input) pairs, corpus first. Configurations: 0-6 slot-range entries per list drawn to nest / enclose / overlap "
            "left and right / touch / share a left bound / be single-slot / reversed / malformed / exceed 16383, dense (64-slot) and sparse universes; "
            "0-4 prefixes per list with shared prefixes, invalid UTF-8, U+FFFD, the empty string; command black/white lists in random ASCII case; db lists. "
            "Inputs: keys steered onto and next to every range bound by inverting CRC16 on 2-byte hash tags, onto / one byte short of / one byte off each "
            "prefix, reserved bookkeeping keys and near misses, brace arrangements, random bytes; a sweep of every slot 0..16383 (step 7 in quick) against "
            "adversarial range sets; commands from both regenerated keyspec tables in random case with arity below/at/above the row, extractor commands in "
            "documented and broken shapes (numkeys 0/too large/non-numeric/leading zeros/up to 19 digits incl. 2^63-1, dangling STORE/BY/GET, STREAMS with odd "
            "tails), 49 well-formed commands with key positions from the Redis command reference (golden), unknown and non-ASCII command names. "
            "DIMENSION AUDIT (forced, with a coverage counter cfg_<list>_<0|1|many> / cfg_<option>_<value> each): every list empty / one entry / the same entry twice / entries that are prefixes of one another / the empty string as a prefix "
            "and as a command name / non-ASCII prefixes; slot entries one-point, adjacent, overlapping, reversed, malformed, with the end slots; commands with NO argument, the empty key alone and among several keys, DEL / UNLINK / MSET with 1000 keys and the "
            "rejected key at the front / middle / end, names in lower / upper / mixed case - in the bare and the NewRedisOutput session; dbBlacklist [] / [2] / [0] / [1,2,3] x targetDb -1 / 0 / 2 x targetDbMap none / onto a listed number / from a listed number / "
            "non-injective x startDbId 0..3 x three fixed streams with SELECT inside MULTI; snapshot runs with replayRdbParallel 1 / 3, keyExists replace / none, the empty key among the generated entries, and single-entry snapshots with replaceHashTag ON in both "
            "loops (keys whose target key is a bookkeeping key; judged by rules + reserved namespaces, no model line). ALIASING monitor: the last six projected results of FilterCmdKey are held across later calls and must still read what was returned "
            "(what = FilterCmdKey-alias; a scratch buffer kept in the filter is reported with the two op lines), and the caller's argument slice must be unchanged (FilterCmdKey-mutates-args). "
            "EDGE SLOTS (seeded C11-r8-m1): the EMPTY key (HASH_SLOT 0) and keys steered into slots 0, 1, 16382, 16383 against black / white lists that contain / exclude the end slots, through FilterSlot, FilterCmdKey "
            "(SET, DEL, MSET, RENAME with a second key of another slot) in both sessions, and corpus/C10/slot_empty_key.txt through the parser loop and both snapshot loops. "
            "Session 5: every (word, longer word with that prefix) pair of 11 pairs inserted in BOTH orders (and around a third word) into each of the four lists and probed with every prefix of the longer word in both cases "
            "(one Trie serves exact and prefix lists); 8 goroutines reading ONE built filter (FilterKey / FilterSlot on own keys, counted budget) compared with the oracle (what = concurrent-filter). "
            "Real code run: RedisKeyFilter bare (session C10); as wired by NewRedisOutput (C10out) - Filter* directly, the parser loop parseAofCommand on "
            "command streams (SELECT of listed/unlisted dbs, MULTI/EXEC around a switch, PING, sentinel hello, blacklisted names; TargetDb, TargetDbMap and "
            "startDbId drawn in half of the streams), the bisync parser parseAofReplayUnits (standalone mode) on streams of table-resolved commands with "
            "balanced and stray MULTI/EXEC, and the two snapshot worker loops rdbReplay / rdbReplayBisync fed by the real rdb.Loader from generated "
            "string-key snapshots against the target double (outcome = key present in the target); config.(*SyncConfig).fix on standalone/cluster x "
            "TargetDb x resume x filter, struct-built and through the YAML loader InitSyncerConfig (printable configurations), plus the flag setters SliceInt / "
            "DoubleSliceUint16.Set (C10cfg). Also drawn: the kind of target (standalone / cluster) of the output, SyncDelayTestKey = a generated (often rejected) key with probe "
            "SETs in the stream, ReplaceHashTag; the bisync parser in standalone and cluster slot mode; DEL/UNLINK/MSET/MSETNX/SINTERSTORE with 63-257 keys and rejected keys "
            "around positions 0, 63, 64 and the end; keys of the bisync control namespace and near misses. Every outcome is compared with the Lean model line by line and with an independent Go oracle (linear union "
            "of ranges, bytes.HasPrefix, bitwise CRC16, rule predicates per command, bookkeeping namespaces as documented in docs/bisync.md 4.1 - not read from the wiring). For the parser "
            "loops the MONITOR judges only the filter decision (which data commands with which arguments reach the sender / the units); offsets, SELECT "
            "elision, PING and transaction brackets are tied by the model diff only (they belong to C01/C02/C09). distinct_nontrivial = distinct (config, key) with >1 rule of a kind, "
            "(config, command) whose outcome is reject/projection, non-empty parser outputs, snapshot entries, preserved db lists",
    "trusted": [
        "Redis Cluster HASH_SLOT as transcribed in Model/Slot.lean (proved equal to the model of redis.KeyToSlot in C11)",
        "sort.Search on a list sorted by Left finds the first greater Left (insertSorted is its linear transcription; for the TRANSLATED InsertSlotInList this is now PROVED: "
        "GoSem.sortSearch is the standard library's binary search transcribed and Props/C10Gen shows it returns the model's position on every list sorted by Left); Go map[byte] as a function UInt8 -> Option",
        "the trie translation (harness/extract/gofn_c10.go, generator gofn_trie -> Gen/FnTrie.lean): pkg/filter/trie.go NewTrie / Insert / IsPrefixMatch / Search and RedisKeyFilter.FilterCmd / FilterKey are "
        "TRANSLATED on every run; reading of the heap: map[byte]*TrieNode as UInt8 -> Option TrieNode, a *TrieNode variable as a cursor (nil or the path of map keys from the root), a field write as modifyAt, a store of a "
        "fresh literal into a NIL slot as storeFresh (a store over a linked child is `none` = not modelled). Exact while the nodes form a tree owned by the handle; the generator checks on the whole package that nodes are "
        "created only by literals with a made map inside the translated functions, the map field occurs only as x.children[k], no field of TrieNode / Trie is assigned or has its address taken elsewhere, and no translated "
        "function mentions a package-level variable. Props/C10Trie proves the translation REFINES the hand model (TRep) for every word shorter than 2^63-1 bytes and every insertion order",
        "the Go->Lean translator (harness/extract/gofn*.go) and its prelude Basic/GoSem.lean: RangeList.IsSlotInList / InsertSlotInList are translated from range.go on every run "
        "(Gen/FnRangeList.lean; []*Range as a list of optional structs, the receiver as the struct, the statements `append; copy; s[i] = v` read as one insert-at-index, "
        "sort.Search as the transcribed binary search) and proved equal to RangeList.contains / RangeList.insert for every key, every list without nil entries sorted by Left and every pair of bounds; "
        "NewRangeList is translated too (gen_rangeLookup_iff starts from the list it returns); the translation ASSUMES a 64-bit `int` (amd64/arm64); the CRC table the slot proofs use is the one the `crc16` generator regenerates",
    ],
    "assumptions": [
        "command names and option words are ASCII (Go folds case with Unicode rules: Kelvin sign, long s; the model folds ASCII only); configured command names are ASCII",
        "numkeys arguments are below 2^63 (parseCommandInt accumulates in an int64 and wraps beyond; a Redis source rejects such counts before propagation)",
        "hand-written model functions (extractor bodies, FilterCmdKey, FilterDb, FilterSlot's two-list combination, the Insert* list loops with their case folding, rdbKeep, configFix) are tied by correspondence "
        "(the range list, the trie and FilterCmd / FilterKey / FilterSlot are now regenerated and proved, see trusted); the parser loop is the C01 model "
        "Sender.parseStep instantiated with the concrete filter (pcfgOf) and the bisync parser is the C13 model Bisync.parse, both tied here under generated filter configurations; "
        "the two keyspec tables, the partial-projection list, NoRouteCmds and the reserved prefixes are regenerated from source on every run",
        "every statement of package syncer that consults the filter (file, function, printed condition and guards), the Insert* wiring of NewRedisOutput with its guards, the two "
        "places the configured filter is handed to NewRedisOutput and the absence of any assignment through a filter-configuration field anywhere in the repository, and the definitions of the identifiers passed to Insert* are compared with expected lists",
        "boundary of the rule: a command whose key positions the regenerated table does not resolve passes with all its arguments (EVAL/FCALL with numkeys 0, SORT without STORE, "
        "module commands absent from the table, source keys of CMS.MERGE/TDIGEST.MERGE); the property's quantifier is the table's command set, its agreement with the Redis "
        "command reference is checked on 49 golden commands only (no vendored command list is available offline)",
        "CLOSED (session 5, /repo 975110c, finding C18-F1 found by C18's oracle shapes): GEORADIUS / GEORADIUSBYMEMBER / SORT key positions are now the ones Redis's own getkeys "
        "procedures name (last STORE / STOREDIST, option words only behind the fixed arguments, LIMIT's arguments stepped over, a SORT destination spelling an option word left to the "
        "dynamic resolution); Model/Filter.lean geoLoop / sortLoop re-transcribed, Proofs/FilterKeys re-proved, six golden rows added; proved equal to Redis's procs in Props/C18Movable "
        "(geo_keys_exact / geo_keys_complete / sort_keys_exact)",
        "bookkeeping keys = the three namespaces the project documents (redis-gunyu-checkpoint*, /redis-gunyu*, redis-gunyu-bisync:*). A bisync link's incremental parser "
        "handles the bisync namespace itself (isBisyncControlCommand: first argument, or any argument of DEL/UNLINK - e.g. RENAME a redis-gunyu-bisync:x passes; C13's subject), "
        "its outFilter deliberately does not list it (the parser must see marker commands)",
        "MSET with a dangling last key (odd argument count; no source propagates it): the property does not define its projection; outFilter-then-namespace-filter withholds it where a "
        "single union filter would project - monitor skipped, model diff only",
        "a bisync parser that FAILS (E) where the rules would forward is seen by the model diff only (the monitor checks that nothing outside the rules is emitted)",
        "configuration as parsed: YAML loader and flag setters are run for printable configurations; the -cmd=rdb flag registration itself (config/flags.go) is not",
        "SELECT is never subject to the command blacklist (branch order of the parser); PUBLISH always carries a channel (parseAofCommand indexes argv[0] without a length check)",
        "a run resumes (startDbId) where the source database is not listed: bypass starts false (C02's invariant keeps the resume position out of bypassed regions; a blacklist "
        "edited between runs takes effect at the next SELECT)",
        "snapshot paths with replaceHashTag ON: rdbReplayBisync and (since /repo e867911) the plain rdbReplay additionally withhold an entry whose TARGET key (first brace pair removed) lies in a bookkeeping namespace "
        "(bisyncRdbTargetReserved, /repo f9044ee, C13's subject; the call is pinned in output_filter_uses); the models rdbKeep / rdbKeepBisync and the snapshot runs of C10out are the replaceHashTag-OFF case, where it is constantly false",
        "snapshot path: observed on string values with replayRdbEnableRestore=false, keyExists=replace, one worker; the decision does not depend on the value type (C03/C20 cover the replay itself)",
    ],
    "partial": [
        "NOT regenerated yet: the keyspec extractors (numkeysStepExtractor / fixedKeyExtractor are closures that append to a result slice - gofn has neither closures nor an append accumulator), CommandKeyIndexes, FilterCmdKey, "
        "FilterDb, the Insert* loops (strings.ToLower/ToUpper): hand models + correspondence + oracle. keyspec.parseCommandInt IS translated each run (generator gofn_keyspec, Gen/FnKeySpec.lean) and proved equal to "
        "Filter.parseCommandInt for every argument of at most 18 bytes (gen_parseCommandInt_eq_model; 19 digits and more can wrap the int64 accumulator - the declared numkeys assumption)",
        "harmless rewrites tried against the trie tie (all OK): renamed locals / i += 1 / inlined ch / an extra cursor variable / else-if / nil == x / a changed log line, and - since the proofs of "
        "gen_filterKey_eq_model / gen_filterCmd_eq_model no longer follow the order of the tests - FilterKey testing the white list first and FilterCmd written as `return a || b`",
        "NOT done in session 5: FilterDb, FilterCmdKey and the Insert* loops through the second translator (needs range loops over slices, holder-field writes, calls of writing methods, strings.ToLower/ToUpper as "
        "parameters with an ASCII hypothesis, and for FilterCmdKey make/append accumulators and [][]byte)",
    ],
}

MANIFEST = {
    "text": "Lean theorems over ALL configurations and inputs: range-list lookup after any sequence of inserts (any number/order/overlap/nesting) holds exactly on the "
            "union of the valid ranges; slot rule = black or (white configured and not white) on HASH_SLOT of the key (via C11); the byte-indexed trie matches exactly "
            "when a non-empty configured prefix is a byte prefix; whatever FilterCmdKey forwards of a table-resolved command has all its key positions accepted, the "
            "forwarded keys are exactly the accepted keys in order (DEL/UNLINK: the key list; MSET: each with its own value), otherwise it is withheld; no key position "
            "of a command a plain link forwards and no snapshot key either loop replays lies in one of the three documented bookkeeping namespaces (every key constructor of "
            "pkg/redis/checkpoint/bisync.go is proved to build a key of the namespace), under every configuration; snapshot entries are replayed iff db, prefix and slot "
            "rules accept; over any command stream nothing of a listed database is handed to the sender between its SELECT and the next one except transaction "
            "brackets (MULTI/EXEC, absorbed by the sender, carrying the offset handed over before the region), and after a SELECT of an unlisted database an ordinary "
            "command is handed over exactly when name and key rules accept it; command blacklist is case-folded membership. The configuration layer (SyncConfig.fix, YAML, flags) is tied by correspondence only. Model tied to pkg/filter, "
            "pkg/redis/keyspec, NewRedisOutput, parseAofCommand, parseAofReplayUnits, rdbReplay, rdbReplayBisync and SyncConfig.fix by differential correspondence plus an "
            "independent Go oracle.",
    "note": "trusted: Lean kernel (propext, Classical.choice, Quot.sound only), HASH_SLOT transcription, extractor, harness and doubles; ASCII command words; tables regenerated, logic by correspondence; "
            "commands outside the key table pass unfiltered (boundary named in assumptions)",
    "technique": "Lean 4 proof (induction over insert sequences / words / key lists / command streams, sortedness invariant) + regenerated tables + differential correspondence + independent oracle",
}
