EXPECTED_WIRING = [
    "ro.outFilter.InsertCmdBlackList(filter.NoRouteCmds, true)",
    "ro.outFilter.InsertCmdBlackList(cfg.Filter.CmdBlacklist, true)",
    "ro.outFilter.InsertPrefixKeyBlackList([]string{config.CheckpointKey, config.NamespacePrefixKey})",
    "ro.outFilter.InsertPrefixKeyBlackList(keyFilter.PrefixKeyBlacklist)",
    "ro.outFilter.InsertPrefixKeyWhiteList(keyFilter.PrefixKeyWhitelist)",
    "ro.outFilter.InsertSlotWhiteList(slotFilter.KeySlotWhitelist)",
    "ro.outFilter.InsertSlotBlackList(slotFilter.KeySlotBlacklist)",
    "ro.outFilter.InsertDbBlackList(dbBlackList)",
]

EXPECTED_USES = [
    "parseAofCommand:FilterCmd",
    "parseAofCommand:FilterCmdKey",
    "parseAofCommand:FilterDb",
    "rdbReplay:FilterDb",
    "rdbReplay:FilterKey",
    "rdbReplay:FilterSlot",
]

PROP = {
    "lean_modules": ["GunYu.Props.C10"],
    "audit_namespaces": ["GunYu.Props.C10"],
    "required_theorems": [
        "GunYu.Props.C10.rangeLookup_iff",
        "GunYu.Props.C10.filterSlot_iff",
        "GunYu.Props.C10.prefixMatch_iff",
        "GunYu.Props.C10.filterKey_iff",
        "GunYu.Props.C10.filterCmdKey_spec",
        "GunYu.Props.C10.bookkeeping_never_forwarded",
        "GunYu.Props.C10.cmd_blacklist_iff",
        "GunYu.Props.C10.db_iff",
    ],
    "expected_facts": {
        "output_filter_wiring": EXPECTED_WIRING,
        "output_filter_uses": EXPECTED_USES,
        "keyspec_numkeysExtractor_body": "{ return numkeysStepExtractor(numkeysIdx, firstKeyIdx, 1, fixedKeys...) }",
        "keyspec_partial_projection": ["mset", "del", "unlink"],
    },
    "harness": [
        {"name": "C10", "pkg": "./pkg/filter/", "test": "TestVerifC10"},
        {"name": "C10out", "pkg": "./syncer/", "test": "TestVerifC10"},
    ],
    "driver": "drv_C10",
    "rule": "generated (configuration, input) pairs, corpus first. Configurations: 0-6 slot-range entries per list drawn to nest / enclose / overlap "
            "left and right / touch / share a left bound / be single-slot / reversed / malformed / exceed 16383, dense (64-slot) and sparse universes; "
            "0-4 prefixes per list with shared prefixes, invalid UTF-8, U+FFFD, the empty string; command black/white lists in random ASCII case; db lists. "
            "Inputs: keys steered onto and next to every range bound by inverting CRC16 on 2-byte hash tags, onto / one byte short of / one byte off each "
            "prefix, reserved bookkeeping keys and near misses, brace arrangements, random bytes; a sweep of every slot 0..16383 (step 7 in quick) against "
            "adversarial range sets; commands from both regenerated keyspec tables in random case with arity below/at/above the row, extractor commands in "
            "documented and broken shapes (numkeys 0/too large/non-numeric/leading zeros/up to 18 digits, dangling STORE/BY/GET, STREAMS with odd tails), "
            "unknown and non-ASCII command names. Each pair is evaluated by the real RedisKeyFilter (bare, and as wired by NewRedisOutput incl. the parser "
            "loop parseAofCommand) and compared with the Lean model line by line and with an independent Go oracle (linear union of ranges, bytes.HasPrefix, "
            "bitwise CRC16). distinct_nontrivial = distinct (config, key) with >1 rule of a kind and (config, command) whose outcome is reject/projection",
    "trusted": [
        "Redis Cluster HASH_SLOT as transcribed in Model/Slot.lean (proved equal to the model of redis.KeyToSlot in C11)",
        "sort.Search on a list sorted by Left finds the first greater Left (insertSorted is its linear transcription); Go map[byte] as a function UInt8 -> Option",
    ],
    "assumptions": [
        "command names and option words are ASCII (Go folds case with Unicode rules: Kelvin sign, long s; the model folds ASCII only); configured command names are ASCII",
        "numkeys arguments are below 2^62 (parseCommandInt wraps on int64 overflow; Redis itself rejects numkeys > argc before propagation)",
        "hand-written model functions (range list, trie, extractor bodies, FilterCmdKey, parser filter step) are tied by correspondence; the two keyspec tables, "
        "the partial-projection list, NoRouteCmds and the reserved prefixes are regenerated from source on every run",
        "the set of filter call sites in syncer/output.go and the Insert* wiring of NewRedisOutput are compared with the expected lists",
    ],
    "partial": [],
}

MANIFEST = {
    "text": "Lean theorems over ALL configurations and inputs: range-list lookup after any sequence of inserts (any number/order/overlap/nesting) holds exactly on the "
            "union of the valid ranges; slot rule = black or (white configured and not white) on HASH_SLOT of the key (via C11); the byte-indexed trie matches exactly "
            "when a non-empty configured prefix is a byte prefix; FilterCmdKey forwards unchanged / projects DEL, UNLINK to the accepted keys and MSET to the accepted "
            "pairs / withholds, per the regenerated key-position tables; keys under the tool's two reserved prefixes are rejected under every configuration; command "
            "blacklist is case-folded membership; db rule is membership except -1. Model tied to pkg/filter, pkg/redis/keyspec and NewRedisOutput/parseAofCommand by "
            "differential correspondence plus an independent Go oracle.",
    "note": "trusted: Lean kernel (propext, Classical.choice, Quot.sound only), HASH_SLOT transcription, extractor, harness; ASCII command words; tables regenerated, logic by correspondence",
    "technique": "Lean 4 proof (induction over insert sequences / words / key lists, sortedness invariant) + regenerated tables + differential correspondence + independent oracle",
}
