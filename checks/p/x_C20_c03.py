# session 5, owner of C03: C20's open statement loader_stream_stmt (Props/C20Loader.lean) is proved from
# C03's execStream_onKey (Proofs/Rdb/StreamKey.lean); merged into PROPS["C20"] by checks/props.py
EXTRA = {
    "lean_modules": ["GunYu.Props.C20StreamS5"],
    "required_theorems": ["GunYu.Props.C20.loader_stream_from_c03"],
}
