PROP = {
    "lean_modules": ["GunYu.Props.C05"],
    "audit_namespaces": ["GunYu.Props.C05"],
    "required_theorems": [
        "GunYu.Props.C05.disk_reader_delivers",
        "GunYu.Props.C05.disk_history_records_appends",
        "GunYu.Props.C05.disk_snapshot_reader_delivers",
        "GunYu.Props.C05.disk_gc_keeps_contiguous_suffix",
        "GunYu.Props.C05.disk_range_contiguous",
        "GunYu.Props.C05.disk_refines",
        "GunYu.Props.C05.disk_closed_reader_read_fails",
        "GunYu.Props.C05.disk_closed_reader_frozen",
        "GunYu.Props.C05.disk_invalidation_closes_readers",
        "GunYu.Props.C05.disk_reader_stays_open",
        "GunYu.Props.C05.disk_snapshot_hands_over",
        "GunYu.Props.C05.disk_gc_drops_only_unreferenced_snapshot",
        "GunYu.Props.C05.disk_reader_progress",
        "GunYu.Props.C05.disk_valid_iff_readable",
        "GunYu.Props.C05.disk_snapshot_offered_iff_complete",
        "GunYu.Props.C05.mem_invariant",
        "GunYu.Props.C05.mem_invariant_settled",
        "GunYu.Props.C05.mem_history_records_appends",
        "GunYu.Props.C05.mem_closed_writer_drops_pending",
        "GunYu.Props.C05.mem_refines",
        "GunYu.Props.C05.mem_index_contiguous",
        "GunYu.Props.C05.mem_reader_delivers",
        "GunYu.Props.C05.mem_reader_delivers_stmt_holds",
        "GunYu.Props.C05.mem_valid_iff_readable",
        "GunYu.Props.C05.mem_open_stream_reader",
        "GunYu.Props.C05.mem_snapshot_offset_needs_handover",
        "GunYu.Props.C05.mem_valid_uncovered_is_snapshot_replay",
        "GunYu.Props.C05.mem_snapshot_offered_complete_or_live",
        "GunYu.Props.C05.mem_snapshot_reader_delivers",
        "GunYu.Props.C05.mem_snapshot_shape",
        "GunYu.Props.C05.mem_full_invariant_settled",
        "GunYu.Props.C05.mem_refuses_discontinuous",
        "GunYu.Props.C05.mem_accepted_writer_is_continuous",
        "GunYu.Props.C05.mem_gc_keeps_contiguous_suffix",
        "GunYu.Props.C05.mem_snapshot_offered_iff_replayable",
        "GunYu.Props.C05.mem_finish_keeps_only_complete",
        "GunYu.Props.C05.mem_collected_snapshot_not_offered",
        "GunYu.Props.C05.mem_copy_step_faithful",
        "GunYu.Props.C05.mem_reset_empties_index",
        "GunYu.Props.C05.mem_stale_reader_has_no_successor",
    ],
    "expected_facts": {},
    "harness": [
        {"name": "C05", "pkg": "./pkg/store/", "test": "TestVerifC05"},
        {"name": "C05mem", "pkg": "./syncer/", "test": "TestVerifC05mem"},
        {"name": "C05chan", "pkg": "./syncer/", "test": "TestVerifC05chan"},
    ],
    "driver": "drv_C05",
    "rule": "generated operation sequences (150-250 ops per case; LogSize 32..256, MaxSize 2..7 segments or 0) executed sequentially "
            "against the REAL store.Storer on a temp dir (collector stopped and invoked through VerifGcLog; AOF writer driven through "
            "AofRotater.write, snapshot writer through RdbWriter.Start/ingest fed by a step reader, readers through "
            "AofRotateReader.read / RdbReader.read; a quarter of the reads force a collector pass INSIDE the reader's rotation step via "
            "its close observer) and against the REAL MemoryChannel inside a testing/synctest bubble (writers through Start/ingest, "
            "readers through Start/copy loop/pipe, synctest.Wait after every op; Start sometimes delayed so that segments stay pinned; "
            "appends that block on capacity stay blocked until space is freed). After EVERY op: IsValidOffset at the offsets around every "
            "boundary, GetOffsetRange, GetRdb, LatestOffset/StartPoint, and the internal index (segments with sizes and reference counts, "
            "snapshot, directory listing / totalSize) are compared line by line with the Lean model; every byte read is compared with the "
            "model and, independently, with the bytes the harness wrote at that offset (monitor), plus: valid => readable, offered snapshot "
            "=> complete or live, invalidated reader ends or fails, no operation hangs (every read has a 1.5 s budget, whole-test watchdog). "
            "SetRunId with the SAME id (StartPoint -> VerifyRunId at every source reconnect) is issued at any time with readers and writers open, "
            "an id switch with readers open. Third harness C05chan (monitor only, real time, both backends through the Channel interface): "
            "NewAofWritter/NewRdbWriter + Start (real ingest, snapshot and stream over ONE source connection), NewReader + ChannelReader.Start "
            "(real pump / copy loop, pipe, bufio) + IoReader, run-id wrappers (foreign id, '?', StartPoint at reconnect), reference-leak check after "
            "ChannelReader.Close / WaitCloser, chunks and segments up to 33 KiB / 40 KiB (memory also LogSize 0), 2.6 MiB through one pipe with a consumer that lags by more than pipe + buffered "
            "reader hold and tops its buffer up with Peek (the pipe's ring wraps), and a "
            "concurrent phase (writer, 2 followers, 3 openers at the left edge, collector loop as real goroutines); invalidation observed where the "
            "property says, by CONSUMERS blocked on IoReader() (at the tail, behind it, replaying a snapshot being received): writer replacement, new "
            "snapshot, id switch and DelRunId must make every consumer end or fail within the budget and the call itself must return (found D28); "
            "readers opened continuously while the snapshot writer commits small snapshots (D29). Disk harness: the rotation window (next file created, "
            "not yet indexed; real closeAof + openFile with a stop in between, reader polling at the tail, collector pass inside) followed by several "
            "segments with collector passes while the reader rests. Memory harness: the snapshot's own offset is valid only while the log starts there "
            "or is empty (hand-over, D30). C05chan reports as NOTES (counters, never violations) what C05 does not state: the wrappers' answers for '?' "
            "and StartPoint, a complete snapshot that is not offered, slow writers; the reference count after all readers closed is compared with the "
            "model (tie), not monitored. "
            "distinct_nontrivial = cases with rotation and a reader that crossed a segment boundary",
    "trusted": [
        "testing/synctest quiescence (memory harness): after synctest.Wait every goroutine of the channel is durably blocked",
        "reference counts are derived from the reader list in the model; the harness compares them with rwRef / readers.Load() after every op",
    ],
    "assumptions": [
        "callers' protocol (Disk.okOp): a disk stream writer continues where the held stream ends (input.go/replica.go pass LatestOffset / the snapshot offset); "
        "the disk backend itself does not check this (the memory backend does: mem_refuses_discontinuous)",
        "a replication-id SWITCH on the disk backend happens between two runs of the input: no writer open (readers may be open and are closed by it); "
        "the same id again is allowed at any time (D27 fixed: it no longer re-scans)",
        "thread interleavings INSIDE one mutex-protected step are outside the step-level model (the rotation window of tryReadNextFile is driven separately, monitor only); "
        "a real-goroutine stress phase (writer closed while an endless 1-byte source is being ingested) supports the tie and found D26",
        "memory harness: an append is limited to one mutex-protected piece whenever the collector could run inside it (between two pieces the copy goroutines race with the writer)",
        "the disk model has one run-id directory (SetRunId between two existing directories / DelRunId of a foreign id are C16's subject)",
        "C05chan is monitor-only (apart from the reference count after close): with real pump goroutines the segment a reader holds at a given instant is not a function of the op sequence; "
        "its real-time budgets are 10-20 s per wait (a machine that stalls a goroutine longer gives a false reader-stalls/invalidated-reader-hangs)",
        "the sequential harnesses diff reference counts, per-segment sizes and the directory listing with the model after every op: a change of the reference discipline "
        "is a correspondence DIFF (tie failure, no-failing-input-found), stricter than the property by design",
    ],
    "partial": [
        "memory backend: the global theorems (mem_invariant, mem_refines, mem_reader_delivers, mem_valid_iff_readable, mem_snapshot_offered_complete_or_live, "
        "mem_history_records_appends, mem_snapshot_reader_delivers) hold for ALL operation lists with NO hypothesis; what they do NOT say: (a) the model has no ghost for the "
        "snapshot's SOURCE bytes: proved is that a copy loop replaying the offered snapshot wrote exactly the first pos bytes the snapshot HOLDS, in order, and that an offered "
        "snapshot has size <= written = bytes held, contiguous from 0; that the bytes held are the bytes received is the append step's definition + correspondence + monitor; "
        "(b) nothing is claimed of a copy loop after it returned or after its segment left the index (it ends or fails: step facts mem_stale_reader_has_no_successor, "
        "mem_reset_empties_index — that it cannot deliver OTHER bytes afterwards follows from mem_reader_delivers only while it holds an indexed segment; for heap segments "
        "(immutable, closed) it is the correspondence); (c) progress (a reader reaches the tail) is not proved, as on disk; (d) the consumer side (pipe, bufio) is modelled "
        "(buf/bbuf) but `out` is what the copy loop wrote to the pipe — that the consumer reads exactly `out` is the consume step's definition + correspondence",
        "memory model vs code, differences that remain (each property-neutral, reasons): (1) NewAofWritter is two lock sections in the code (install the new writer; old.Close() -> finishAof(old)) "
        "and one step in the model: in the window an old writer blocked on capacity that is woken re-checks only capacity and may append to its (no longer last) segment — the bytes are the "
        "source's bytes at those offsets and the new writer starts at the same offset, so readers get the same bytes either way; the window has no yield point under synctest and is not driven; "
        "(2) a writer that dies WHILE BLOCKED may run one more collector pass before it sees EOF (ensureCapacityLocked selects between spaceNotify and done, both ready): it can drop the closed, "
        "unreferenced segment it just wrote — retention only; the generator closes/replaces a blocked writer only while the oldest segment is pinned by a reader, where the outcome is a function "
        "of the operations; (3) `rdbFail` models the source failing between two chunks; a Read that returns the LAST bytes together with an error (io.Reader allows it, bufio over a socket rarely does) "
        "drops a complete snapshot in the code and is not an operation of the model — it offers less, never other bytes; (4) the model's rdbAppend accepts a chunk beyond the announced size (the code's ingest clamps); "
        "(5) copyStep moves the whole rest of a segment in one step (code: 4096/8192-byte iterations, equivalent for append-only data)",
        "memory validity: an offset BELOW the offered snapshot's is valid in model and code and is served by a replay of the snapshot even when the log no longer starts at the snapshot's offset "
        "(snapshot (500,4), log trimmed to 508: valid(499) -> the real store serves the complete snapshot 01020304; valid(500) = false -> the source is asked; corpus r3 line): no byte of another "
        "offset is served and no gap is bridged from the cache, so this is not counted as a violation of 'valid only if such a read is possible'; a memory counterpart of disk_snapshot_hands_over is false by design (a3509d3 keeps the collector's order)",
        "real-time: no verdict of the C05 harnesses depends on wall-clock time any more — budgets are counted in polls of a reference goroutine (vfutil.StartBudget, twice the nominal duration), "
        "the hard limit (10 min) and the whole-test watchdogs end the run as an infrastructure failure (broken tie), never as a violation",
        "disk refinement is proved as `abs s = suffix of the written history from abs.base` in every reachable state (disk_refines) + the per-op history lemma; "
        "a separate abstract transition system with a simulation relation is not defined",
        "findings of the real-goroutine phases (concurrent phase, invalidation, snapshot race, memory stress) are not replayable inputs: the replay names backend, scenario and seed only",
        "concurrency: real-goroutine phases (memory writer close vs rotation; C05chan: writer + followers + openers + collector) are probabilistic support, not run under -race",
        "disk_reader_progress is one-step enabledness (a read delivers or the rotation step is enabled); a catch-up theorem (the reader REACHES the end under interleaved gc/appends) is not proved",
    ],
}

MANIFEST = {
    "text": "Step-level Lean models of the disk index (Storer/dataSet/AofRotater/AofRotateReader/RdbWriter) and of MemoryChannel; a reader's move to the next segment is two "
            "steps so the collector can interleave. Proved for ALL operation lists respecting the callers' protocol (disk): every open stream reader delivered exactly the "
            "bytes appended at [start,pos), snapshot readers exactly the snapshot bytes, closed/invalidated readers fail and never deliver again, resets and writer "
            "replacement / id switch close readers and nothing else does, a valid reader can always make a step, held range contiguous, IsValidOffset <-> GetReader finds data, "
            "snapshot offered <-> complete or being written and its offset lies in a held segment, collector drops only an unreferenced prefix / snapshot. "
            "Memory (MemoryChannel): the same is proved GLOBALLY for ALL operation lists with no hypothesis (invariant MemInv, preserved by every operation incl. capacity-blocked "
            "appends, retries, collector passes inside appends, resets, every single copy-loop iteration): the cache holds the suffix of the written history from its base, every "
            "copy loop holding an indexed segment wrote to its pipe exactly the bytes appended at [start,pos), valid <-> a reader can be opened (the snapshot's own offset only while "
            "the log starts there), an offered snapshot is live or completely received with every received byte held, and a copy loop replaying it wrote exactly the first pos bytes it holds. Tie: generated op sequences on the real Storer and the real MemoryChannel (synctest), every answer, "
            "reference count and byte compared with the model and with independent bookkeeping.",
    "note": "trusted: Lean kernel, harness, synctest quiescence; assumptions: callers' protocol for disk writers (continuity; no writer open at an id switch); "
            "partial: no ghost for the snapshot's source bytes in the memory model, one-step progress instead of a catch-up theorem. "
            "Defects fixed: D14 (memory+disk), D17, D20-D31 (see known_findings.d/C05.json; D31 = reader orphaned by the trim of an empty live segment; D27 = re-scan with open readers at every source reconnect, D28 = reset dead-lock with two tailing readers, D29 = snapshot reader open vs commit race, D30 = memory collector breaks the snapshot->log hand-over, fixed by c06).",
    "technique": "Lean 4 proof (invariant over arbitrary operation lists, step-level refinement) + differential correspondence on generated operation sequences",
}
